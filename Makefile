# /verif build: Coq development (full .vo build), extracted OCaml model drivers.
SHELL=/bin/bash
.PHONY: setup coq extract clean
setup:
	-@$(MAKE) --no-print-directory -k coq
	@$(MAKE) --no-print-directory -k extract
coq:
	@cd coq && ( echo "-Q . DDP"; find . -name '*.v' ! -name '*_audit.v' | sed 's|^\./||' | LC_ALL=C sort ) > _CoqProject.new && \
	  ( cmp -s _CoqProject.new _CoqProject || { mv _CoqProject.new _CoqProject; coq_makefile -f _CoqProject -o Makefile.coq >/dev/null; } ) ; rm -f _CoqProject.new ; \
	  [ -f Makefile.coq ] || coq_makefile -f _CoqProject -o Makefile.coq >/dev/null ; \
	  timeout 1600 $(MAKE) --no-print-directory -f Makefile.coq 2>&1 | grep -v '^COQDEP\|^COQC\|^make\[' ; exit $${PIPESTATUS[0]}
extract:
	@$(MAKE) --no-print-directory -k -C extract
clean:
	-cd coq && [ -f Makefile.coq ] && $(MAKE) -f Makefile.coq cleanall
	rm -rf coq/Makefile.coq coq/Makefile.coq.conf coq/_CoqProject extract/_build .cache replay
