#!/usr/bin/env python3
"""C01 — compiled programs behave as DDP's evaluation rules prescribe.

Proof side: coq/Props/C01.v (precedence round trip, operator lowering vs. reference semantics for all
operand values, counting-loop lowering).  Tie: typed programs (checks/ddpgen.py) are rendered to DDP,
compiled by the real kddp at -O 0/1/2, linked and run; stdout + exit status + Laufzeitfehler class are
compared with the outcome of the extracted reference semantics (coq/Lang/RefSem.v = the specification).
Legs: corpus (past failures, first) -> exhaustive operator x operand-type x boundary-value cells ->
statement grid (counting loops) -> random programs.  Programs that kddp/LLVM cannot compile are C02's
business: counted as not applicable, never as C01 violations."""
import hashlib
import json
import os
import re
import subprocess
import sys
import time

sys.path.insert(0, os.path.dirname(os.path.abspath(__file__)))
import vlib
from vlib import Check, Build, log
import ddpgen
from ddpgen import (I, F, Bo, Ch, Tx, By, V, BOUNDARY, SCALARS, LISTS, NUMERIC, Scope, tc_type, lit, list_lit,
                    render_program, serialize, is_list, elem, INT64_MIN, INT64_MAX)

PID = "C01"
FUEL = 400000
TNAME = {"Z": "Zahl", "K": "Kommazahl", "B": "Byte", "W": "Wahrheitswert", "C": "Buchstabe", "T": "Text"}


def tname(t):
    return TNAME[t] if t in TNAME else TNAME[elem(t)] + "Liste"


# ------------------------------------------------------------------------------------------------
# model and implementation runners
# ------------------------------------------------------------------------------------------------
def model_eval(progs, fuel=FUEL):
    """progs: list of programs -> list of (kind, stdout bytes); kind N | L | F | U:<guard> | X:<driver error>"""
    exe = vlib.model_bin("c01")
    lines = ["P %d %d %s" % (i, fuel, serialize(p)) for i, p in enumerate(progs)]
    res = [None] * len(progs)
    nch = 1 if len(lines) <= 8 else vlib.NCPU
    chunks = [lines[i::nch] for i in range(nch)]

    def run(chunk):
        if not chunk:
            return ""
        p = subprocess.run([exe], input="\n".join(chunk) + "\n", capture_output=True, text=True, timeout=3000)
        if p.returncode != 0:
            raise RuntimeError("model driver failed: " + p.stderr[-2000:])
        return p.stdout
    for outp in vlib.pmap(run, chunks):
        for l in outp.splitlines():
            f = l.split()
            if f and f[0] == "R":
                res[int(f[1])] = (f[2], bytes.fromhex(f[3]) if len(f) > 3 and f[3] != "-" else b"")
    return res


class Impl:
    """compile + run with a per-run cache keyed by (source, opt)"""

    def __init__(self, b, scratch):
        self.b = b
        self.dir = scratch
        self.cache = {}
        self.compiles = 0

    def run_src(self, src, opt):
        key = hashlib.sha1((str(opt) + src).encode()).hexdigest()[:20]
        if key in self.cache:
            return self.cache[key]
        base = os.path.join(self.dir, key)
        with open(base + ".ddp", "w") as fh:
            fh.write(src)
        r = self.b.compile(base + ".ddp", base + ".exe", opt=opt)
        self.compiles += 1
        if r["stage"] != "ok":
            res = ("CF", r["stage"], r["out"][:1500])
        else:
            rc, so, se = self.b.run(base + ".exe", timeout=20)
            res = ("RUN", rc, so, se[:400])
        for ext in (".exe", ".exe.o"):
            try:
                os.remove(base + ext)
            except OSError:
                pass
        self.cache[key] = res
        return res

    def run(self, prog, opt):
        try:
            src = render_program(prog)
        except Exception as e:   # a program the renderer cannot print is a harness error
            return ("HARNESS", "render: %r" % (e,))
        return self.run_src(src, opt)


def norm_out(b):
    return b.replace(b"-nan", b"nan")


def agrees(model, impl):
    """model: (kind, bytes); impl: ('RUN', rc, stdout, stderr). None = not comparable."""
    kind, out = model
    if impl[0] != "RUN":
        return None
    _, rc, so, se = impl
    if kind == "N":
        return rc == 0 and norm_out(so) == norm_out(out)
    if kind == "L":
        return rc == 1 and norm_out(so) == norm_out(out) and b"Laufzeitfehler" in se
    return None


def describe(model, impl):
    kind, out = model
    want = {"N": "exit 0", "L": "Laufzeitfehler + exit 1"}.get(kind, kind)
    if impl[0] == "RUN":
        got = "exit %d stdout=%r stderr=%r" % (impl[1], impl[2][:300], impl[3][:120])
    else:
        got = "%s %s" % (impl[0], impl[1:])
    return "specification (RefSem): %s stdout=%r; executable: %s" % (want, out[:300], got)


# ------------------------------------------------------------------------------------------------
# shrinking (AST delta debugging that preserves a predicate)
# ------------------------------------------------------------------------------------------------
def sub_exprs(e):
    k = e[0]
    if k == "un":
        return [e[2]]
    if k == "bin":
        return [e[2], e[3]]
    if k == "ter":
        return [e[2], e[3], e[4]]
    if k == "cast":
        return [e[1]]
    if k == "list":
        return list(e[1])
    if k == "call":
        return [a[1] for a in e[2] if a[0] == "val"]
    return []


def expr_variants(e, sc):
    """smaller expressions of the same typechecker type"""
    t = tc_type(e, sc)
    out = []
    for s in sub_exprs(e):
        if tc_type(s, sc) == t:
            out.append(s)
    if t and e[0] not in ("int", "flt", "bool", "chr", "txt", "empty") and not (e[0] == "cast" and e[1][0] == "int"):
        if not is_list(t):
            out.append(lit(t, {"Z": 1, "K": 1.5, "B": 2, "W": True, "C": 97, "T": "ab"}[t]))
        else:
            out.append(["empty", elem(t)])
    # shrink inside
    k = e[0]
    if k == "un":
        out += [["un", e[1], x] for x in expr_variants(e[2], sc)]
    elif k == "bin":
        out += [["bin", e[1], x, e[3]] for x in expr_variants(e[2], sc)]
        out += [["bin", e[1], e[2], x] for x in expr_variants(e[3], sc)]
    elif k == "ter":
        out += [["ter", e[1], x, e[3], e[4]] for x in expr_variants(e[2], sc)]
        out += [["ter", e[1], e[2], x, e[4]] for x in expr_variants(e[3], sc)]
        out += [["ter", e[1], e[2], e[3], x] for x in expr_variants(e[4], sc)]
    elif k == "cast":
        out += [["cast", x, e[2]] for x in expr_variants(e[1], sc)]
    elif k == "list":
        if len(e[1]) > 1:
            out += [["list", e[1][:i] + e[1][i + 1:]] for i in range(len(e[1]))]
        for i, x in enumerate(e[1]):
            out += [["list", e[1][:i] + [y] + e[1][i + 1:]] for y in expr_variants(x, sc)]
    elif k == "call":
        for i, a in enumerate(e[2]):
            if a[0] == "val":
                out += [["call", e[1], e[2][:i] + [["val", y]] + e[2][i + 1:]] for y in expr_variants(a[1], sc)]
    return out


def stmt_variants(s, sc):
    """list of replacement statement LISTS for statement s (scope sc = before s)"""
    k = s[0]
    out = [[]]   # drop it
    inner = sc.child()
    if k == "if":
        out += [s[2], s[3]] if s[3] else [s[2]]
        out += [[["if", c, s[2], s[3]]] for c in expr_variants(s[1], sc)]
        out += [[["if", s[1], b, s[3]]] for b in block_variants(s[2], inner) if b]
        out += [[["if", s[1], s[2], b]] for b in block_variants(s[3], inner)]
    elif k in ("while",):
        out += [[["while", s[1], b]] for b in block_variants(s[2], inner) if b]
    elif k == "dowhile":
        out += [s[1]]
        out += [[["dowhile", b, s[2]]] for b in block_variants(s[1], inner) if b]
    elif k == "repeat":
        out += [s[2]]
        out += [[["repeat", c, s[2]]] for c in expr_variants(s[1], sc)]
        out += [[["repeat", s[1], b]] for b in block_variants(s[2], inner) if b]
    elif k == "for":
        inner.vars[s[2]] = s[1]
        out += [[["for", s[1], s[2], s[3], s[4], s[5], b]] for b in block_variants(s[6], inner) if b]
        if s[5] is not None:
            out.append([["for", s[1], s[2], s[3], s[4], None, s[6]]])
    elif k == "foreach":
        inner.vars[s[2]] = s[1]
        if s[3]:
            inner.vars[s[3]] = "Z"
        out += [[["foreach", s[1], s[2], s[3], s[4], b]] for b in block_variants(s[5], inner) if b]
        out += [[["foreach", s[1], s[2], s[3], c, s[5]]] for c in expr_variants(s[4], sc)]
    elif k == "block":
        out += [s[1]]
        out += [[["block", b]] for b in block_variants(s[1], inner) if b]
    elif k == "decl":
        out += [[["decl", s[1], s[2], e]] for e in expr_variants(s[3], sc)]
    elif k == "assign":
        out += [[["assign", s[1], e]] for e in expr_variants(s[2], sc)]
        if s[1][0] == "lidx":
            out += [[["assign", ["lidx", s[1][1], e], s[2]]] for e in expr_variants(s[1][2], sc)]
    elif k == "print":
        out += [[["print", e]] for e in expr_variants(s[1], sc)]
        t = tc_type(s[1], sc)
        for x in sub_exprs(s[1]):
            if tc_type(x, sc) in ddpgen.PRINT and tc_type(x, sc) != t:
                out.append([["print", x]])
    elif k == "expr":
        out += [[["expr", e]] for e in expr_variants(s[1], sc)]
    elif k == "return" and s[1] is not None:
        out += [[["return", e]] for e in expr_variants(s[1], sc)]
    return out


def block_variants(body, sc):
    """variants of a statement list (each variant is a full replacement list)"""
    out = []
    sc = sc.child()
    for i, s in enumerate(body):
        for repl in stmt_variants(s, sc):
            out.append(body[:i] + repl + body[i + 1:])
        if s[0] == "decl":
            sc.vars[s[2]] = s[1]
    return out


def prog_variants(prog):
    out = []
    sc = Scope()
    for i, it in enumerate(prog):
        if it[0] == "func":
            out.append(prog[:i] + prog[i + 1:])
            inner = sc.child()
            sc.funcs[it[1]] = ([tuple(q) for q in it[2]], it[3])
            inner.funcs = sc.funcs
            for pn, pt, pr in it[2]:
                inner.vars[pn] = pt
            for b in block_variants(it[4], inner):
                if b:
                    out.append(prog[:i] + [["func", it[1], it[2], it[3], b]] + prog[i + 1:])
        else:
            for repl in stmt_variants(it[1], sc):
                out.append(prog[:i] + [["stmt", s] for s in repl] + prog[i + 1:])
            if it[1][0] == "decl":
                sc.vars[it[1][2]] = it[1][1]
    return out


def well_formed(prog):
    """every name is declared before use and the typechecker types fit (so a variant stays a legal program)"""
    try:
        render_program(prog)
        return _wf_items(prog)
    except Exception:
        return False


def _wf_expr(e, sc):
    return tc_type(e, sc) is not None and all(_wf_expr(x, sc) for x in sub_exprs(e)) and _wf_call(e, sc)


def _wf_call(e, sc):
    if e[0] != "call":
        return True
    sig = sc.funcs.get(e[1])
    if not sig or len(sig[0]) != len(e[2]):
        return False
    for (pn, pt, pr), a in zip(sig[0], e[2]):
        if pr:
            if a[0] != "ref":
                return False
            vt = sc.vars.get(a[1])
            if len(a) > 2 and a[2]:
                if vt != "L" + pt or tc_type(a[2][0], sc) not in ("Z", "B"):
                    return False
            elif vt != pt:
                return False
        else:
            if a[0] != "val" or tc_type(a[1], sc) != pt or not _wf_expr(a[1], sc):
                return False
    return True


def _wf_block(body, sc, loop, fret):
    sc = sc.child()
    for s in body:
        if not _wf_stmt(s, sc, loop, fret):
            return False
    return True


def _num(t):
    return t in NUMERIC


def _wf_stmt(s, sc, loop, fret):
    k = s[0]
    if k == "decl":
        t = tc_type(s[3], sc)
        ok = _wf_expr(s[3], sc) and (t == s[1] or (_num(t) and _num(s[1])))
        sc.vars[s[2]] = s[1]
        return ok
    if k == "assign":
        t = tc_type(s[2], sc)
        if not _wf_expr(s[2], sc):
            return False
        vt = sc.vars.get(s[1][1])
        if vt is None:
            return False
        if s[1][0] == "lidx":
            if not _wf_expr(s[1][2], sc) or tc_type(s[1][2], sc) not in ("Z", "B"):
                return False
            vt = elem(vt) if is_list(vt) else ("C" if vt == "T" else None)
        return vt is not None and (t == vt or (_num(t) and _num(vt)))
    if k == "if":
        return _wf_expr(s[1], sc) and tc_type(s[1], sc) == "W" and bool(s[2]) and _wf_block(s[2], sc, loop, fret) and _wf_block(s[3], sc, loop, fret)
    if k == "while":
        return _wf_expr(s[1], sc) and tc_type(s[1], sc) == "W" and bool(s[2]) and _wf_block(s[2], sc, True, fret)
    if k == "dowhile":
        return _wf_expr(s[2], sc) and tc_type(s[2], sc) == "W" and bool(s[1]) and _wf_block(s[1], sc, True, fret)
    if k == "repeat":
        return _wf_expr(s[1], sc) and tc_type(s[1], sc) in ("Z", "B") and bool(s[2]) and _wf_block(s[2], sc, True, fret)
    if k == "for":
        if not (_wf_expr(s[3], sc) and _num(tc_type(s[3], sc)) and _wf_expr(s[4], sc) and _num(tc_type(s[4], sc))):
            return False
        if s[5] is not None and not (_wf_expr(s[5], sc) and _num(tc_type(s[5], sc))):
            return False
        inner = sc.child()
        inner.vars[s[2]] = s[1]
        return bool(s[6]) and _wf_block(s[6], inner, True, fret)
    if k == "foreach":
        t = tc_type(s[4], sc)
        if not _wf_expr(s[4], sc) or not (t == "T" and s[1] == "C" or (t and is_list(t) and elem(t) == s[1])):
            return False
        inner = sc.child()
        inner.vars[s[2]] = s[1]
        if s[3]:
            inner.vars[s[3]] = "Z"
        return bool(s[5]) and _wf_block(s[5], inner, True, fret)
    if k in ("break", "continue"):
        return loop
    if k == "return":
        if fret is False:
            return False
        return (s[1] is None and fret is None) or (s[1] is not None and _wf_expr(s[1], sc) and tc_type(s[1], sc) == fret)
    if k == "block":
        return bool(s[1]) and _wf_block(s[1], sc, loop, fret)
    if k == "expr":
        return _wf_expr(s[1], sc) or (s[1][0] == "call" and s[1][1] in sc.funcs and _wf_call(s[1], sc))
    if k == "print":
        return _wf_expr(s[1], sc) and tc_type(s[1], sc) in ddpgen.PRINT
    return False


def _wf_items(prog):
    sc = Scope()
    for it in prog:
        if it[0] == "func":
            sc.funcs[it[1]] = ([tuple(q) for q in it[2]], it[3])
            inner = sc.child()
            inner.funcs = sc.funcs
            for pn, pt, pr in it[2]:
                inner.vars[pn] = pt
            if not it[4] or not _wf_block(it[4], inner, False, it[3]):
                return False
            if it[3] is not None and (it[4][-1][0] != "return"):
                return False
        else:
            if not _wf_stmt(it[1], sc, False, False):
                return False
    return True


def prog_size(prog):
    return len(json.dumps(prog))


def shrink(prog, bad, budget=120, width=16):
    """greedy: smallest well-formed variant for which bad() still holds; bad() costs a compile, so the
    `width` smallest candidates of a round are judged in parallel"""
    cur = prog
    spent = 0
    progress = True
    while progress and spent < budget:
        progress = False
        vs = [v for v in prog_variants(cur) if well_formed(v) and prog_size(v) < prog_size(cur)]
        vs.sort(key=prog_size)
        seen = set()
        uniq = []
        for v in vs:
            k = json.dumps(v)
            if k not in seen:
                seen.add(k)
                uniq.append(v)
        pos = 0
        while pos < len(uniq) and spent < budget:
            batch = uniq[pos:pos + width]
            pos += width
            spent += len(batch)
            verdicts = vlib.pmap(bad, batch)
            hit = [v for v, ok in zip(batch, verdicts) if ok]
            if hit:
                cur = hit[0]
                progress = True
                break
    return cur


# ------------------------------------------------------------------------------------------------
# canonical keys
# ------------------------------------------------------------------------------------------------
def ops_of(x, acc):
    if isinstance(x, list):
        if x and x[0] in ("un", "bin", "ter") and isinstance(x[1], str):
            acc.add(x[1].upper())
        if x and x[0] == "cast" and isinstance(x[-1], str):
            acc.add("CAST")
        if x and isinstance(x[0], str) and x[0] in ("if", "while", "dowhile", "repeat", "for", "foreach", "break", "continue", "return", "call", "assign", "func"):
            acc.add(x[0])
        for y in x:
            ops_of(y, acc)
    return acc


def single_op_key(prog):
    """`op=DIV lhs=Byte rhs=Kommazahl` when the program is one print of one operator over literals"""
    if len(prog) != 1 or prog[0][0] != "stmt" or prog[0][1][0] != "print":
        return None
    e = prog[0][1][1]
    sc = Scope()

    def leaf(x):
        return x[0] in ("int", "flt", "bool", "chr", "txt", "empty") or (x[0] == "cast" and x[1][0] == "int") or \
            (x[0] == "list" and all(leaf(y) for y in x[1])) or (x[0] == "un" and x[1] == "Neg" and x[2][0] in ("int", "flt"))
    if e[0] == "bin" and leaf(e[2]) and leaf(e[3]):
        return "op=%s lhs=%s rhs=%s" % (e[1].upper(), tname(tc_type(e[2], sc)), tname(tc_type(e[3], sc)))
    if e[0] == "un" and leaf(e[2]):
        return "op=%s operand=%s" % (e[1].upper(), tname(tc_type(e[2], sc)))
    if e[0] == "ter" and all(leaf(x) for x in e[2:5]):
        return "op=%s operands=%s" % (e[1].upper(), ",".join(tname(tc_type(x, sc)) for x in e[2:5]))
    if e[0] == "cast" and leaf(e[1]):
        return "op=CAST from=%s to=%s" % (tname(tc_type(e[1], sc)), tname(e[2]))
    return None


def prog_key(prog, opt):
    k = single_op_key(prog)
    if k:
        return k
    return "program features=%s" % ",".join(sorted(ops_of(prog, set())))


# ------------------------------------------------------------------------------------------------
# exhaustive operator cells
# ------------------------------------------------------------------------------------------------
def vals(t, small=False):
    if is_list(t):
        et = elem(t)
        bs = BOUNDARY[et]
        ls = [[], [bs[0]], [bs[1], bs[0], bs[-1]], [bs[0], bs[1], bs[2 % len(bs)], bs[3 % len(bs)]]]
        if et == "K":
            ls += [[0.0, -0.0], [1.0, 2.0], [1.0, 3.0]]
        if et == "Z":
            ls += [[1], [3], [8, 2], [8, 256]]
        return [list_lit(et, l) for l in ls]
    bs = BOUNDARY[t]
    if small:
        bs = {"Z": [0, 1, -1, 255, INT64_MAX, INT64_MIN], "B": [0, 1, 128, 255], "K": [0.0, -0.0, 0.5, -2.5, 1e300],
              "W": [True, False], "C": bs[:4], "T": bs[:5]}[t]
    return [lit(t, v) for v in bs]


DELIM = "\u00b6\n".encode()


def print_core(e, sc):
    """statements that print the value of e (any type)"""
    t = tc_type(e, sc)
    if t in ddpgen.PRINT:
        return [["print", e]]
    et = elem(t)
    return [["print", ["un", "Len", e]], ["print", Ch(58)],
            ["foreach", et, "x900", None, e, [["print", V("x900")], ["print", Ch(44)]]]]


def print_stmts(e, sc):
    """... followed by the delimiter that separates the cases of a cell program"""
    return print_core(e, sc) + [["print", Ch(0xB6)], ["print", Ch(10)]]


def cells(quick):
    """yield (cell key, [expr..]) for every operator and admissible operand-type combination"""
    sc = Scope()
    T = SCALARS + LISTS
    out = []
    for op in ("Abs", "Len", "Neg", "Not", "LogicNot"):
        for t in T:
            es = [["un", op, v] for v in vals(t)]
            if tc_type(es[0], sc):
                out.append(("op=%s operand=%s" % (op.upper(), tname(t)), es))
    idxv = [I(v) for v in (-1, 0, 1, 2, 3, 4, 9, INT64_MAX, INT64_MIN)]
    idxb = [By(v) for v in (0, 1, 2, 3, 4, 255)]
    for op in ddpgen.BIN_FMT:
        for a in T:
            for b in T:
                pa, pb = vals(a)[0], vals(b)[0]
                if not tc_type(["bin", op, pa, pb], sc):
                    continue
                va, vb = vals(a), vals(b)
                if op in ("Index", "SliceTo", "SliceFrom"):
                    vb = idxv if b == "Z" else idxb
                if op in ("Shl", "Shr"):
                    vb = [lit(b, v) for v in ((0, 1, 7, 8, 31, 63, 64, -1) if b == "Z" else (0, 1, 7, 8, 200))]
                if len(va) * len(vb) > 120 and quick:
                    va, vb = va[::2], vb
                out.append(("op=%s lhs=%s rhs=%s" % (op.upper(), tname(a), tname(b)), [["bin", op, x, y] for x in va for y in vb]))
    for a in NUMERIC:
        for b in NUMERIC:
            for c in NUMERIC:
                va, vb, vc = vals(a, True), vals(b, True), vals(c, True)
                out.append(("op=BETWEEN operands=%s,%s,%s" % (tname(a), tname(b), tname(c)),
                            [["ter", "Between", x, y, z] for x in va for y in vb for z in vc]))
    for a in ["T"] + LISTS:
        for b in ("Z", "B"):
            for c in ("Z", "B"):
                ib = [I(v) for v in (-1, 0, 1, 2, 3, 9, INT64_MAX, INT64_MIN)] if b == "Z" else [By(v) for v in (0, 1, 2, 3, 255)]
                ic = [I(v) for v in (-1, 0, 1, 2, 3, 9, INT64_MAX, INT64_MIN)] if c == "Z" else [By(v) for v in (0, 1, 2, 3, 255)]
                out.append(("op=SLICE operands=%s,%s,%s" % (tname(a), tname(b), tname(c)),
                            [["ter", "Slice", x, y, z] for x in vals(a)[:5] for y in ib for z in ic]))
    for t in T:
        vs = vals(t, True)
        out.append(("op=FALLS operands=%s" % tname(t), [["ter", "Falls", x, Bo(c), y] for x in vs[:3] for y in vs[-2:] for c in (True, False)]))
    for a in T:
        for t in T:
            es = [["cast", v, t] for v in vals(a)]
            if a == "K" and t in ("Z", "B"):
                es += [["cast", F(v), t] for v in (2.9, -2.9, -0.9, 255.9, 256.0, 9.223372036854775e18, 9.223372036854776e18, -9.223372036854776e18, 1e19)]
                es += [["cast", ["bin", "Div", F(v), F(0.0)], t] for v in (1.0, -1.0, 0.0)]
            if a == "Z" and t == "C":
                es += [["cast", I(v), t] for v in (65, 228, 8364, 128512, 0x10FFFF, 0x110000, 0xD800, 2 ** 32 + 65)]
            if tc_type(es[0], sc):
                out.append(("op=CAST from=%s to=%s" % (tname(a), tname(t)), es))
    return out


def loop_cells(quick):
    """counting-loop grid: counter type x from/to/step boundaries (every program prints the counter sequence)"""
    out = []
    zs = [(0, 3, None), (0, 3, 1), (3, 0, -1), (0, 10, 3), (10, 0, -4), (5, 5, None), (5, 4, None), (4, 5, -1), (0, 0, -1),
          (-3, 3, 2), (INT64_MAX - 2, INT64_MAX - 1, 1), (INT64_MIN + 2, INT64_MIN + 1, -1), (1, 7, 7), (1, 6, 7)]
    for a, b, s in zs:
        out.append(("stmt=FOR counter=Zahl", ["for", "Z", "x1", I(a), I(b), None if s is None else I(s), [["print", V("x1")], ["print", Ch(32)]]]))
    bs = [(0, 3, None, "ZZ"), (0, 3, 1, "BBB"), (250, 255, 1, "ZZZ"), (250, 260, 3, "ZZZ"), (0, 255, 51, "ZZZ"), (5, 0, -1, "ZZZ"), (5, 1, -2, "BBZ"),
          (3, 3, None, "BB"), (4, 3, None, "BB"), (0, 6, 2, "BBB"), (300, 302, 1, "ZZZ"), (254, 257, 1, "BZB"), (0, 3, 1, "ZBZ"), (2, 0, 255, "BBB")]
    for a, b, s, ty in bs:
        mk = lambda v, c: (I(v) if c == "Z" else By(v))
        out.append(("stmt=FOR counter=Byte", ["for", "B", "x1", mk(a, ty[0]), mk(b, ty[1]), None if s is None else mk(s, ty[2]), [["print", V("x1")], ["print", Ch(32)]]]))
    ks = [(0.0, 3.0, None), (0.0, 2.0, 0.5), (2.0, 0.0, -0.5), (0.0, 1.0, 0.1), (1.0, 0.0, -0.1), (0.0, 0.3, 0.1), (5.0, 5.0, 1.0), (5.0, 4.0, 1.0), (0.0, 10.0, 0.75), (-0.0, 0.0, 1.0)]
    for a, b, s in ks:
        out.append(("stmt=FOR counter=Kommazahl", ["for", "K", "x1", F(a), F(b), None if s is None else F(s), [["print", V("x1")], ["print", Ch(32)]]]))
    # the counter is re-assigned from the hidden index; assignments in the body do not change the trip count
    out.append(("stmt=FOR counter=Zahl body-assigns", ["for", "Z", "x1", I(0), I(4), None, [["print", V("x1")], ["assign", ["lvar", "x1"], I(10)], ["print", V("x1")], ["print", Ch(32)]]]))
    out.append(("stmt=FOR counter=Zahl break", ["for", "Z", "x1", I(0), I(9), I(2), [["if", ["bin", "Gt", V("x1"), I(4)], [["break"]], []], ["print", V("x1")]]]))
    out.append(("stmt=FOR counter=Zahl continue", ["for", "Z", "x1", I(0), I(9), I(2), [["if", ["bin", "Eq", V("x1"), I(4)], [["continue"]], []], ["print", V("x1")]]]))
    for n in (0, 1, 3):
        out.append(("stmt=REPEAT", ["repeat", I(n), [["print", I(7)]]]))
    for e in (Tx(""), Tx("aä€😀"), list_lit("Z", [5, 6, 7]), ["empty", "T"], list_lit("T", ["a", "", "bc"])):
        et = "C" if e[0] == "txt" else elem(tc_type(e, Scope()))
        out.append(("stmt=FOREACH", ["foreach", et, "x1", "x2", e, [["print", V("x2")], ["print", V("x1")], ["print", Ch(32)]]]))
    return out


# ------------------------------------------------------------------------------------------------
def main():
    ck = Check(PID, "proof")
    b = Build()
    ck.cov["trusted_base"] = vlib.TRUSTED_COMMON + [
        "RefSem.v is the hand-written specification of DDP's evaluation rules (choices listed in its header table)",
        "libm pow/log10 and printf(\"%.16g\") enter RefSem as Section variables and are supplied by the OCaml driver (same libc as the runtime)",
        "Flocq 4.1 binary64 (IEEE-754 operations); NaN sign/payload not observed (\"-nan\" normalised to \"nan\")",
        "renderer checks/ddpgen.py (German articles, full parenthesisation): every generated program must be accepted by the real frontend, otherwise the run reports a harness error",
        "LLVM 14 passes, gcc link, glibc: only differentially tested (three optimisation levels)",
    ]
    ok, lg = b.ensure_native()
    if not ok:
        ck.violation("native-build", "kddp/runtime do not build from /repo: " + lg[-400:], dict(log=lg[-3000:]), no_input=True)
        ck.finish()
    if not os.environ.get("C01_NOCOQ"):
        ck.coq()
    if not os.path.exists(vlib.model_bin("c01")):
        ck.broken_obligation("extracted reference evaluator missing (make -C /verif setup)", "")
        ck.finish()
    impl = Impl(b, vlib.scratch())
    stats = dict(programs=0, compared=0, not_compilable=0, undefined_by_guard=0, out_of_fuel=0, laufzeitfehler=0, harness_errors=0)
    na_cells = []
    reported = set()
    opts_all = (0, 1, 2)

    def report(prog, opt, model, res, origin, do_shrink=True, extra=None):
        """shrink, derive the canonical key, report once per key"""
        if len(reported) >= (12 if ck.quick else 40):
            return

        def bad(p):
            m = model_eval([p])[0]
            if m is None or m[0] not in ("N", "L"):
                return False
            r = impl.run(p, opt)
            return agrees(m, r) is False
        small = shrink(prog, bad, budget=64 if ck.quick else 160) if do_shrink else prog
        m = model_eval([small])[0]
        r = impl.run(small, opt)
        key = prog_key(small, opt)
        if key in reported:
            return
        reported.add(key)
        src = render_program(small)
        os.makedirs(os.path.join(vlib.VERIF, "corpus", PID), exist_ok=True)
        cpath = os.path.join(vlib.VERIF, "corpus", PID, hashlib.sha1(src.encode()).hexdigest()[:12] + ".json")
        if not os.path.exists(cpath):
            with open(cpath, "w") as fh:
                json.dump(dict(key=key, opt=opt, program=small), fh, ensure_ascii=False)
        ck.violation(key, describe(m, r), dict(source=src, opt=opt, program=small, origin=origin, extra=extra, expected=dict(kind=m[0], stdout=m[1].decode("utf-8", "replace")),
                                              observed=[str(x)[:400] for x in r], how="kddp kompiliere prog.ddp -o prog.o -O %d; link with libddpstdlib/libddpruntime; run" % opt))

    def check_programs(progs, opts, origin, keys=None):
        """compare a list of programs at the given opt levels; returns per-program status list"""
        models = model_eval(progs)
        jobs = []
        for i, (p, m) in enumerate(zip(progs, models)):
            stats["programs"] += 1
            if m is None or m[0].startswith("X"):
                stats["harness_errors"] += 1
                ck.violation("harness model-driver", "model driver rejected a generated program: %r" % (m,), dict(program=p), no_input=True)
                continue
            if m[0].startswith("U"):
                stats["undefined_by_guard"] += 1
                continue
            if m[0] == "F":
                stats["out_of_fuel"] += 1
                continue
            if m[0] == "L":
                stats["laufzeitfehler"] += 1
            for o in opts:
                jobs.append((i, o))
        results = vlib.pmap(lambda j: impl.run(progs[j[0]], j[1]), jobs)
        status = {}
        for (i, o), r in zip(jobs, results):
            ck.count()
            if r[0] == "HARNESS":
                stats["harness_errors"] += 1
                ck.violation("harness renderer", r[1], dict(program=progs[i]), no_input=True)
                continue
            if r[0] == "CF":
                stats["not_compilable"] += 1
                status[(i, o)] = "CF"
                if "Fehler" in r[2] and ("Syntax" in r[2] or "Typ Fehler" in r[2] or "(1" in r[2][:60]) and "llvm" not in r[2] and "Unerwarteter" not in r[2]:
                    # the frontend rejected a program the generator believes well-formed: harness error
                    stats["harness_errors"] += 1
                    ck.violation("harness frontend-reject", "generated program rejected by the frontend: " + r[2][:300], dict(source=render_program(progs[i]), out=r[2]), no_input=True)
                continue
            stats["compared"] += 1
            a = agrees(models[i], r)
            status[(i, o)] = a
            if a:
                ck.nontrivial(("p", serialize(progs[i])))
            if a is False:
                report(progs[i], o, models[i], r, origin if keys is None else keys[i])
        return status, models

    # ---- 0. corpus -----------------------------------------------------------------------------
    cdir = os.path.join(vlib.VERIF, "corpus", PID)
    corpus = []
    if os.path.isdir(cdir):
        for f in sorted(os.listdir(cdir)):
            try:
                corpus.append(json.load(open(os.path.join(cdir, f))))
            except Exception:
                pass
    if corpus:
        for o in opts_all:
            sel = [c["program"] for c in corpus if c.get("opt", 0) == o]
            if sel:
                check_programs(sel, (o,), "corpus")
    log("[c01] corpus %d programs, %.0fs" % (len(corpus), time.time() - ck.t0))

    legs = os.environ.get("C01_LEGS", "cells,loops,random").split(",")
    # ---- 1. exhaustive operator cells ----------------------------------------------------------
    sc0 = Scope()
    allc = cells(ck.quick)
    n_exprs = 0
    cell_progs, cell_keys, cell_cases = [], [], []
    if "cells" in legs:
        # 1a. classify every single case with the model
        flat = []
        for key, es in allc:
            for e in es:
                if ddpgen.literal_representable_all(e):
                    flat.append((key, e))
        single = [[["stmt", s] for s in print_core(e, sc0)] for _, e in flat]
        sm = model_eval(single)
        per_cell = {}
        solo = []
        for (key, e), m, p in zip(flat, sm, single):
            n_exprs += 1
            if m is None or m[0].startswith("X"):
                ck.violation("harness model-driver", "model driver rejected %r: %r" % (e, m), dict(expr=e), no_input=True)
            elif m[0] == "N":
                per_cell.setdefault(key, []).append(e)
            elif m[0] == "L":
                solo.append((key, p))
            else:
                stats["undefined_by_guard"] += 1
        # 1b. one program per cell with all normally-ending cases; solo programs for Laufzeitfehler cases
        for key, es in per_cell.items():
            body = []
            for e in es:
                body += print_stmts(e, sc0)
            cell_progs.append([["stmt", s] for s in body])
            cell_keys.append(key)
            cell_cases.append(es)
        opts_cells = (0, 2) if ck.quick else opts_all
        check_cells(ck, impl, cell_progs, cell_keys, cell_cases, opts_cells, stats, na_cells, report, sc0)
        if solo:
            lim = solo if not ck.quick else solo[:: max(1, len(solo) // 150)]
            check_programs([p for _, p in lim], (0,) if ck.quick else (0, 2), "exhaustive", keys=[k for k, _ in lim])
        log("[c01] exhaustive: %d cells, %d expressions, %.0fs" % (len(allc), n_exprs, time.time() - ck.t0))

    # ---- 2. statement grid ---------------------------------------------------------------------
    lc = loop_cells(ck.quick) if "loops" in legs else []
    check_programs([[["stmt", s]] for _, s in lc], opts_all, "loop-grid", keys=[k for k, _ in lc])
    log("[c01] loop grid: %d programs, %.0fs" % (len(lc), time.time() - ck.t0))

    # ---- 3. random programs --------------------------------------------------------------------
    n_rand = (300 if ck.quick else 5000) if "random" in legs else 0
    progs = []
    gstats = {}
    for i in range(n_rand):
        g = ddpgen.Gen(__import__("random").Random(ck.rng.getrandbits(64)), floats=(i % 4 != 0), lists=(i % 5 != 0))
        progs.append(g.program())
        for k, v in g.stats.items():
            gstats[k] = gstats.get(k, 0) + v
    # each program at one level in rotation; a third of them at all three levels
    for o in opts_all:
        sel = [p for i, p in enumerate(progs) if i % 3 == o or i % 3 == 0]
        check_programs(sel, (o,), "random")
    log("[c01] random: %d programs, %.0fs" % (n_rand, time.time() - ck.t0))

    ck.cov.update(dict(
        exhaustive="operator cells: every unary/binary/ternary operator and cast x every admissible operand-type combination (typechecker-admissible) x boundary value set per type; counting-loop grid",
        operator_cells=len(allc), operator_expressions=n_exprs, cells_not_compilable=sorted(set(na_cells)),
        loop_grid=len(lc), random_programs=n_rand, generator_distribution=gstats, **stats,
        compiles=impl.compiles,
        rule="one evaluation = one program compiled, linked and run at one optimisation level and compared with RefSem on stdout bytes + exit status + Laufzeitfehler class; "
             "non-trivial = the executable agreed with a RefSem outcome that is a normal end or a Laufzeitfehler (programs undefined by a guard, out of fuel or not compilable are excluded and counted); distinct by serialized AST",
        guards_excluded=["mod_zero", "mod_overflow", "shift_count", "float_to_int", "float_to_byte", "repeat_negative", "bad_codepoint", "dangling_ref", "out_of_fragment"],
    ))
    if cell_progs:
        ck.sample(dict(cell=cell_keys[0], source=render_program(cell_progs[0])[:600]))
    if progs:
        ck.sample(dict(random_program=render_program(progs[0])[:1200]))
    if stats["compared"] == 0:
        ck.violation("harness nothing-compared", "no program could be compared", {}, no_input=True)
    ck.finish()


def check_cells(ck, impl, cell_progs, cell_keys, cell_cases, opts, stats, na_cells, report, sc0):
    models = model_eval(cell_progs)
    jobs = [(i, o) for i in range(len(cell_progs)) for o in opts]
    results = vlib.pmap(lambda j: impl.run(cell_progs[j[0]], j[1]), jobs)
    retry = []
    for (i, o), r in zip(jobs, results):
        stats["programs"] += 1
        ck.count(len(cell_cases[i]))
        if r[0] == "CF":
            stats["not_compilable"] += 1
            na_cells.append(cell_keys[i])
            continue
        if r[0] == "HARNESS":
            ck.violation("harness renderer", r[1], dict(cell=cell_keys[i]), no_input=True)
            continue
        stats["compared"] += 1
        a = agrees(models[i], r)
        if a:
            ck.nontrivial(("cell", cell_keys[i], o))
            for e in cell_cases[i]:
                ck.nontrivial(("e", json.dumps(e)))
        elif a is False:
            retry.append((i, o, r))
    # a failing cell: locate the failing cases through the per-case delimiter, confirm the first ones as
    # single-expression programs (these are the minimal replays)
    for i, o, r in retry:
        want = norm_out(models[i][1]).split(DELIM)
        got = norm_out(r[2]).split(DELIM)
        badidx = [j for j in range(len(cell_cases[i])) if j >= len(got) or j >= len(want) or got[j] != want[j]]
        cand = badidx[:3]
        singles = [[["stmt", s] for s in print_core(cell_cases[i][j], sc0)] for j in cand]
        ms = model_eval(singles) if singles else []
        rs = vlib.pmap(lambda p: impl.run(p, o), singles)
        n_bad = 0
        for p, m, rr in zip(singles, ms, rs):
            if agrees(m, rr) is False:
                n_bad += 1
                if n_bad <= 1:
                    report(p, o, m, rr, cell_keys[i], do_shrink=False, extra=dict(failing_cases_in_cell=len(badidx), cases_in_cell=len(cell_cases[i])))
        if n_bad == 0:
            # only the batch fails: report the (shrunk) batch itself
            report(cell_progs[i], o, models[i], r, cell_keys[i])
    return models


if __name__ == "__main__":
    main()
