#!/usr/bin/env python3
"""C02 — every program the frontend accepts is compiled completely.

Proof: coq/Props/C02.v over coq/Lower/{TcTable,LowerTable,Cells}.v — the checker's admissibility/result-type
tables and the compiler's lowering switches as finite tables over (operator x operand type classes x value
context); `C02_lowering_total` holds for every cell and `C02_admitted_cells_compile` for every admitted
(cell, context) — on the pinned tree both were refuted in the cells listed as `fixed: property=C02` in
KNOWN_FINDINGS.jsonl; the tables follow the repaired code.

Tie (exhaustive): every operator x every tuple of the 19 operand type classes is written as ONE DDP statement;
the REAL frontend (harness cellx = parser.Parse of /repo) decides admissibility and reports the type the
checker assigned (VarDecl.InitType); both must agree with tc_* of the model.  Every admitted cell is then put
into every value context and compiled by the REAL kddp (+ LLVM re-parse + gcc link): cells the model predicts
fine are batched and bisected on failure, cells predicted bad are compiled alone and must fail in the
predicted way.  A cell the frontend accepts and kddp does not compile is a VIOLATION of C02 (replay = the
one-statement program); model/implementation disagreement without such a program is a broken correspondence."""
import json
import os
import re
import subprocess
import sys

sys.path.insert(0, os.path.dirname(os.path.abspath(__file__)))
import vlib
from vlib import Check, Build, log

PID = "C02"

# ------------------------------------------------------------------------------------------------
# the cell space
# ------------------------------------------------------------------------------------------------
# key, DDP type name, article of a declaration, initial value, accusative article + name for `gibt ... zurück`
CLASSES = [
    ("Z", "Zahl", "Die", "3", "eine Zahl"),
    ("K", "Kommazahl", "Die", "2,5", "eine Kommazahl"),
    ("B", "Byte", "Der", "7 als Byte", "einen Byte"),
    ("W", "Wahrheitswert", "Der", "wahr", "einen Wahrheitswert"),
    ("C", "Buchstabe", "Der", "'c'", "einen Buchstaben"),
    ("T", "Text", "Der", '"abc"', "einen Text"),
    ("LZ", "Zahlen Liste", "Die", "eine Liste, die aus 1, 2, 3 besteht", "eine Zahlen Liste"),
    ("LK", "Kommazahlen Liste", "Die", "eine Liste, die aus 1,5, 2,5 besteht", "eine Kommazahlen Liste"),
    ("LB", "Byte Liste", "Die", "eine Liste, die aus 1 als Byte, 2 als Byte besteht", "eine Byte Liste"),
    ("LW", "Wahrheitswert Liste", "Die", "eine Liste, die aus wahr, falsch besteht", "eine Wahrheitswert Liste"),
    ("LC", "Buchstaben Liste", "Die", "eine Liste, die aus 'a', 'b' besteht", "eine Buchstaben Liste"),
    ("LT", "Text Liste", "Die", 'eine Liste, die aus "a", "b" besteht', "eine Text Liste"),
    ("S", "Punkt", "Der", "Nullpunkt", "einen Punkt"),
    ("V", "Variable", "Die", "5", "eine Variable"),
    ("A", "Ganzzahl", "Die", "4", "eine Ganzzahl"),
    ("D", "Nummer", "Die", "9 als Nummer", "eine Nummer"),
    ("LS", "Punkt Liste", "Die", "eine leere Punkt Liste", "eine Punkt Liste"),
    ("LV", "Variablen Liste", "Die", "eine leere Variablen Liste", "eine Variablen Liste"),
    ("LD", "Nummer Liste", "Die", "eine leere Nummer Liste", "eine Nummer Liste"),
]
KEYS = [c[0] for c in CLASSES]
CLS = {c[0]: c for c in CLASSES}
# result types that are not operand classes (only a list whose element type is the alias)
EXTRA_TYPES = {"LA": ("LA", "Ganzzahl Liste", "Die", None, "eine Ganzzahl Liste")}
TYPEINFO = dict(CLS, **EXTRA_TYPES)

SHOW2KEY = {"P0": "Z", "P1": "K", "P2": "B", "P3": "W", "P4": "C", "P5": "T", "S(Punkt)": "S", "V": "V",
            "A(Ganzzahl:P0)": "A", "D(Nummer:P0)": "D"}
for _k, _v in list(SHOW2KEY.items()):
    SHOW2KEY["L(%s)" % _k] = "L" + _v


def norm_key(k):
    """Equal() of ddptypes: the alias is transparent (also as list element)"""
    return {"A": "Z", "LA": "LZ"}.get(k, k)


STRUCT_DECL = '''Wir nennen die Kombination aus
	der Zahl fz mit Standardwert 0,
	dem Text ft mit Standardwert "",
	der Zahlen Liste fl mit Standardwert eine leere Zahlen Liste,
einen Punkt, und erstellen sie so:
	"Nullpunkt"
'''
ALIAS_DECL = "Wir nennen eine Zahl auch eine Ganzzahl.\n"
DEF_DECL = "Wir definieren eine Nummer als eine Zahl.\n"
TYPES_PRELUDE = STRUCT_DECL + ALIAS_DECL + DEF_DECL
TARGET_KEYS = list(KEYS) + ["LA"]


def var_decl(prefix, k):
    if k == "LA":
        return "Die Ganzzahl Liste %sLA ist eine leere Ganzzahl Liste.\n" % prefix
    _, name, art, init, _ = CLS[k]
    return "%s %s %s%s ist %s.\n" % (art, name, prefix, k, init)


def fun_decl(k):
    _, name, _, _, _ = TYPEINFO[k]
    return ('Die Funktion nimm_%s mit dem Parameter a vom Typ %s, gibt nichts zurück, macht:\n\tSpeichere 1 in tZ.\n'
            'Und kann so benutzt werden:\n\t"nimm_%s <a>"\n' % (k, name, k))


def gib_decl(k):
    return 'Die Funktion gib_%s gibt %s zurück, macht:\n\tGib v%s zurück.\nUnd kann so benutzt werden:\n\t"gib_%s"\n' % (k, CLS[k][4], k, k)


# the frontend leg uses one fixed prelude (diagnostics are attributed by line)
PRELUDE = TYPES_PRELUDE + "".join(var_decl("v", k) for k in KEYS) + "".join(var_decl("t", k) for k in TARGET_KEYS) + \
    "".join(fun_decl(k) for k in TARGET_KEYS)
PRELUDE_LINES = PRELUDE.count("\n")
# second operand flavour (thorough tier): operands are results of calls, i.e. temporaries instead of variables
PRELUDE_TEMP = PRELUDE + "".join(gib_decl(k) for k in KEYS)


def minimal_prelude(body):
    """the declarations the statements of `body` refer to (kddp's cost grows with the prelude; the statements of a cell
    are independent of declarations they do not name)"""
    ids = set(re.findall(r"\b(?:v|t|nimm_|gib_)[A-Z]{1,2}\b", body))
    gib = [k for k in KEYS if "gib_" + k in ids]
    need_v = [k for k in KEYS if "v" + k in ids or k in gib]
    nimm = [k for k in TARGET_KEYS if "nimm_" + k in ids]
    need_t = [k for k in TARGET_KEYS if "t" + k in ids or (k == "Z" and nimm)]
    decls = "".join(var_decl("v", k) for k in need_v) + "".join(var_decl("t", k) for k in need_t) + \
        "".join(fun_decl(k) for k in nimm) + "".join(gib_decl(k) for k in gib)
    text = decls + body
    head = (STRUCT_DECL if "Punkt" in text else "") + (ALIAS_DECL if "Ganzzahl" in text else "") + (DEF_DECL if "Nummer" in text else "")
    return head + decls


UNOPS = {
    "UN_ABS": "der Betrag von (%s)",
    "UN_LEN": "die Länge von (%s)",
    "UN_NEGATE": "-(%s)",
    "UN_NOT": "nicht (%s)",
    "UN_LOGIC_NOT": "logisch nicht (%s)",
}
BINOPS = {
    "BIN_AND": "(%s) und (%s)",
    "BIN_OR": "(%s) oder (%s)",
    "BIN_XOR": "entweder (%s), oder (%s)",
    "BIN_CONCAT": "(%s) verkettet mit (%s)",
    "BIN_PLUS": "(%s) plus (%s)",
    "BIN_MINUS": "(%s) minus (%s)",
    "BIN_MULT": "(%s) mal (%s)",
    "BIN_DIV": "(%s) durch (%s)",
    "BIN_INDEX": "(%s) an der Stelle (%s)",
    "BIN_POW": "(%s) hoch (%s)",
    "BIN_LOG": "der Logarithmus von (%s) zur Basis (%s)",
    "BIN_LOGIC_AND": "(%s) logisch und (%s)",
    "BIN_LOGIC_OR": "(%s) logisch oder (%s)",
    "BIN_LOGIC_XOR": "(%s) logisch kontra (%s)",
    "BIN_MOD": "(%s) modulo (%s)",
    "BIN_LEFT_SHIFT": "(%s) um (%s) Bit nach Links verschoben",
    "BIN_RIGHT_SHIFT": "(%s) um (%s) Bit nach Rechts verschoben",
    "BIN_EQUAL": "(%s) gleich (%s) ist",
    "BIN_UNEQUAL": "(%s) ungleich (%s) ist",
    "BIN_LESS": "(%s) kleiner als (%s) ist",
    "BIN_GREATER": "(%s) größer als (%s) ist",
    "BIN_LESS_EQ": "(%s) kleiner als, oder (%s) ist",
    "BIN_GREATER_EQ": "(%s) größer als, oder (%s) ist",
    "BIN_FIELD_ACCESS": "(%s) von (%s)",
    "BIN_SLICE_TO": "(%s) bis zum (%s). Element",
    "BIN_SLICE_FROM": "(%s) ab dem (%s). Element",
}
TEROPS = {
    "TER_SLICE": "(%s) im Bereich von (%s) bis (%s)",
    "TER_BETWEEN": "(%s) zwischen (%s) und (%s) ist",
    "TER_FALLS": "(%s), falls (%s), ansonsten (%s)",
}
FIELDS = ["fz", "ft", "fl"]


def all_cells(ops, v="v"):
    """[(kind, op, operand keys, expression text)] — the whole operator x type-class space; operands are the
    variables v<class> (or the calls gib_<class> for the temporary flavour)"""
    un, bi, te = ops
    out = []
    for op in un:
        for a in KEYS:
            out.append(("U", op, (a,), UNOPS[op] % (v + a)))
    for op in bi:
        for a in KEYS:
            for b in KEYS:
                out.append(("B", op, (a, b), BINOPS[op] % (v + a, v + b)))
    for f in FIELDS:
        for b in KEYS:
            out.append(("F", "BIN_FIELD_ACCESS", (f, b), "%s von (%s%s)" % (f, v, b)))
    for op in te:
        for a in KEYS:
            for b in KEYS:
                for c in KEYS:
                    out.append(("T", op, (a, b, c), TEROPS[op] % (v + a, v + b, v + c)))
    for a in KEYS:
        for t in KEYS:
            out.append(("C", "CAST_OP", (a, t), "(%s%s) als %s" % (v, a, CLS[t][1])))
    return out


# literals per operand class (Byte has none: `(7 als Byte)` is a cast); "-1" is a negated literal and only used
# behind the operator
LITERALS = {"Z": ["0", "1", "2", "-1"], "K": ["0,0", "2,0"], "W": ["wahr", "falsch"], "C": ["'a'"], "T": ['"a"']}


def literal_variants(cell, full):
    """[(operand description per position, expression text)]: the cell's expression with operand positions replaced
    by bare (unparenthesised) literals — every single position x every literal; with `full` every combination"""
    kind, op, tys, text = cell
    spans = [m.span() for m in re.finditer(r"\(v[A-Z]{1,2}\)", text)]
    classes = [text[a + 2:b - 1] for a, b in spans]
    choices = []
    for pos, k in enumerate(classes):
        lits = [l for l in LITERALS.get(k, []) if not (l.startswith("-") and spans[pos][0] < 3)]
        choices.append([None] + lits)
    combos = []
    if full:
        import itertools
        combos = [c for c in itertools.product(*choices) if any(x is not None for x in c)]
    else:
        for pos, ch in enumerate(choices):
            for l in ch[1:]:
                combos.append(tuple(l if q == pos else None for q in range(len(choices))))
    out = []
    for c in combos:
        t, shift = text, 0
        for (a, b), l in zip(spans, c):
            if l is not None:
                t = t[:a + shift] + l + t[b + shift:]
                shift += len(l) - (b - a)
        out.append((tuple("v" if l is None else l for l in c), t))
    return out


def multiblock_forms(k):
    """expressions of class k that are lowered into SEVERAL basic blocks (so that the block an operand starts in is not
    the block it ends in): nested falls, list indexing (bounds check), cast from Variable (type check), Betrag, modulo
    (zero check), und/oder (short circuit)"""
    n = CLS[k][1]
    forms = [("falls", "((v%s), falls (vW), ansonsten (v%s))" % (k, k))]
    if k != "V":
        forms.append(("ausVariable", "((vV) als %s)" % n))
    if "L" + k in CLS:
        forms.append(("element", "((vL%s) an der Stelle (vZ))" % k))
    if k in ("Z", "K"):
        forms.append(("betrag", "(der Betrag von (v%s))" % k))
    if k in ("Z", "B"):
        forms.append(("modulo", "((v%s) modulo (v%s))" % (k, k)))
    if k == "W":
        forms += [("und", "((vW) und (vW))"), ("oder", "((vW) oder (vW))")]
    if k == "T":
        forms.append(("tempfalls", '(((vT) verkettet mit (vT)), falls (vW), ansonsten (vT))'))
    return forms


def multiblock_variants(cell, pairs):
    """[(operand description, text)]: one operand position (for `pairs`: every combination of positions, used for
    falls) replaced by each multi-block form of its class"""
    kind, op, tys, text = cell
    spans = [m.span() for m in re.finditer(r"\(v[A-Z]{1,2}\)", text)]
    classes = [text[a + 2:b - 1] for a, b in spans]
    choices = [[None] + multiblock_forms(k) for k in classes]
    combos = []
    if pairs:
        import itertools
        combos = [c for c in itertools.product(*choices) if any(x is not None for x in c)]
    else:
        for pos, ch in enumerate(choices):
            for f in ch[1:]:
                combos.append(tuple(f if q == pos else None for q in range(len(choices))))
    out = []
    for c in combos:
        t, shift = text, 0
        for (a, b), f in zip(spans, c):
            if f is not None:
                t = t[:a + shift] + f[1] + t[b + shift:]
                shift += len(f[1]) - (b - a)
        out.append((tuple("v" if f is None else f[0] for f in c), t))
    return out


# operator overloads for the compound-assignment leg (only in that leg's prelude: they change what `plus` etc. mean)
def overload_decl(name, a, b, r, op, body):
    return ('Die Funktion %s mit den Parametern p und q vom Typ %s und %s, gibt %s zurück, macht:\n\tGib %s zurück.\n'
            'Und überlädt den "%s" Operator.\n' % (name, a, b, r, body, op))


OVERLOADS = "".join(
    overload_decl("bz_%s" % i, "Buchstabe", "Zahl", "einen Buchstaben", op, "p") for i, op in enumerate(("plus", "minus", "mal", "durch"))
) + overload_decl("pp_plus", "Punkt", "Punkt", "einen Punkt", "plus", "p") + overload_decl("tz_mal", "Text", "Zahl", "einen Text", "mal", "p") + \
    overload_decl("lz_plus", "Zahlen Liste", "Zahl", "eine Zahlen Liste", "plus", "p")


def compound_cells():
    """compound assignments: the target is read as a value through the Assigneable node itself (VisitIdent, VisitIndexing,
    VisitFieldAccess) — x {variable, list element, Text position, field} x operand class, with the overloads above"""
    targets = [("var:%s" % k, "t%s" % k) for k in KEYS]
    for k in KEYS:
        if k.startswith("L") or k == "T":
            for i in ("Z", "B"):
                targets.append(("elem:%s,%s" % (k, i), "t%s an der Stelle (v%s)" % (k, i)))
    targets += [("field:%s" % f, "%s von tS" % f) for f in FIELDS]
    forms = [("ERHOEHE", "Erhöhe %s um (v%s).\n"), ("VERRINGERE", "Verringere %s um (v%s).\n"), ("VERVIELFACHE", "Vervielfache %s um (v%s).\n"),
             ("TEILE", "Teile %s durch (v%s).\n"), ("VERSCHIEBE_L", "Verschiebe %s um (v%s) Bit nach Links.\n"), ("VERSCHIEBE_R", "Verschiebe %s um (v%s) Bit nach Rechts.\n")]
    out = []
    for tk, tt in targets:
        out.append(("compound=NEGIERE target=%s" % tk, "Negiere %s.\n" % tt))
        for fk, ft in forms:
            for o in KEYS:
                out.append(("compound=%s target=%s operand=%s" % (fk, tk, o), ft % (tt, o)))
    return out


def cell_name(c):
    return "op=%s types=%s" % (c[1], ",".join(c[2]))


# ------------------------------------------------------------------------------------------------
# value contexts.  ctx key -> statement(s) around the expression E whose checker type is `ty`
# ------------------------------------------------------------------------------------------------
NUM = ("Z", "K", "B")
CTX_ALL = ["VI", "IN", "IZ", "IK", "IB", "AS", "AZ", "AK", "AB", "AV", "AR", "RT", "RV", "CO", "EL"]


def ctx_target(ctx, ty):
    """declared/expected type key of the context for an expression of checker type ty, or None if the context
    does not apply"""
    n = norm_key(ty)
    if ctx in ("VI", "AV", "RV", "EL"):
        return "V"
    if ctx in ("IN", "AS", "AR", "RT"):
        return ty
    if ctx in ("IZ", "AZ"):
        return "Z" if n in NUM else None
    if ctx in ("IK", "AK"):
        return "K" if n in NUM else None
    if ctx in ("IB", "AB"):
        return "B" if n in NUM else None
    if ctx == "CO":
        return "W" if n == "W" else None
    raise ValueError(ctx)


def ctx_stmt(ctx, ty, expr, uid):
    """(text, number of lines)"""
    t = ctx_target(ctx, ty)
    if ctx[0] == "I" or ctx == "VI":
        _, name, art, _, _ = TYPEINFO[t]
        return "%s %s x%d ist %s.\n" % (art, name, uid, expr)
    if ctx[0] == "A" and ctx != "AR":
        return "Speichere %s in t%s.\n" % (expr, t)
    if ctx == "AR":
        return "nimm_%s (%s).\n" % (t, expr)
    if ctx in ("RT", "RV"):
        acc = TYPEINFO[t][4]
        return ('Die Funktion r%d gibt %s zurück, macht:\n\tGib %s zurück.\nUnd kann so benutzt werden:\n\t"r%d"\n'
                % (uid, acc, expr, uid))
    if ctx == "CO":
        return "Wenn %s, dann:\n\tSpeichere 1 in tZ.\n" % expr
    if ctx == "EL":
        return "Die Variable x%d ist eine Liste, die aus %s besteht.\n" % (uid, expr)
    raise ValueError(ctx)


# ------------------------------------------------------------------------------------------------
# frontend (cellx) and backend (kddp) drivers
# ------------------------------------------------------------------------------------------------
def run_cellx(cx, b, reqs):
    p = subprocess.run([cx], input="".join(json.dumps(r) + "\n" for r in reqs), capture_output=True, text=True,
                       env=dict(os.environ, DDPPATH=b.dir), timeout=600)
    return [json.loads(l) for l in p.stdout.splitlines()]


def frontend_batch(cx, b, items, size=400, jobs=vlib.NCPU, prelude=None):
    """items: [(uid, statement text)] -> {uid: (accepted, init type key or None)}; the statement must start on its own
    line; diagnostics are attributed to statements by line ranges"""
    prelude = PRELUDE if prelude is None else prelude
    plines = prelude.count("\n")
    chunks = [items[i:i + size] for i in range(0, len(items), size)]
    reqs = []
    spans = []
    for ci, ch in enumerate(chunks):
        src = prelude
        line = plines + 1
        sp = []
        for uid, text in ch:
            n = text.count("\n")
            sp.append((uid, line, line + n - 1))
            src += text
            line += n
        reqs.append(dict(id=str(ci), file="/c02/f%d.ddp" % ci, src=src))
        spans.append(sp)
    groups = [reqs[i::jobs] for i in range(jobs)]
    outs = vlib.pmap(lambda g: run_cellx(cx, b, g) if g else [], groups, jobs=jobs)
    resp = {}
    for o in outs:
        for r in o:
            resp[int(r["id"])] = r
    res = {}
    problems = []
    for ci, sp in enumerate(spans):
        r = resp.get(ci)
        if r is None or r.get("panic") or r.get("nil_module"):
            problems.append((ci, r))
            continue
        badlines = sorted(d["line"] for d in (r.get("diags") or []))
        if any(l <= plines for l in badlines):
            problems.append((ci, r))
            continue
        decl_at = {d["line"]: d for d in (r.get("decls") or [])}
        for uid, lo, hi in sp:
            bad = any(lo <= l <= hi for l in badlines)
            d = decl_at.get(lo)
            init = SHOW2KEY.get(d["init"], "?" + d["init"]) if d else None
            res[uid] = (not bad, init)
    return res, problems


def classify(r):
    """verdict class of a Build().compile result"""
    if r["stage"] == "ok":
        return "ok"
    if r["stage"] == "link":
        return "link-fail"
    out = r["out"]
    if "Unerwarteter Fehler" in out:
        return "internal-error"
    if "could not parse llvm ir" in out:
        return "llvm-reject"
    if "Fehlerhafter Quellcode" in out or re.search(r"Fehler \(\d+\) in ", out):
        return "frontend-reject"
    # no diagnostic at all: kddp died (signal in LLVM's pass manager on unverified IR, timeout, ...)
    return "compiler-crash"


def excerpt(out):
    """the informative part of kddp's / gcc's output (the Go stack trace of an internal error is dropped)"""
    i = out.find("Unerwarteter Fehler")
    if i >= 0:
        msg = out[i:i + 700]
        j = msg.find("goroutine ")
        return msg[:j] if j > 0 else msg
    if "SIGSEGV" in out or "signal " in out:
        i = out.find("SIG")
        return out[max(0, i - 200):i + 500]
    return out[-1000:]


def program_prelude(body, prelude=None):
    """None: the declarations the body names; "OVL": those plus the operator overloads; else the given text"""
    if prelude is None:
        return minimal_prelude(body)
    if prelude == "OVL":
        return minimal_prelude(OVERLOADS + body) + OVERLOADS
    return prelude


def compile_prog(b, sc, name, body, opt=0, prelude=None):
    path = os.path.join(sc, name + ".ddp")
    with open(path, "w") as fh:
        fh.write(program_prelude(body, prelude) + body)
    r = b.compile(path, os.path.join(sc, name), opt=opt)
    for ext in ("", ".o"):
        try:
            os.unlink(os.path.join(sc, name) + ext)
        except OSError:
            pass
    return classify(r), excerpt(r["out"])


# ------------------------------------------------------------------------------------------------
# regenerated table: the operator enumerations of src/ast/operators.go -> coq/Gen/OperatorEnum.v
# ------------------------------------------------------------------------------------------------
def read_operators():
    """([unary], [binary], [ternary], [cast]) constant names in declaration order, *_INVALID and *_end excluded"""
    src = open(os.path.join(vlib.REPO, "src", "ast", "operators.go")).read()
    src = re.sub(r"//[^\n]*", "", src)
    out = []
    for typ in ("UnaryOperator", "BinaryOperator", "TernaryOperator", "CastOperator"):
        m = re.search(r"const\s*\(\s*(\w+)\s+%s\s*=\s*iota(.*?)\)" % typ, src, re.S)
        if not m:
            return None
        names = [n for n in re.findall(r"^\s*(\w+)\s*$", m.group(2), re.M)]
        out.append([n for n in names if not n.endswith("_end")])
    return out


def regen_operators(ck):
    ops = read_operators()
    if ops is None or any(not o for o in ops):
        ck.broken_obligation("operator enumerations not found in src/ast/operators.go", "")
        return None
    un, bi, te, ca = ops
    def ind(name, cs):
        return "Inductive %s : Set := %s.\n" % (name, " | ".join(cs))
    def lst(name, typ, cs):
        return "Definition %s : list %s := [%s].\n" % (name, typ, "; ".join(cs))
    txt = "(* generated by checks/c02.py from src/ast/operators.go of the tree under check; do not edit *)\n"
    txt += "From Coq Require Import List.\nImport ListNotations.\n"
    txt += ind("unop", un) + ind("binop", bi) + ind("terop", te) + ind("castop", ca)
    txt += lst("all_unops", "unop", un) + lst("all_binops", "binop", bi) + lst("all_terops", "terop", te) + lst("all_castops", "castop", ca)
    path = os.path.join(vlib.COQ, "Gen", "OperatorEnum.v")
    old = open(path).read() if os.path.exists(path) else ""
    if txt != old:
        log("[gen] Gen/OperatorEnum.v changed -> rebuilding dependants")
        with open(path, "w") as fh:
            fh.write(txt)
    return un, bi, te, ca


# ------------------------------------------------------------------------------------------------
# the extracted model
# ------------------------------------------------------------------------------------------------
TY_ORDER = ["Z", "K", "B", "W", "C", "T", "S", "V", "D", "LZ", "LK", "LB", "LW", "LC", "LT", "LS", "LV", "LD", "A"]  # all_tys of Cells.v
TY_INDEX = {k: i for i, k in enumerate(TY_ORDER)}
VERDICT = {"R": "frontend-reject", "O": "ok", "I": "internal-error", "L": "llvm-reject"}


def model_ctx(ctx, ty):
    t = ctx_target(ctx, ty)
    if ctx == "VI":
        return "VI"
    if ctx == "CO":
        return "CO"
    if ctx == "EL":
        return "EL"
    kind = {"I": "IN", "A": "AS", "R": "RT"}[ctx[0]] if ctx != "AR" else "AR"
    return "%s:%d" % (kind, TY_INDEX[norm_key(t)] if t not in TY_INDEX else TY_INDEX[t])


def model_line(cell, ops, ctxs):
    kind, op, tys, _ = cell
    un, bi, te, ca = ops
    if kind == "U":
        head = "U %d %d" % (un.index(op), TY_INDEX[tys[0]])
    elif kind == "B":
        head = "B %d %d %d" % (bi.index(op), TY_INDEX[tys[0]], TY_INDEX[tys[1]])
    elif kind == "F":
        head = "F %d %d" % (FIELDS.index(tys[0]), TY_INDEX[tys[1]])
    elif kind == "T":
        head = "T %d %d %d %d" % (te.index(op), TY_INDEX[tys[0]], TY_INDEX[tys[1]], TY_INDEX[tys[2]])
    else:
        head = "C %d %d %d" % (ca.index(op), TY_INDEX[tys[0]], TY_INDEX[tys[1]])
    return head + " | " + " ".join(ctxs)


def run_model(lines):
    exe = vlib.model_bin("c02")
    p = subprocess.run([exe], input="\n".join(lines) + "\n", capture_output=True, text=True, timeout=600)
    out = p.stdout.splitlines()
    if p.returncode != 0 or len(out) != len(lines):
        return None, p.stderr[-1000:]
    return out, ""


def build_driver():
    lock = os.path.join(vlib.COQ, ".make.lock")
    import fcntl
    with open(lock, "w") as lf:
        fcntl.flock(lf, fcntl.LOCK_EX)
        try:
            p = subprocess.run(["make", "-C", os.path.join(vlib.VERIF, "extract"), "_build/c02"], capture_output=True, text=True, timeout=600)
        finally:
            fcntl.flock(lf, fcntl.LOCK_UN)
    return p.returncode == 0 and os.path.exists(vlib.model_bin("c02")), p.stdout + p.stderr


# ------------------------------------------------------------------------------------------------
# statement-level operand positions outside the operator tables: judged directly by the property
# ------------------------------------------------------------------------------------------------
def list_decl_name(v):
    """declared list type of `n Mal v` (count_decl of TcTable.v)"""
    n = norm_key(v)
    return CLS["L" + n][1] if not n.startswith("L") else "Zahlen Liste"


def loop_type(k):
    """pronoun + type name of a counter / loop variable of class k"""
    _, name, art, _, _ = CLS[k]
    return ("jede " if art == "Die" else "jeden ") + ("Buchstaben" if k == "C" else name)


BODY = "\tSpeichere 1 in tZ.\n"


def stmt_cells(full_forstep=True, rng=None):
    """[(key, kind, class keys, text with %d for unique names)] — the statement cells of TcTable.v / LowerTable.v:
    every kind x every tuple of the 19 classes (quick tier: FORSTEP tuples with fewer than three numeric classes are sampled)"""
    out = []
    for a in KEYS:
        out.append(("REPEAT", (a,), "Wiederhole:\n" + BODY + "(v%s) Mal.\n" % a))
        out.append(("WHILE", (a,), "Solange (v%s), mache:\n\tVerlasse die Schleife.\n" % a))
        out.append(("IF", (a,), "Wenn (v%s), dann:\n" % a + BODY))
        for b in KEYS:
            out.append(("LISTCOUNT", (a, b), "Die %s x%%d ist (v%s) Mal (v%s).\n" % (list_decl_name(b), a, b)))
            out.append(("LISTLIT", (a, b), "Die Variable x%%d ist eine Liste, die aus (v%s), (v%s) besteht.\n" % (a, b)))
            out.append(("FORRANGE", (a, b), "Für %s e%%d in (v%s), mache:\n" % (loop_type(a), b) + BODY))
            for c in KEYS:
                out.append(("INDEXASSIGN", (a, b, c), "Speichere (v%s) in t%s an der Stelle (v%s).\n" % (c, a, b)))
                out.append(("FOR", (a, b, c), "Für %s i%%d von (v%s) bis (v%s), mache:\n" % (loop_type(a), b, c) + BODY))
    num = ("Z", "K", "B", "A")
    for a in KEYS:
        for b in KEYS:
            for c in KEYS:
                for d in KEYS:
                    if not full_forstep:
                        nn = sum(1 for k in (a, b, c, d) if k in num)
                        if nn < 3 and rng.random() >= (0.2 if nn == 2 else 0.02):
                            continue
                    out.append(("FORSTEP", (a, b, c, d),
                                "Für %s i%%d von (v%s) bis (v%s) mit Schrittgröße (v%s), mache:\n" % (loop_type(a), b, c, d) + BODY))
    return [("stmt=%s types=%s" % (kind, ",".join(tys)), kind, tys, (t % ((i,) * t.count("%d"))) if "%d" in t else t)
            for i, (kind, tys, t) in enumerate(out)]


def direct_modules():
    """multi-file programs judged directly: (key, {file name: text}, main file)"""
    mod = ('Wir definieren eine Nummer öffentlich als eine Zahl.\nWir nennen die öffentliche Kombination aus\n'
           '\tder öffentlichen Variable wert mit Standardwert (1 als Nummer),\neine Kiste, und erstellen sie so:\n\t"eine leere Kiste"\n')
    main = 'Binde Kiste aus "mod" ein.\nDie Kiste k ist eine leere Kiste.\n'
    return [("module=STRUCT_IMPORTED_ALONE default=typedef-in-Variable-field", {"mod.ddp": mod, "main.ddp": main}, "main.ddp")]


def direct_cells():
    """statement sequences outside the tables, judged directly by the property"""
    out = []
    # `falls` with a literal first operand after a statement that leaves a temporary behind (c.latestIsTemp is not reset by literals)
    for i, (k, lit) in enumerate((("Z", "2"), ("K", "2,0"), ("W", "falsch"), ("C", "'a'"), ("T", '"a"'))):
        out.append(("stmt=FALLS_AFTER_TEMP types=%s" % k,
                    "Die Variable yd%d ist (vT) verkettet mit (vT).\nDie Variable xd%d ist %s, falls wahr, ansonsten (v%s).\n" % (i, i, lit, k)))
    return out


# ------------------------------------------------------------------------------------------------
# backend driver: batches with bisection
# ------------------------------------------------------------------------------------------------
class Backend:
    def __init__(self, b, sc, prelude=None):
        import itertools
        self.b, self.sc, self.seq, self.programs, self.prelude, self.groups = b, sc, itertools.count(1), 0, prelude, {}

    def compile_items(self, items):
        """items: [(key, text)] in one program -> (verdict, output)"""
        n = next(self.seq)     # atomic: compile_items runs on the worker threads of pmap
        self.programs = n
        return compile_prog(self.b, self.sc, "p%d_%d_%d" % (os.getpid(), id(self) % 9973, n), "".join(t for _, t in items), prelude=self.prelude)

    def isolate(self, items):
        """items believed to compile; returns {key: (verdict, output)} for the items that do not (bisection)"""
        v, out = self.compile_items(items)
        if v == "ok":
            return {}
        if len(items) == 1:
            return {items[0][0]: (v, out)}
        h = len(items) // 2
        bad = {}
        bad.update(self.isolate(items[:h]))
        bad.update(self.isolate(items[h:]))
        if not bad:
            # fails only in combination (state left behind by an earlier statement): the smallest failing group found is
            # the replay; it is attributed to the statement kddp's message points into, else to the first one
            body = "".join(t for _, t in items)
            culprit = items[0][0]
            m = re.search(r"Range\{Start: Pos\{L: (\d+)", out)
            if m and self.prelude is None:
                line = int(m.group(1)) - minimal_prelude(body).count("\n")
                for k, t in items:
                    n = t.count("\n")
                    if 1 <= line <= n:
                        culprit = k
                        break
                    line -= n
            bad[culprit] = ("combination:" + v, out)
            self.groups[culprit] = body
        return bad


def main():
    ck = Check(PID, "proof")
    b = Build()
    ck.cov["trusted_base"] = vlib.TRUSTED_COMMON + [
        "the tables of Lower/TcTable.v and Lower/LowerTable.v are hand transcriptions of typechecker.go 303-587 and compiler.go 462-536, 858-1917, 2015-2117, 2306-2335, 2356-2388, 2720-2769, ir_helper.go, helper.go; tied to /repo by the exhaustive cell runs of this check",
        "llir/llvm v0.3.6 constructor checks (NewStore, NewTrunc, icmp/fcmp Type()) and LLVM 14's IR parser are modelled by judge_instr; both are exercised on every admitted cell",
        "operands of a cell are variables of the class (registers); constants, temporaries and overloaded operators are outside the tables",
        "one representative per class: one Kombination (three fields), one alias and one definition of Zahl; the checker inspects operand types only through Equal/IsNumeric/IsList/IsPrimitive/IsAny/CastTypeDef",
        "harness cellx: parser.Parse of /repo in-process, admission per statement by diagnostic line, checker type = VarDecl.InitType",
        "statement cells: tc_stmt / lower_stmt transcribe typechecker.go VisitWhileStmt/VisitIfStmt/VisitListLit/VisitIndexing+VisitAssignStmt/VisitForStmt/VisitForRangeStmt and the corresponding compiler.go visitors; loop bodies are a fixed assignment",
    ]
    if ck.replay:
        # re-run one recorded failing program against the current tree
        rp = json.load(open(ck.replay))
        ok, lg = b.ensure_native()
        sc = vlib.scratch()
        path = os.path.join(sc, "replay.ddp")
        with open(path, "w") as fh:
            fh.write(rp["replay"]["program"])
        r = b.compile(path, os.path.join(sc, "replay"))
        v = classify(r)
        log("[replay] %s -> %s" % (rp.get("key"), v))
        if v != "ok":     # evidence of the last full run is left alone
            print("VIOLATION property=%s replay=%s" % (PID, ck.replay))
            log("  -> replayed program still fails: %s %s" % (v, excerpt(r["out"])[:300]))
            sys.exit(1)
        sys.exit(0)
    ops = regen_operators(ck)
    coq_ok = ck.coq()
    ok, lg = b.ensure_native()
    if not ok:
        ck.violation("build", "kddp/runtime do not build from the current tree", dict(log=lg[-3000:]), no_input=True)
        ck.finish()
    cx, lg = b.ensure_go("cellx")
    if not cx:
        ck.broken_obligation("harness cellx does not build against /repo", lg)
        ck.finish()
    if ops is None:
        ck.finish()
    un, bi, te, ca = ops
    missing = [o for o in un if o not in UNOPS] + [o for o in bi if o not in BINOPS] + [o for o in te if o not in TEROPS]
    if missing or ca != ["CAST_OP"]:
        ck.broken_obligation("operators of src/ast/operators.go without a statement template / table row: %s %s" % (missing, ca), "")
        ck.finish()
    model_ok = False
    if coq_ok:
        model_ok, lg = build_driver()
        if not model_ok:
            ck.broken_obligation("extracted model driver c02 does not build", lg[-2000:])
    sc = vlib.scratch()
    be = Backend(b, sc)
    cells = all_cells((un, bi, te))
    corpus_dir = os.path.join(vlib.VERIF, "corpus", PID)
    os.makedirs(corpus_dir, exist_ok=True)

    def report(key, verdict, out, text, extra=None):
        """a frontend-accepted program that kddp does not compile"""
        what = "the frontend accepts the program, kddp answers %s: %s" % (verdict, " ".join(out.split())[:400])
        group = extra.pop("group", None) if extra else None
        rep = dict(program=minimal_prelude(group or text) + (group or text), statement=text, verdict=verdict, output=out[-1500:], how="DDPPATH=<build> kddp kompiliere prog.ddp -o prog.o")
        if extra:
            rep.update(extra)
            rep.pop("prelude", None)
        new = ck.violation(key, what, rep)
        fn = os.path.join(corpus_dir, re.sub(r"[^A-Za-z0-9_=,.-]+", "_", key)[:150] + ".ddp")
        if new and not os.path.exists(fn) and len(os.listdir(corpus_dir)) < 200:
            with open(fn, "w") as fh:
                fh.write("[%s]\n" % key + (group or text))
        return new

    # ---- 0. corpus first --------------------------------------------------------------------
    corpus = []
    for f in sorted(os.listdir(corpus_dir)):
        if f.endswith(".ddp"):
            txt = open(os.path.join(corpus_dir, f)).read()
            m = re.match(r"\[(.*?)\]\n", txt)
            if m:
                corpus.append((m.group(1), txt[m.end():]))
    for prel in (PRELUDE, PRELUDE_TEMP):
        part = [(k, t) for (k, t) in corpus if (re.search(r" ctx=[A-Z]+t ", k) is not None) == (prel is PRELUDE_TEMP)]
        if not part:
            continue
        fr, _ = frontend_batch(cx, b, [(i, t) for i, (k, t) in enumerate(part)], size=50, prelude=prel)
        todo = [part[i] for i in range(len(part)) if fr.get(i, (False, None))[0]]
        cbe = Backend(b, sc)
        for (k, t), (v, out) in zip(todo, vlib.pmap(lambda it: cbe.compile_items([it]), todo)):
            ck.count()
            if v != "ok":
                report(k, v, out, t, dict(prelude="PRELUDE_TEMP" if prel is PRELUDE_TEMP else "PRELUDE"))

    # ---- 1. frontend over the whole cell space ----------------------------------------------------
    fres, problems = frontend_batch(cx, b, [(i, ctx_stmt("VI", "V", c[3], i)) for i, c in enumerate(cells)])
    if problems:
        ck.broken_obligation("cellx could not process %d frontend batches (panic or diagnostics in the prelude): %s" % (len(problems), str(problems[0][1])[:400]), "")
        ck.finish()
    ck.count(len(cells))
    admitted = {i: fres[i][1] for i in range(len(cells)) if fres[i][0]}
    # contexts per admitted cell
    want_ctx = {}
    for i, ty in admitted.items():
        if ty is None or ty.startswith("?") or ty not in TYPEINFO:
            ck.broken_obligation("the checker assigned an unexpected type %s to cell %s" % (ty, cell_name(cells[i])), "")
            continue
        want_ctx[i] = [x for x in CTX_ALL if ctx_target(x, ty) is not None]
    # the model on every cell (VI) and on every context of the admitted ones
    pred = {}
    tc_mismatch = []
    if model_ok:
        lines = [model_line(c, ops, [model_ctx(x, admitted[i]) for x in want_ctx.get(i, [])] if i in want_ctx else ["VI"]) for i, c in enumerate(cells)]
        mout, lg = run_model(lines)
        if mout is None:
            ck.broken_obligation("model driver failed", lg)
            model_ok = False
        else:
            for i, l in enumerate(mout):
                f = l.split()
                mty = None if f[0] == "-" else TY_ORDER[int(f[0])]
                rty = admitted.get(i)
                if (mty is None) != (rty is None) or (mty is not None and norm_key(mty) != norm_key(rty)):
                    tc_mismatch.append((i, mty, rty))
                if i in want_ctx:
                    pred[i] = dict(cell_ok=f[1] == "1", ctx={x: VERDICT[v] for x, v in zip(want_ctx[i], f[3:])})
    # ---- 2. contexts of admitted cells: frontend, then backend -----------------------------------
    quick = ck.quick
    units = []   # (uid, cell index, ctx)
    for i in sorted(want_ctx):
        for x in want_ctx[i]:
            units.append((len(units), i, x))
    stmt = {u: ctx_stmt(x, admitted[i], cells[i][3], u) for (u, i, x) in units}
    cres, problems = frontend_batch(cx, b, [(u, stmt[u]) for (u, i, x) in units])
    if problems:
        ck.broken_obligation("cellx could not process %d context batches: %s" % (len(problems), str(problems[0][1])[:400]), "")
    ck.count(len(units))
    ukey = {u: "cell %s type=%s ctx=%s" % (cell_name(cells[i]), admitted[i], x) for (u, i, x) in units}
    good, single = [], []
    skipped = 0
    # cells on which checker table and typechecker differ are compiled in every context, alone when the model rejects them
    mismatch_cells = {i for (i, _, _) in tc_mismatch}
    cell_of_unit = {u: (i, x) for (u, i, x) in units}
    for (u, i, x) in units:
        acc = cres.get(u, (False, None))[0]
        p = pred.get(i, {}).get("ctx", {}).get(x) if model_ok else None
        if not acc:
            # the context's own rule rejected a statement whose expression was admitted: must be the model's view too
            if p is not None and p != "frontend-reject":
                ck.broken_obligation("frontend rejects %s but ctx_admits of the model admits it" % ukey[u], stmt[u])
            continue
        if p == "frontend-reject":
            ck.broken_obligation("frontend accepts %s but the model's ctx_admits rejects it" % ukey[u], stmt[u])
        if p in (None, "ok"):
            # quick tier: the initialiser contexts for every cell, the others sampled
            if quick and i not in mismatch_cells and x not in ("VI", "IN") and ck.rng.random() >= 0.2:
                skipped += 1
                continue
            good.append(u)
        else:
            single.append(u)
    if quick:
        # predicted-bad units are compiled alone: keep up to 3 contexts per failing cell, and a sample of the cells
        # whose only failing context is the list literal of lists
        by_cell = {}
        for u in single:
            by_cell.setdefault(cell_of_unit[u][0], []).append(u)
        kept = []
        for i in sorted(by_cell):
            us = by_cell[i]
            if i in mismatch_cells:
                kept += us
            elif pred.get(i, {}).get("cell_ok", True):
                if ck.rng.random() < 0.08:
                    kept += us
            else:
                kept += ck.rng.sample(us, min(3, len(us)))
        skipped += len(single) - len(kept)
        single = kept
    ck.rng.shuffle(good)
    BATCH = 40
    batches = [good[k:k + BATCH] for k in range(0, len(good), BATCH)]
    bad_found = {}
    for r in vlib.pmap(lambda bt: be.isolate([(u, stmt[u]) for u in bt]), batches):
        bad_found.update(r)
    sres = vlib.pmap(lambda u: be.compile_items([(u, stmt[u])]), single)
    real = {u: "ok" for u in good}
    outp = {}
    for u, (v, out) in bad_found.items():
        real[u], outp[u] = v, out
    for u, (v, out) in zip(single, sres):
        real[u], outp[u] = v, out
    cell_of = {u: (i, x) for (u, i, x) in units}
    n_viol = 0
    disagreements = []
    for u, v in sorted(real.items()):
        i, x = cell_of[u]
        ck.nontrivial((cells[i][1], cells[i][2], x))
        p = pred.get(i, {}).get("ctx", {}).get(x) if model_ok else None
        if v != "ok":
            if v == "frontend-reject":
                ck.broken_obligation("kddp reports a frontend error for %s which parser.Parse (cellx) accepted" % ukey[u], outp[u][-600:])
                continue
            n_viol += 1
            report("%s verdict=%s" % (ukey[u], v), v, outp[u], stmt[u], dict(cell=cell_name(cells[i]), context=x, checker_type=admitted[i], model_prediction=p, group=be.groups.get(u)))
        if model_ok and p != v:
            disagreements.append((ukey[u], p, v))
    # ---- 3. correspondence of the tables ----------------------------------------------------------
    for (i, mty, rty) in tc_mismatch[:20]:
        # neighbours searched: every context of the cell was compiled above when the frontend admits it
        ck.broken_obligation("checker table: cell %s: model tc = %s, typechecker of /repo = %s" % (cell_name(cells[i]), mty, rty), cells[i][3])
    if disagreements and not ck.violations:
        ck.broken_obligation("lowering table: %d (cell, context) verdicts differ between model and kddp, e.g. %s: model %s, kddp %s" % ((len(disagreements),) + disagreements[0]), json.dumps(disagreements[:40]))
    elif disagreements:
        log("[c02] %d model/kddp verdict disagreements (violations reported): %s" % (len(disagreements), disagreements[:10]))
    # ---- 3b. thorough: the same cells with temporaries (call results) as operands --------------------
    temp_units = 0
    if not quick:
        tcells = all_cells((un, bi, te), v="gib_")
        tfres, problems = frontend_batch(cx, b, [(i, ctx_stmt("VI", "V", c[3], i)) for i, c in enumerate(tcells)], prelude=PRELUDE_TEMP)
        if problems:
            ck.broken_obligation("cellx could not process %d frontend batches of the temporary flavour: %s" % (len(problems), str(problems[0][1])[:400]), "")
        ck.count(len(tcells))
        tadm = {i: tfres[i][1] for i in range(len(tcells)) if tfres.get(i, (False, None))[0]}
        if tadm != admitted:
            diff = sorted(set(tadm.items()) ^ set(admitted.items()))[:5]
            ck.broken_obligation("the checker decides cells differently for temporaries than for variables: %s" % [(cell_name(cells[i]), t) for i, t in diff], "")
        tbe = Backend(b, sc)
        tunits = [(n, i, x) for n, (i, x) in enumerate((i, x) for i in sorted(tadm) if i in want_ctx for x in ("VI", "IN", "AR", "RT", "EL") if x in want_ctx[i])]
        tstmt = {u: ctx_stmt(x, tadm[i], tcells[i][3], u) for (u, i, x) in tunits}
        tkey = {u: "cell %s type=%s ctx=%st" % (cell_name(tcells[i]), tadm[i], x) for (u, i, x) in tunits}
        tcres, _ = frontend_batch(cx, b, [(u, tstmt[u]) for (u, i, x) in tunits], prelude=PRELUDE_TEMP)
        tgood = [u for (u, i, x) in tunits if tcres.get(u, (False, None))[0] and pred.get(i, {}).get("ctx", {}).get(x) in (None, "ok")]
        tsingle = [u for (u, i, x) in tunits if tcres.get(u, (False, None))[0] and u not in set(tgood)]
        ck.rng.shuffle(tgood)
        treal = {u: ("ok", "") for u in tgood}
        for r in vlib.pmap(lambda bt: tbe.isolate([(u, tstmt[u]) for u in bt]), [tgood[k:k + BATCH] for k in range(0, len(tgood), BATCH)]):
            treal.update(r)
        for u, r in zip(tsingle, vlib.pmap(lambda u: tbe.compile_items([(u, tstmt[u])]), tsingle)):
            treal[u] = r
        tcell_of = {u: (i, x) for (u, i, x) in tunits}
        tdis = []
        for u, (v, out) in sorted(treal.items()):
            i, x = tcell_of[u]
            ck.nontrivial((cells[i][1], cells[i][2], x, "temp"))
            p = pred.get(i, {}).get("ctx", {}).get(x) if model_ok else None
            if v == "frontend-reject":
                ck.broken_obligation("kddp reports a frontend error for %s which parser.Parse (cellx) accepted" % tkey[u], out[-600:])
                continue
            if v != "ok":
                n_viol += 1
                report("%s verdict=%s" % (tkey[u], v), v, out, tstmt[u], dict(cell=cell_name(cells[i]), context=x, operands="temporaries (call results)", checker_type=tadm[i], model_prediction=p, prelude="PRELUDE_TEMP", group=tbe.groups.get(u)))
            if model_ok and p != v:
                tdis.append((tkey[u], p, v))
        if tdis and not ck.violations:
            ck.broken_obligation("lowering table (temporary operands): %d verdicts differ between model and kddp, e.g. %s: model %s, kddp %s" % ((len(tdis),) + tdis[0]), json.dumps(tdis[:40]))
        disagreements += tdis
        temp_units = len(treal)
        be.programs += tbe.programs
    # ---- 3c. literal operands: each operand position a variable or a literal (judged directly) --------
    # constants take other paths in the code generator (literal fast paths; the textual IR prints the type of a
    # constant operand only with the first operand), so these programs are not compared with the tables
    lit_variants = []
    for i in sorted(want_ctx):
        for combo, text in literal_variants(cells[i], full=not quick):
            lit_variants.append((len(lit_variants), i, combo, text))
    lres, problems = frontend_batch(cx, b, [(n, ctx_stmt("VI", "V", text, n)) for (n, i, combo, text) in lit_variants])
    if problems:
        ck.broken_obligation("cellx could not process %d frontend batches of the literal leg: %s" % (len(problems), str(problems[0][1])[:400]), "")
    ck.count(len(lit_variants))
    lunits = []
    for (n, i, combo, text) in lit_variants:
        acc, ty = lres.get(n, (False, None))
        if not acc or ty not in TYPEINFO:
            continue
        for x in (("IN", "AR") if quick else ("IN", "AR", "VI", "RT")):
            if quick and x == "AR" and ck.rng.random() >= 0.25:
                continue
            u = len(lunits)
            lunits.append((u, n, x, ctx_stmt(x, ty, text, u), "cell %s operands=%s type=%s ctx=%s" % (cell_name(cells[i]), "|".join(combo), ty, x)))
    lcres, _ = frontend_batch(cx, b, [(u, st) for (u, n, x, st, k) in lunits])
    lgood = [u for (u, n, x, st, k) in lunits if lcres.get(u, (False, None))[0]]
    ck.count(len(lunits))
    ck.rng.shuffle(lgood)
    LB = 60
    lbad = {}
    lbe = Backend(b, sc)
    for r in vlib.pmap(lambda bt: lbe.isolate([(u, lunits[u][3]) for u in bt]), [lgood[k:k + LB] for k in range(0, len(lgood), LB)]):
        lbad.update(r)
    for u in lgood:
        ck.nontrivial(lunits[u][4])
    for u, (v, out) in sorted(lbad.items()):
        if v == "frontend-reject":
            ck.broken_obligation("kddp reports a frontend error for %s which parser.Parse (cellx) accepted" % lunits[u][4], out[-600:])
            continue
        n_viol += 1
        report("%s verdict=%s" % (lunits[u][4], v), v, out, lunits[u][3], dict(operands="literals where the key names one", context=lunits[u][2], group=lbe.groups.get(u)))
    # ---- 3d. operands that are themselves lowered into several basic blocks (judged directly) ------------------
    # every admitted cell with one operand replaced by each multi-block form of its class; for `falls` (and und/oder,
    # whose phi nodes name the blocks their operands END in) every combination of positions
    mb_variants = []
    for i in sorted(want_ctx):
        op = cells[i][1]
        pairs = op in ("TER_FALLS", "BIN_AND", "BIN_OR")
        if quick and not pairs and ck.rng.random() >= 0.04:
            continue
        for combo, text in multiblock_variants(cells[i], pairs):
            if quick and pairs and op == "TER_FALLS" and sum(1 for x in combo if x != "v") > 1 and not (combo[1] == "v" and sum(1 for x in combo if x != "v") == 2):
                continue      # quick: single positions and (value-if-true, value-if-false) pairs
            mb_variants.append((len(mb_variants), i, combo, text))
    mres, problems = frontend_batch(cx, b, [(n, ctx_stmt("VI", "V", text, n)) for (n, i, combo, text) in mb_variants])
    if problems:
        ck.broken_obligation("cellx could not process %d frontend batches of the multi-block leg: %s" % (len(problems), str(problems[0][1])[:400]), "")
    ck.count(len(mb_variants))
    munits = []
    for (n, i, combo, text) in mb_variants:
        acc, ty = mres.get(n, (False, None))
        if not acc or ty not in TYPEINFO:
            continue
        for x in (("IN",) if quick else ("IN", "AR", "VI", "RT")):
            u = len(munits)
            munits.append((u, n, x, ctx_stmt(x, ty, text, u), "cell %s operands=%s type=%s ctx=%s" % (cell_name(cells[i]), "|".join(combo), ty, x)))
    mcres, _ = frontend_batch(cx, b, [(u, st) for (u, n, x, st, k) in munits])
    mgood = [u for (u, n, x, st, k) in munits if mcres.get(u, (False, None))[0]]
    ck.count(len(munits))
    ck.rng.shuffle(mgood)
    mbe = Backend(b, sc)
    mbad = {}
    for r in vlib.pmap(lambda bt: mbe.isolate([(u, munits[u][3]) for u in bt]), [mgood[k:k + LB] for k in range(0, len(mgood), LB)]):
        mbad.update(r)
    for u in mgood:
        ck.nontrivial(munits[u][4])
    for u, (v, out) in sorted(mbad.items()):
        if v == "frontend-reject":
            ck.broken_obligation("kddp reports a frontend error for %s which parser.Parse (cellx) accepted" % munits[u][4], out[-600:])
            continue
        n_viol += 1
        report("%s verdict=%s" % (munits[u][4], v), v, out, munits[u][3], dict(operands="multi-block expressions where the key names one", context=munits[u][2], group=mbe.groups.get(u)))
    # ---- 3e. compound assignments x targets x overloaded operators (judged directly) ---------------------------
    # the target of Erhöhe/Verringere/Vervielfache/Teile/Verschiebe/Negiere is READ through its Assigneable node
    OVL = PRELUDE + OVERLOADS
    ccs = compound_cells()
    cfr, problems = frontend_batch(cx, b, [(j, t) for j, (k, t) in enumerate(ccs)], prelude=OVL)
    if problems:
        ck.broken_obligation("cellx could not process %d batches of the compound-assignment leg: %s" % (len(problems), str(problems[0][1])[:400]), "")
    ck.count(len(ccs))
    cgood = [j for j in range(len(ccs)) if cfr.get(j, (False, None))[0]]
    known_pat = [re.compile(k["key"]) for k in ck.known]
    csingle = [j for j in cgood if any(pt.search(ccs[j][0] + " verdict=" + v) for pt in known_pat for v in ("internal-error", "llvm-reject", "link-fail", "compiler-crash"))]
    cgood = [j for j in cgood if j not in set(csingle)]
    ck.rng.shuffle(cgood)
    cbe = Backend(b, sc, prelude="OVL")
    cbad = {}
    for r in vlib.pmap(lambda bt: cbe.isolate([(j, ccs[j][1]) for j in bt]), [cgood[k:k + BATCH] for k in range(0, len(cgood), BATCH)]):
        cbad.update(r)
    for j, r in zip(csingle, vlib.pmap(lambda j: cbe.compile_items([(j, ccs[j][1])]), csingle)):
        if r[0] != "ok":
            cbad[j] = r
    for j in cgood + csingle:
        ck.nontrivial(ccs[j][0])
    for j, (v, out) in sorted(cbad.items()):
        if v == "frontend-reject":
            ck.broken_obligation("kddp reports a frontend error for %s which parser.Parse (cellx) accepted" % ccs[j][0], out[-600:])
            continue
        n_viol += 1
        rep_text = ccs[j][1]
        if ck.violation("%s verdict=%s" % (ccs[j][0], v), "the frontend accepts the program, kddp answers %s: %s" % (v, " ".join(out.split())[:400]),
                        dict(program=program_prelude(cbe.groups.get(j) or rep_text, "OVL") + (cbe.groups.get(j) or rep_text), statement=rep_text, verdict=v, output=out[-1500:], how="DDPPATH=<build> kddp kompiliere prog.ddp -o prog.o")):
            pass
    # ---- 4. statement-level operand positions: tc_stmt / lower_stmt against frontend and kddp ---------------
    sts = stmt_cells(full_forstep=not quick, rng=ck.rng)
    sfr, problems = frontend_batch(cx, b, [(j, st[3]) for j, st in enumerate(sts)], size=1500)
    if problems:
        ck.broken_obligation("cellx could not process %d statement batches: %s" % (len(problems), str(problems[0][1])[:400]), "")
    ck.count(len(sts))
    spred = {}
    if model_ok:
        mout, lg = run_model(["S %s %s" % (st[1], " ".join(str(TY_INDEX[k]) for k in st[2])) for st in sts])
        if mout is None:
            ck.broken_obligation("model driver failed on the statement cells", lg)
        else:
            for j, l in enumerate(mout):
                f = l.split()
                spred[j] = (f[0] == "1", VERDICT[f[1]])
    sacc = [j for j in range(len(sts)) if sfr.get(j, (False, None))[0]]
    smis = [j for j in range(len(sts)) if j in spred and j in sfr and spred[j][0] != sfr[j][0]]
    smis_set = set(smis)
    ssingle = [j for j in sacc if j in smis_set or (j in spred and spred[j][1] != "ok")]
    ssingle_set = set(ssingle)
    sgood = [j for j in sacc if j not in ssingle_set and not (quick and sts[j][1] == "FORSTEP" and ck.rng.random() >= 0.25)]
    ck.rng.shuffle(sgood)
    ebe = Backend(b, sc)
    sreal = {j: ("ok", "") for j in sgood}
    for r in vlib.pmap(lambda bt: ebe.isolate([(j, sts[j][3]) for j in bt]), [sgood[k:k + BATCH] for k in range(0, len(sgood), BATCH)]):
        sreal.update(r)
    for j, r in zip(ssingle, vlib.pmap(lambda j: ebe.compile_items([(j, sts[j][3])]), ssingle)):
        sreal[j] = r
    sdis = []
    for j, (v, out) in sorted(sreal.items()):
        ck.nontrivial(sts[j][0])
        p = spred[j][1] if j in spred else None
        if v == "frontend-reject":
            ck.broken_obligation("kddp reports a frontend error for %s which parser.Parse (cellx) accepted" % sts[j][0], out[-600:])
            continue
        if v != "ok":
            n_viol += 1
            report("%s verdict=%s" % (sts[j][0], v), v, out, sts[j][3], dict(model_prediction=p, group=ebe.groups.get(j)))
        if p is not None and p != v:
            sdis.append((sts[j][0], p, v))
    for j in smis[:20]:
        ck.broken_obligation("statement table: %s: model tc_stmt = %s, frontend of /repo accepts = %s" % (sts[j][0], spred[j][0], sfr[j][0]), sts[j][3])
    if sdis and not ck.violations:
        ck.broken_obligation("statement lowering table: %d verdicts differ between model and kddp, e.g. %s: model %s, kddp %s" % ((len(sdis),) + sdis[0]), json.dumps(sdis[:40]))
    disagreements += sdis
    # statement sequences outside the tables: judged directly
    dcs = direct_cells()
    dfr, _ = frontend_batch(cx, b, [(j, t) for j, (k, t) in enumerate(dcs)], size=50)
    for j, (v, out) in zip(range(len(dcs)), vlib.pmap(lambda j: ebe.compile_items([(j, dcs[j][1])]) if dfr.get(j, (False, None))[0] else ("skipped", ""), range(len(dcs)))):
        if v in ("ok", "skipped"):
            continue
        n_viol += 1
        report("%s verdict=%s" % (dcs[j][0], v), v, out, dcs[j][1])
    for key, files, mainf in direct_modules():
        d = os.path.join(sc, re.sub(r"[^A-Za-z0-9]+", "_", key))
        os.makedirs(d, exist_ok=True)
        for fn, txt in files.items():
            with open(os.path.join(d, fn), "w") as fh:
                fh.write(txt)
        fr1 = run_cellx(cx, b, [dict(id="m", file=os.path.join(d, mainf), src=files[mainf])])
        if not fr1 or fr1[0].get("diags") or fr1[0].get("panic") or fr1[0].get("faulty"):
            continue       # the frontend does not accept it
        r = b.compile(os.path.join(d, mainf), os.path.join(d, "prog"), cwd=d)
        ck.count()
        ck.nontrivial(key)
        v = classify(r)
        if v not in ("ok", "frontend-reject"):
            n_viol += 1
            ck.violation("%s verdict=%s" % (key, v), "the frontend accepts the program, kddp answers %s: %s" % (v, " ".join(excerpt(r["out"]).split())[:400]),
                         dict(files=files, main=mainf, verdict=v, output=excerpt(r["out"]), how="cd <dir with the files>; DDPPATH=<build> kddp kompiliere main.ddp -o main.o"))
    ex, eacc = sts, sacc
    # ---- evidence -----------------------------------------------------------------------------------
    ck.cov.update(dict(
        exhaustive=True, cells=len(cells), admitted_cells=len(admitted), context_units=len(units), compiled_units=len(real), skipped_units_quick=skipped,
        predicted_bad_units=len(single), programs_compiled=be.programs + lbe.programs + ebe.programs + mbe.programs + cbe.programs, statement_cells=len(ex), statement_cells_admitted=len(eacc),
        temporary_flavour_units=temp_units, literal_variants=len(lit_variants), literal_units_compiled=len(lgood), multiblock_variants=len(mb_variants), multiblock_units_compiled=len(mgood), compound_cells=len(ccs), compound_cells_compiled=len(cgood) + len(csingle), failing_units=n_viol, model_disagreements=len(disagreements), checker_table_mismatches=len(tc_mismatch), statement_table_mismatches=len(smis), statement_units_compiled=len(sreal),
        operators=dict(unary=un, binary=bi, ternary=te, cast=ca), type_classes=KEYS, contexts=CTX_ALL,
        input_distribution="enumeration, no sampling in the frontend leg: every operator of operators.go x every tuple of %d operand classes (%d cells) through the real frontend; every admitted cell x every applicable value context (%s) through kddp+LLVM+gcc (quick tier: initialiser contexts VI/IN for every admitted cell, 20%% seeded sample of the other contexts of cells predicted fine, up to 3 contexts of every cell predicted bad and 8%% of the list-literal-of-lists units alone; thorough: everything, plus every cell again with call results as operands in 5 contexts); every admitted cell again with bare literals (Zahl 0 1 2 -1, Kommazahl 0,0 2,0, wahr falsch, 'a', \"a\") in each single operand position (thorough: every combination) in the initialiser and argument contexts (thorough: also VI, RT), judged directly; every admitted cell with one operand (falls/und/oder: every combination) replaced by each expression form that is lowered into several basic blocks (nested falls, list element, cast from Variable, Betrag, modulo, und/oder), judged directly; compound assignments (Erhöhe Verringere Vervielfache Teile Verschiebe Negiere) x target (variable, list element, Text position, field) x operand class with operator overloads for (Buchstabe, Zahl), (Punkt, Punkt), (Text, Zahl), (Zahlen Liste, Zahl), judged directly; statement cells (repeat count, while/if condition, both list literal forms, indexed assignment, counting loops with and without step, range loops) x every tuple of the classes through the real frontend against tc_stmt (quick tier: FORSTEP tuples with three or four numeric classes all, with two 20%%, with fewer 2%%; thorough: all 130321) and every admitted one through kddp against lower_stmt (quick tier: 25%% of the admitted FORSTEP cells)" % (len(KEYS), len(cells), ",".join(CTX_ALL)),
        rule="distinct = (operator, operand classes, context) triples resp. statement cells; non-trivial = admitted by the frontend, i.e. the code generator ran on it"))
    a = [i for i in sorted(admitted)][:3]
    for i in a:
        ck.sample(dict(cell=cell_name(cells[i]), statement=ctx_stmt("VI", "V", cells[i][3], i).strip(), checker_type=admitted[i]))
    ck.sample(dict(cell="op=UN_NEGATE types=B", statement="Die Variable x ist -(vB).", expected="compiles", model="VOk: zext i8 -> i64, sub"))
    ck.finish("exhaustive correspondence of checker table and lowering table with /repo; %d frontend-accepted one-statement programs do not compile (known findings are listed)" % n_viol)


if __name__ == "__main__":
    main()
