#!/usr/bin/env python3
"""C03 — the frontend is total: no input crashes or hangs it.  (level: other / PARTIAL by nature)
Coq: coq/Props/C03.v proves termination of the parser's driving loops over an abstract declaration
parser with a progress contract. Crash-freedom of the recursive-descent code is EXPLORED here:
near-valid programs (token deletion / duplication / transposition / splicing of the upstream goldens,
the Duden and the examples), byte-level mutants incl. invalid UTF-8, and import arrangements
(missing file, directory, cycles, recursive generics) are parsed by the real frontend inside
sacrificial worker processes with a time and memory limit. A panic, fatal error, timeout or death
of the worker is a violation with the input as replay."""
import glob
import hashlib
import json
import os
import re
import subprocess
import sys

sys.path.insert(0, os.path.dirname(os.path.abspath(__file__)))
import vlib
from vlib import Check, Build, log

PID = "C03"
TOKRE = re.compile(r'"(?:\\.|[^"\\])*"|\'(?:\\.|[^\'\\])*\'|\[|\]|[A-Za-zÄÖÜäöüß_][A-Za-zÄÖÜäöüß_0-9]*|\d+(?:,\d+)?|\s+|.', re.S)


def seeds():
    fs = sorted(glob.glob("/repo/tests/testdata/kddp/**/*.ddp", recursive=True)) + sorted(glob.glob(os.path.join(vlib.REPO, "examples/**/*.ddp"), recursive=True))
    fs = [f.replace("/repo/", vlib.REPO + "/", 1) if f.startswith("/repo/") else f for f in fs]
    fs += sorted(glob.glob(os.path.join(vlib.REPO, "lib/stdlib/Duden/*.ddp")))
    out = []
    for f in fs:
        try:
            s = open(f, encoding="utf-8").read()
        except Exception:
            continue
        if len(s) < 20000:
            out.append((f, s))
    return out


SNIPPETS = [
    "Wenn wahr, Der Alias \"x <a>\" steht für die Funktion foo.\n",
    "Der Alias \"zeig <p>\" steht für die Funktion Punkt.\n",
    "Wir nennen die Kombination aus\n\tder Zahl x mit Standardwert 0,\neinen Punkt, und erstellen sie so:\n\t\"Punkt\"\nDer Alias \"p <x>\" steht für die Funktion Punkt.\n",
    "Solange wahr, Der Alias \"a\" steht für die Funktion b.\n",
    "Für jede Zahl i von 1 bis 3, Der Alias \"a\" steht für die Funktion b.\n",
    "Wenn wahr, dann:\n",
    "Die Funktion f gibt eine Zahl zurück, macht:\n",
    "Die Funktion f mit dem Parameter a vom Typ Zahl, gibt nichts zurück, macht:\n\tDie Funktion g gibt nichts zurück, macht:\n\t\tGib nichts zurück.\n",
    "Wir nennen die generische Kombination aus\n\tdem T a,\n\tder R-T-Liste b,\neine Liste2, und erstellen sie so:\n\t\"x\"\n",
    "Binde \"\" ein.\n", "Binde \".\" ein.\n", "Binde \"/\" ein.\n", "Binde \"Duden\" ein.\n", "Binde alle Module aus \"Duden\" ein.\n", "Binde alle Module rekursiv aus \".\" ein.\n",
    "Binde x aus \"Duden/Ausgabe\" ein.\n", "Binde \"Duden/Ausgabe\" ein.\nBinde \"Duden/Ausgabe\" ein.\n",
    "((((((((((((((((((((", "Die Zahl x ist ((((((((((1))))))))))).\n", "\"unterminated", "'", "'\\", "[[[[", "Der Text t ist \"\\", "<<<>>>",
    "Die Zahl x ist 99999999999999999999999999.\n", "Die Kommazahl k ist 1,.\n", "Schreibe .\n", ".", "...", "Und kann so benutzt werden:\n\t\"<a> <a>\"\n",
]


def mutate_tokens(rng, src, other):
    toks = TOKRE.findall(src)
    if len(toks) < 4:
        return src
    k = rng.choice(["del", "dup", "swap", "splice", "trunc", "delrange", "ins"])
    i = rng.randrange(len(toks))
    if k == "del":
        del toks[i]
    elif k == "dup":
        toks.insert(i, toks[i])
    elif k == "swap":
        j = rng.randrange(len(toks))
        toks[i], toks[j] = toks[j], toks[i]
    elif k == "splice":
        ot = TOKRE.findall(other)
        a = rng.randrange(len(ot))
        toks[i:i] = ot[a:a + rng.randint(1, 12)]
    elif k == "trunc":
        toks = toks[:i]
    elif k == "delrange":
        del toks[i:i + rng.randint(2, 10)]
    else:
        toks.insert(i, rng.choice(SNIPPETS + ["Der", "Die", "Das", "Wir", "Alias", "Funktion", "generische", "öffentliche", "Wenn", ":", ",", ".", "(", ")", "<a>", "ein", "als", "von", "Referenz", "Liste", "ist", "macht", "dann"]))
    return "".join(toks)


# type positions: every type name of a seed program may be written through an alias or a definition (the parser and the
# checker must treat `Zahlenreihe` like `Zahlen Liste` and must not assume the concrete Go type of a ddptypes.Type)
TYPE_PRELUDE = (
    "Wir nennen eine Zahl auch eine Ganzzahl.\n"
    "Wir nennen eine Kommazahl auch eine Fliesszahl.\n"
    "Wir nennen einen Text auch eine Zeichenfolge.\n"
    "Wir nennen einen Buchstaben auch ein Zeichen.\n"
    "Wir nennen einen Wahrheitswert auch einen Schalter.\n"
    "Wir nennen eine Zahlen Liste auch eine Zahlenreihe.\n"
    "Wir nennen eine Text Liste auch eine Textreihe.\n"
    "Wir nennen eine Kommazahlen Liste auch eine Kommareihe.\n"
    "Wir nennen eine Buchstaben Liste auch eine Zeichenreihe.\n"
    "Wir nennen eine Zahlenreihe auch eine Zahlenreihe2.\n"
    "Wir definieren eine Strecke als eine Zahl.\n"
    "Wir definieren eine Streckenreihe als eine Zahlen Liste.\n"
    "Wir definieren einen Namen als einen Text.\n"
)
TYPE_SUBST = [
    (r"\bZahlen Liste\b", ["Zahlenreihe", "Zahlenreihe2", "Streckenreihe", "Ganzzahl Liste", "Strecke Liste"]),
    (r"\bText Liste\b", ["Textreihe", "Zeichenfolge Liste", "Namen Liste"]),
    (r"\bKommazahlen Liste\b", ["Kommareihe", "Fliesszahl Liste"]),
    (r"\bBuchstaben Liste\b", ["Zeichenreihe", "Zeichen Liste"]),
    (r"\bZahl\b", ["Ganzzahl", "Strecke"]),
    (r"\bKommazahl\b", ["Fliesszahl"]),
    (r"\bText\b", ["Zeichenfolge", "Namen"]),
    (r"\bBuchstaben?\b", ["Zeichen"]),
    (r"\bWahrheitswert\b", ["Schalter"]),
]
TYPE_SNIPPETS = [
    "Die Zahlenreihe z ist 5 Mal 0.\n", "Die Zahlenreihe2 z ist 2 Mal 1.\n", "Die Streckenreihe z ist 3 Mal 0.\n", "Die Textreihe t ist 2 Mal \"a\".\n",
    "Die Zahlenreihe z ist eine leere Zahlen Liste.\n", "Die Zahlenreihe z ist eine leere Zahlenreihe.\n", "Die Zahlenreihe z ist eine Liste, die aus 1, 2 besteht.\n",
    "Die Zahlenreihe z ist 2 Mal 0.\nDie Zahl n ist z an der Stelle 1.\nSpeichere 3 in z an der Stelle 2.\nFür jede Zahl e in z, mache:\n\tSpeichere e in n.\n",
    "Die Strecke s ist 1 als Strecke.\nDie Zahl n ist s als Zahl.\nDie Zahlen Liste q ist 2 Mal 0.\nDie Streckenreihe r ist q als Streckenreihe.\nDie Zahlenreihe p ist r als Zahlenreihe.\n",
    "Die Funktion f mit dem Parameter z vom Typ Zahlenreihe Referenz, gibt eine Zahlenreihe zurück, macht:\n\tGib z zurück.\nUnd kann so benutzt werden:\n\t\"f <z>\"\nDie Zahlenreihe a ist 1 Mal 1.\nDie Zahlenreihe b ist f a.\n",
    "Die Zeichenfolge t ist \"abc\".\nDas Zeichen c ist t an der Stelle 1.\nSpeichere 'x' in t an der Stelle 2.\nDie Zeichenfolge u ist t im Bereich von 1 bis 2.\nDie Zeichenfolge w ist t ab dem 2. Element.\nDie Zahl l ist die Länge von t.\n",
    "Wir nennen die Kombination aus\n\tder Zahlenreihe z mit Standardwert 2 Mal 0,\n\tder Strecke s mit Standardwert 0 als Strecke,\neinen Halter, und erstellen sie so:\n\t\"ein Halter\"\nDer Halter h ist ein Halter.\nDie Zahl n ist (z von h) an der Stelle 1.\n",
    "Die generische Funktion g mit dem Parameter l vom Typ T Liste, gibt ein T zurück, macht:\n\tGib l an der Stelle 1 zurück.\nUnd kann so benutzt werden:\n\t\"g <l>\"\nDie Zahlenreihe z ist 1 Mal 7.\nDie Zahl n ist g z.\nDie Streckenreihe r ist z als Streckenreihe.\nDie Strecke e ist g r.\n",
    "Die Zahlenreihe q ist 2 Mal 0.\nDie Variable v ist q als Variable.\nDie Zahlenreihe z ist v als Zahlenreihe.\nDie Zahlenreihe2 y ist v als Zahlenreihe2.\n",
    "Die Zahlenreihe z ist 2 Mal 0.\nDie Zahlenreihe y ist z verkettet mit z.\nDie Zahlenreihe x ist z verkettet mit 1.\nDer Wahrheitswert w ist z gleich y ist.\n",
]


def mutate_types(rng, src):
    """write some of the type names of a program through aliases / definitions declared in front of it"""
    out = src
    for pat, reps in TYPE_SUBST:
        def sub(m, reps=reps):
            return rng.choice(reps) if rng.random() < 0.5 else m.group(0)
        out = re.sub(pat, sub, out)
    return TYPE_PRELUDE + out


# bounded time: constructs nested d levels deep must be parsed in time polynomial in d; every program here is a
# small VALID program (or a near miss) whose only difficulty is the depth of one construct
DEEP_DECLS = (
    "Die Funktion wert_text mit dem Parameter t vom Typ Text, gibt eine Zahl zurück, macht:\n\tGib 1 zurück.\nUnd kann so benutzt werden:\n\t\"wert <t>\"\n\n"
    "Die Funktion wert_zahl mit dem Parameter z vom Typ Zahl, gibt eine Zahl zurück, macht:\n\tGib z zurück.\nUnd kann so benutzt werden:\n\t\"wert <z>\"\n\n"
    "Die Funktion wert_komma mit dem Parameter k vom Typ Kommazahl, gibt eine Zahl zurück, macht:\n\tGib 2 zurück.\nUnd kann so benutzt werden:\n\t\"wert <k>\"\n\n"
    "Die Funktion summe mit den Parametern a und b vom Typ Zahl und Zahl, gibt eine Zahl zurück, macht:\n\tGib a plus b zurück.\nUnd kann so benutzt werden:\n\t\"summe <a> <b>\",\n\t\"<a> und dazu <b>\"\n\n"
    "Die generische Funktion selbst mit dem Parameter x vom Typ T, gibt ein T zurück, macht:\n\tGib x zurück.\nUnd kann so benutzt werden:\n\t\"selbst <x>\"\n\n"
)


def deep_programs(quick):
    out = []
    depths = [8, 16, 28, 40] if quick else [8, 16, 28, 40, 64, 90]
    for d in depths:
        out.append(("overload-call", d, DEEP_DECLS + "Die Zahl x ist " + "wert (" * d + "1" + ")" * d + ".\n"))
        out.append(("overload-call-text", d, DEEP_DECLS + "Die Zahl x ist " + "wert (" * d + "\"a\"" + ")" * d + ".\n"))
        out.append(("two-arg-call", min(d, 28), DEEP_DECLS + "Die Zahl x ist " + "summe (" * min(d, 28) + "1" + ") 2" * min(d, 28) + ".\n"))
        out.append(("infix-alias", min(d, 28), DEEP_DECLS + "Die Zahl x ist " + "(" * min(d, 28) + "1" + " und dazu 2)" * min(d, 28) + ".\n"))
        out.append(("generic-call", min(d, 28), DEEP_DECLS + "Die Zahl x ist " + "selbst (" * min(d, 28) + "1" + ")" * min(d, 28) + ".\n"))
        out.append(("parens", d, "Die Zahl x ist " + "(" * d + "1" + ")" * d + ".\n"))
        out.append(("minus-chain", d, "Die Zahl x ist " + "-(" * d + "1" + ")" * d + ".\n"))
        out.append(("falls", d, "Die Zahl x ist " + "(1, falls wahr, ansonsten " * d + "0" + ")" * d + ".\n"))
        out.append(("list-literal", min(d, 28), DEEP_DECLS + "Die Zahlen Liste l ist eine Liste, die aus " + "wert (" * min(d, 28) + "1" + ")" * min(d, 28) + ", 2 besteht.\n"))
        out.append(("blocks", d, "".join("\t" * k + "Wenn wahr, dann:\n" for k in range(d)) + "\t" * d + "Die Zahl x ist 1.\n"))
        out.append(("unclosed-call", d, DEEP_DECLS + "Die Zahl x ist " + "wert (" * d + "1.\n"))
    return out


def mutate_bytes(rng, src):
    b = bytearray(src.encode("utf-8"))
    if not b:
        return b""
    for _ in range(rng.randint(1, 4)):
        k = rng.choice(["flip", "ins", "del", "hi"])
        i = rng.randrange(len(b))
        if k == "flip":
            b[i] ^= 1 << rng.randrange(8)
        elif k == "ins":
            b.insert(i, rng.randrange(256))
        elif k == "del" and len(b) > 1:
            del b[i]
        else:
            b[i:i] = rng.choice([b"\xc3", b"\xe2\x82", b"\xf0\x9f", b"\xff", b"\xc0\x80", b"\xed\xa0\x80", b"\xf4\x90\x80\x80", b"\x00"])
    return bytes(b)


def import_arrangements(sc):
    """(root file, description) pairs over scratch directories"""
    out = []
    def w(d, name, txt):
        p = os.path.join(d, name)
        os.makedirs(os.path.dirname(p), exist_ok=True)
        open(p, "w").write(txt)
        return p
    d = os.path.join(sc, "imp1"); out.append((w(d, "a.ddp", 'Binde "b" ein.\n') , "missing file"))
    d = os.path.join(sc, "imp2"); os.makedirs(os.path.join(d, "b.ddp"), exist_ok=True); out.append((w(d, "a.ddp", 'Binde "b" ein.\n'), "import of a directory named b.ddp"))
    d = os.path.join(sc, "imp3"); out.append((w(d, "a.ddp", 'Binde "a" ein.\n'), "self import"))
    for n in (2, 3, 4):
        d = os.path.join(sc, "cyc%d" % n)
        for k in range(n):
            w(d, "m%d.ddp" % k, 'Binde "m%d" ein.\nDie öffentliche Zahl z%d ist %d.\n' % ((k + 1) % n, k, k))
        out.append((os.path.join(d, "m0.ddp"), "cycle of length %d" % n))
    d = os.path.join(sc, "imp4"); w(d, "sub/x.ddp", "Die öffentliche Zahl x ist 1.\n"); w(d, "sub/y.txt", "kein ddp"); out.append((w(d, "a.ddp", 'Binde alle Module aus "sub" ein.\nBinde alle Module rekursiv aus "sub" ein.\nBinde alle Module aus "nix" ein.\n'), "directory imports"))
    d = os.path.join(sc, "imp5"); w(d, "b.ddp", "Die Zahl privat ist 1.\nDie öffentliche Zahl offen ist (.\n"); out.append((w(d, "a.ddp", 'Binde "b" ein.\nBinde privat aus "b" ein.\nBinde nix aus "b" ein.\nDie Zahl q ist offen.\n'), "faulty imported module, private and unknown names"))
    d = os.path.join(sc, "gen1")
    out.append((w(d, "a.ddp", '''Wir nennen die generische Kombination aus
	dem T wert,
	der T-Box box,
eine Box, und erstellen sie so:
	"eine Box"
Die Zahl-Box b ist eine Box.
'''), "recursive generic Kombination"))
    d = os.path.join(sc, "gen2")
    out.append((w(d, "a.ddp", '''Die generische Funktion f mit dem Parameter a vom Typ T, gibt nichts zurück, macht:
	f (eine Liste, die aus a besteht).
Und kann so benutzt werden:
	"f <a>"
f 1.
'''), "polymorphic recursion through a generic function"))
    return out


class Worker:
    """batch runner over parsex in sacrificial processes (time + address-space limit)"""

    def __init__(self, exe, env, per_input_s=4.0):
        self.exe, self.env, self.per = exe, env, per_input_s

    def run_batch(self, reqs):
        """returns dict id -> response | {'dead': reason}"""
        if not reqs:
            return {}
        inp = "\n".join(json.dumps(r) for r in reqs) + "\n"
        cmd = ["bash", "-c", "ulimit -v 4000000; exec %s" % self.exe]
        try:
            p = subprocess.run(cmd, input=inp, capture_output=True, text=True, env=self.env, timeout=max(20.0, self.per * len(reqs) * 0.25 + 20))
            dead = None if p.returncode == 0 else "exit %d: %s" % (p.returncode, p.stderr[-800:])
        except subprocess.TimeoutExpired as e:
            p = None
            dead = "timeout"
            out = e.stdout or ""
            if isinstance(out, bytes):
                out = out.decode("utf-8", "replace")
        res = {}
        text = p.stdout if p is not None else out
        for l in text.splitlines():
            try:
                o = json.loads(l)
                res[o["id"]] = o
            except Exception:
                pass
        if dead is None and len(res) == len(reqs):
            return res
        # the worker died or hung: the first unanswered request is the culprit
        missing = [r for r in reqs if r["id"] not in res]
        if not missing:
            return res
        if len(reqs) == 1:
            res[reqs[0]["id"]] = {"dead": dead or "no answer"}
            return res
        culprit = missing[0]
        res.update(self.run_batch([culprit]))
        res.update(self.run_batch(missing[1:]))
        return res


def main():
    ck = Check(PID, "other")
    b = Build()
    ck.cov["trusted_base"] = vlib.TRUSTED_COMMON + ["parsex worker (recover() around parser.Parse; unrecoverable crashes detected by worker death and bisection)",
                                                      "time limit per batch and 4 GB address-space limit stand in for 'bounded time / memory'"]
    ck.coq()
    ok, lg = b.ensure_native()   # Duden for imports
    exe, lg2 = b.ensure_go("parsex")
    if not exe or not ok:
        ck.violation("harness-build", "parsex/kddp do not build: " + (lg + lg2)[-400:], dict(log=(lg + lg2)[-3000:]), no_input=True)
        ck.finish()
    env = dict(os.environ, DDPPATH=b.dir, GOMAXPROCS="2", GOGC="50")
    sc = vlib.scratch()
    wk = Worker(exe, env)
    sd = seeds()
    rng = ck.rng
    n_tok = 1800 if ck.quick else 40000
    n_byte = 600 if ck.quick else 12000
    inputs = []   # (id, file, src-bytes-or-None, kind)
    # corpus of earlier minimised crashers first
    cdir = os.path.join(vlib.VERIF, "corpus", PID)
    for f in sorted(glob.glob(os.path.join(cdir, "*.ddp"))):
        inputs.append(("corpus:" + os.path.basename(f), os.path.join(sc, "c.ddp"), open(f, "rb").read(), "corpus"))
    for k, s in enumerate(SNIPPETS):
        inputs.append(("snip%d" % k, os.path.join(sc, "s.ddp"), s.encode(), "snippet"))
        inputs.append(("snipD%d" % k, os.path.join(sc, "s.ddp"), ('Binde "Duden/Ausgabe" ein.\n' + s).encode(), "snippet"))
    for k in range(n_tok):
        f, s = rng.choice(sd)
        m = s
        for _ in range(rng.choice([1, 1, 1, 2, 3])):
            m = mutate_tokens(rng, m, rng.choice(sd)[1])
        inputs.append(("tok%d" % k, f if rng.random() < 0.5 else os.path.join(sc, "t.ddp"), m.encode("utf-8", "surrogatepass") if isinstance(m, str) else m, "token-mutant"))
    for (what, d, src) in deep_programs(ck.quick):
        inputs.append(("deep:%s:%d" % (what, d), os.path.join(sc, "d.ddp"), src.encode(), "deep-nesting"))
    for k, snip in enumerate(TYPE_SNIPPETS):
        inputs.append(("tsnip%d" % k, os.path.join(sc, "ts.ddp"), (TYPE_PRELUDE + snip).encode(), "type-snippet"))
    n_type = 400 if ck.quick else 6000
    for k in range(n_type):
        f, s = rng.choice(sd)
        m = mutate_types(rng, s)
        if rng.random() < 0.5:
            m = mutate_tokens(rng, m, TYPE_PRELUDE + rng.choice(TYPE_SNIPPETS))
        inputs.append(("type%d" % k, f if rng.random() < 0.5 else os.path.join(sc, "ty.ddp"), m.encode("utf-8", "surrogatepass"), "type-mutant"))
    for k in range(n_byte):
        f, s = rng.choice(sd)
        if len(s) > 6000:
            s = s[:6000]
        inputs.append(("byte%d" % k, os.path.join(sc, "b.ddp"), mutate_bytes(rng, s), "byte-mutant"))
    for k, (root, desc) in enumerate(import_arrangements(sc)):
        inputs.append(("imp%d:%s" % (k, desc), root, None, "imports"))
    # unmutated seeds: must parse without panic as well
    for k, (f, s) in enumerate(sd):
        inputs.append(("seed%d" % k, f, None, "seed"))

    reqs = []
    for (i, f, src, kind) in inputs:
        r = {"id": i, "file": f, "render": False}
        if src is not None:
            # parsex takes source text as a JSON string; invalid UTF-8 goes through a temp file instead
            try:
                r["src"] = src.decode("utf-8")
            except UnicodeDecodeError:
                p = os.path.join(sc, "raw_%s.ddp" % hashlib.sha1(src).hexdigest()[:12])
                open(p, "wb").write(src)
                r["file"] = p
        reqs.append(r)
    bs = 60
    batches = [reqs[k:k + bs] for k in range(0, len(reqs), bs)]
    results = {}
    for part in vlib.pmap(wk.run_batch, batches, jobs=8):
        results.update(part)
    ck.count(len(reqs))
    kinds = {}
    by_id = {i: (f, src, kind) for (i, f, src, kind) in inputs}
    n_diag = n_clean = 0
    for r in reqs:
        i = r["id"]
        f, src, kind = by_id[i]
        kinds[kind] = kinds.get(kind, 0) + 1
        res = results.get(i, {"dead": "no answer"})
        bad = None
        if "dead" in res:
            bad = "worker died / hung: %s" % res["dead"]
        else:
            o = res["obs"]
            if o.get("panic"):
                bad = "panic: %s at %s" % (o["panic"][:300], " < ".join(o.get("panic_frames") or []))
            elif o.get("diags"):
                n_diag += 1
                ck.nontrivial(i)
            else:
                n_clean += 1
                if kind != "seed":
                    ck.nontrivial(i)
        if bad:
            text = src if src is not None else open(f, "rb").read()
            # canonical key: the class of the crash (first frame / message), not the input
            m = re.search(r"(nil pointer dereference|interface conversion[^\n]*|index out of range[^\n]*|stack overflow|slice bounds out of range[^\n]*|timeout|exit -?\d+|no answer)", bad)
            cls = m.group(1) if m else bad[:80]
            first_frame = ""
            mm = re.findall(r"(src/[A-Za-z_/]+\.go:\d+)", bad)
            if mm:
                first_frame = " at " + mm[0]
            key = "crash class=%s%s" % (cls, first_frame)
            if not mm:
                key += " kind=%s input-sha=%s" % (kind, hashlib.sha1(text).hexdigest()[:10])
            ck.violation(key, bad[:500], dict(file=f, source=text.decode("utf-8", "replace"), source_hex=text.hex() if len(text) < 4000 else None, result=bad[:3000],
                                              how="echo '{\"id\":\"x\",\"file\":\"<file>\"}' | DDPPATH=<build> parsex"))
    ck.cov.update(dict(
        inputs=len(reqs), kinds=kinds, answered_with_diagnostics=n_diag, parsed_clean=n_clean, seeds=len(sd), exhaustive=False,
        explanation="PARTIAL: Coq proves termination of the parser's driving loops over an abstract declaration parser with a progress contract (Props/C03.v) and, in other properties, of the scanner (C13), the module loader (C10), literal unescaping (C19) and the renderer's indexing (C07). Crash-freedom of ~10k lines of recursive-descent Go (nil dereference, type assertion, stack exhaustion) cannot be stated in a total Gallina model; it is explored: %d inputs (token mutants, byte mutants incl. invalid UTF-8, hand-written near-miss snippets, import arrangements, unmutated seeds) parsed by the real frontend in sacrificial workers." % len(reqs),
        rule="inputs = corpus + snippets + token-level mutants (delete/duplicate/swap/splice/truncate/insert), deep-nesting programs (one construct nested 8..40 (90) levels: overloaded alias calls, infix aliases, generic calls, parentheses, falls, blocks; bounded time), type-position mutants (type names written through aliases/definitions, `n Mal x` and cast/index/generic snippets over aliased list types) and byte-level mutants of %d seed files + import arrangements; non-trivial = answered with at least one diagnostic or parsed clean after mutation; distinct by input id" % len(sd)))
    ck.sample(dict(kind="snippet", source=SNIPPETS[0]))
    ck.sample(dict(kind="imports", arrangement="cycle of length 3"))
    ck.finish()


if __name__ == "__main__":
    main()
