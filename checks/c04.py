#!/usr/bin/env python3
"""C04 — statically ill-formed programs are never accepted.
Proof: coq/Props/C04.v (declarative static semantics `wf` of a core of DDP; the algorithm of
resolver+typechecker `check` as it is in /repo now: check p = [] <-> wf p; a general soundness /
completeness theorem for every setting of the four former defects ("quirks"); every injected fault
makes a program ill-formed; regression facts about the pinned tree).
Tie: generated well-formed core programs and ALL single-fault mutants Coq's own injector
(MiniMutate.mutants, extracted) produces for 16 fault classes; every program is rendered to DDP and
parsed by the real frontend (parsex); a mutant the frontend accepts is the violation (judged by an
independent Python implementation of the specification); acceptance is also compared with the
extracted algorithm model; a sample goes through `kddp kompiliere` (exit status, artefact)."""
import hashlib
import json
import os
import re
import subprocess
import sys
import time

sys.path.insert(0, os.path.dirname(os.path.abspath(__file__)))
import vlib
from vlib import Check, Build, log

PID = "C04"

# ================================================================================================
# core AST = nested lists mirroring the s-expressions of extract/c04_driver.ml
# ================================================================================================
def sx(x):
    if isinstance(x, list):
        return "(" + " ".join(sx(y) for y in x) + ")"
    return str(x)


_TOK = re.compile(r"[()]|[^\s()]+")


def parse_sx(s):
    stack = [[]]
    for tok in _TOK.findall(s):
        if tok == "(":
            stack.append([])
        elif tok == ")":
            top = stack.pop()
            stack[-1].append(top)
        else:
            stack[-1].append(int(tok) if tok.isdigit() else tok)
    return stack[0][0]


PRIMS = ["Z", "K", "B", "W", "C", "T"]
NUMERIC = ("Z", "K", "B")
INDEX = ("Z", "B")
LIT_TY = {"lz": "Z", "lk": "K", "lb": "W", "lc": "C", "lt": "T"}
TY_LIT = {v: k for k, v in LIT_TY.items()}


def haslit(t):
    return isinstance(t, str) and t in TY_LIT


def is_list(t):
    return isinstance(t, list) and t[0] == "L"


def is_struct(t):
    return isinstance(t, list) and t[0] == "S"


# ================================================================================================
# renderer: core AST -> DDP source text (German articles and type names)
# ================================================================================================
TYN = {"Z": ("Zahl", "Zahlen"), "K": ("Kommazahl", "Kommazahlen"), "B": ("Byte", "Byte"),
       "W": ("Wahrheitswert", "Wahrheitswert"), "C": ("Buchstabe", "Buchstaben"), "T": ("Text", "Text")}
ART = {"der": "Der", "die": "Die", "das": "Das"}
ART_AKK = {"der": "einen", "die": "eine", "das": "ein"}
ART_FOR = {"der": "jeden", "die": "jede", "das": "jedes"}
LIT_TXT = {"lz": "7", "lk": "2,5", "lb": "wahr", "lc": "'c'", "lt": '"tx"'}
BIN_TXT = {"plus": "{} plus {}", "minus": "{} minus {}", "mal": "{} mal {}", "durch": "{} durch {}", "mod": "{} modulo {}",
           "lt": "{} kleiner als {} ist", "gt": "{} größer als {} ist", "eq": "{} gleich {} ist", "ne": "{} ungleich {} ist",
           "and": "{} und {}", "or": "{} oder {}", "idx": "{} an der Stelle {}",
           "cat": "{} verkettet mit {}", "from": "{} ab dem {}. Element", "upto": "{} bis zum {}. Element"}


def ident(k):
    return "X%d" % k


def list_prefix(t):
    if is_list(t):
        return list_prefix(t[1]) + " Listen"
    if is_struct(t):
        return ident(t[1])
    return TYN[t][1]


def ty_name(t):
    if is_list(t):
        return list_prefix(t[1]) + " Liste"
    if is_struct(t):
        return ident(t[1])
    return TYN[t][0]


def ty_name_akk(t, art="der"):
    """type name after 'jeden/jede/jedes' (accusative: 'jeden Buchstaben'; after a wrong pronoun the nominative is kept,
    'jede Buchstaben' would be the start of 'Buchstaben Liste')"""
    return "Buchstaben" if (t == "C" and art == "der") else ty_name(t)


def ref_name(t):
    if is_list(t):
        return list_prefix(t[1]) + " Listen Referenz"
    if is_struct(t):
        return ident(t[1]) + " Referenz"
    return TYN[t][1] + " Referenz"


def r_expr(e):
    k = e[0]
    if k == "lit":
        return LIT_TXT[e[1]]
    if k == "var":
        return ident(e[1])
    if k == "empty":
        return "(eine leere %s)" % ty_name(["L", e[1]])
    if k == "un":
        a = r_expr(e[2])
        return {"not": "(nicht %s)", "neg": "(-%s)", "len": "(die Länge von %s)"}[e[1]] % a
    if k == "bin":
        return "(" + BIN_TXT[e[1]].format(r_expr(e[2]), r_expr(e[3])) + ")"
    if k == "cast":
        return "(%s als %s)" % (r_expr(e[1]), ty_name(e[2]))
    if k == "field":
        return "(%s von %s)" % (ident(e[1]), r_expr(e[2]))
    if k == "call":
        return "(" + r_call(e[1], e[2:]) + ")"
    if k == "slice":
        return "(%s im Bereich von %s bis %s)" % (r_expr(e[1]), r_expr(e[2]), r_expr(e[3]))
    if k == "list":
        return "(eine Liste, die aus %s besteht)" % ", ".join(r_expr(x) for x in e[1:])
    raise ValueError(e)


def r_call(f, args, alias=None):
    return " ".join([alias or ("rufe_%d" % f)] + [r_expr(a) for a in args])


def r_block(b, ind, out):
    for s in b[1:]:
        r_stmt(s, ind, out)


def r_stmt(s, ind, out):
    t = "\t" * ind
    k = s[0]
    if k == "svar":
        out.append("%s%s %s %s ist %s." % (t, ART[s[1]], ty_name(s[2]), ident(s[3]), r_expr(s[4])))
    elif k == "sconst":
        out.append("%s%s Konstante %s ist %s." % (t, ART[s[1]], ident(s[2]), LIT_TXT[s[3]]))
    elif k == "assign":
        out.append("%sSpeichere %s in %s." % (t, r_expr(s[2]), ident(s[1])))
    elif k == "assignidx":
        out.append("%sSpeichere %s in %s an der Stelle %s." % (t, r_expr(s[3]), ident(s[1]), r_expr(s[2])))
    elif k == "assignfield":
        out.append("%sSpeichere %s in %s von %s." % (t, r_expr(s[3]), ident(s[1]), ident(s[2])))
    elif k == "foreach":
        out.append("%sFür %s %s %s in %s, mache:" % (t, ART_FOR[s[1]], ty_name_akk(s[2], s[1]), ident(s[3]), r_expr(s[4])))
        r_block(s[5], ind + 1, out)
    elif k == "repeat":
        out.append("%sWiederhole:" % t)
        r_block(s[1], ind + 1, out)
        cnt = r_expr(s[2])
        if cnt[0].islower():        # a lower-case keyword (wahr) must not open the line after the full stop of the body
            cnt = "(" + cnt + ")"
        out.append("%s%s Mal." % (t, cnt))
    elif k == "dowhile":
        out.append("%sMache:" % t)
        r_block(s[1], ind + 1, out)
        out.append("%sSolange %s." % (t, r_expr(s[2])))
    elif k == "if":
        out.append("%sWenn %s, dann:" % (t, r_expr(s[1])))
        r_block(s[2], ind + 1, out)
        if len(s[3]) > 1:
            out.append("%sSonst:" % t)
            r_block(s[3], ind + 1, out)
    elif k == "while":
        out.append("%sSolange %s, mache:" % (t, r_expr(s[1])))
        r_block(s[2], ind + 1, out)
    elif k == "for":
        step = "" if s[6][0] == "none" else " mit Schrittgröße %s" % r_expr(s[6][1])
        out.append("%sFür %s %s %s von %s bis %s%s, mache:" % (t, ART_FOR[s[1]], ty_name(s[2]), ident(s[3]), r_expr(s[4]), r_expr(s[5]), step))
        r_block(s[7], ind + 1, out)
    elif k == "break":
        out.append("%sVerlasse die Schleife." % t)
    elif k == "continue":
        out.append("%sFahre mit der Schleife fort." % t)
    elif k == "ret":
        out.append("%sVerlasse die Funktion." % t if len(s) == 1 else "%sGib %s zurück." % (t, r_expr(s[1])))
    elif k == "block":
        out.append("%s:" % t)
        r_block(s[1], ind + 1, out)
    elif k == "scall":
        out.append("%s%s." % (t, r_call(s[1], s[2:])))
    else:
        raise ValueError(s)


def r_fun_header(name, params, ret, public, alias):
    """params: [(name, ty, ref)]; ret: None or (article, ty)"""
    h = "Die %sFunktion %s" % ("öffentliche " if public else "", ident(name))
    if params:
        names = [ident(p[0]) for p in params]
        tys = [ref_name(p[1]) if p[2] else ty_name(p[1]) for p in params]
        def join(xs):
            return xs[0] if len(xs) == 1 else ", ".join(xs[:-1]) + " und " + xs[-1]
        h += " mit %s %s vom Typ %s," % ("dem Parameter" if len(params) == 1 else "den Parametern", join(names), join(tys))
    h += " gibt %s zurück, macht:" % ("nichts" if ret is None else "%s %s" % (ART_AKK[ret[0]], ty_name(ret[1])))
    a = '\t"%s"' % " ".join([alias] + ["<%s>" % ident(p[0]) for p in params])
    return h, a


def dflt_text(t):
    if t == "B":
        return "(7 als Byte)"
    if is_list(t):
        return "(eine leere %s)" % ty_name(t)
    if is_struct(t):
        return "neu_%d" % t[1]
    return LIT_TXT[TY_LIT[t]]


def struct_gender(mod, s):
    for d in mod:
        if d[0] == "istruct" and d[2] == s:
            return d[3]
    return None


def gender(mod, t):
    if is_struct(t):
        return struct_gender(mod, t[1])
    if is_list(t) or t in ("Z", "K"):
        return "die"
    return "der"


def render_module(mod):
    out = []
    pn = 9000
    for d in mod:
        if d[0] == "ialias":
            continue
        pub = d[1] == 1
        if d[0] == "istruct":
            out.append("Wir nennen die %sKombination aus" % ("öffentliche " if pub else ""))
            for f in d[4]:
                g = gender(mod, f[2])
                out.append("\t%s %s%s %s mit Standardwert %s," % ("der" if g == "die" else "dem", "öffentlichen " if f[0] == 1 else "", ty_name(f[2]), ident(f[1]), dflt_text(f[2])))
            al = ['"neu_%d"' % d[2]] + ['"%s"' % " ".join(["rufe_%d" % a[1]] + ["<%s>" % ident(f) for f in a[3]])
                                            for a in mod if a[0] == "ialias" and a[2] == d[2]]
            out.append('%s %s, und erstellen sie so:\n\t%s\n' % (ART_AKK[d[3]], ident(d[2]), " oder\n\t".join(al)))
        elif d[0] == "ivar":
            g = gender(mod, d[3])
            out.append("%s %s%s %s ist %s." % (ART[g], {"der": "öffentliche ", "die": "öffentliche ", "das": "öffentliche "}[g] if pub else "", ty_name(d[3]), ident(d[2]), dflt_text(d[3])))
        elif d[0] == "iconst":
            out.append("Die %sKonstante %s ist %s." % ("öffentliche " if pub else "", ident(d[2]), dflt_text(d[3])))
        elif d[0] == "ifun":
            params = []
            for (t, r) in d[3]:
                pn += 1
                params.append((pn, t, r == 1))
            ret = None if d[4] == "none" else (gender(mod, d[4]), d[4])
            h, a = r_fun_header(d[2], params, ret, pub, "rufe_%d" % d[2])
            pn += 1
            body = "\tDie Zahl %s ist 1." % ident(pn) if ret is None else "\tGib %s zurück." % dflt_text(d[4])
            out.append("%s\n%s\nUnd kann so benutzt werden:\n%s\n" % (h, body, a))
    return "\n".join(out) + "\n"


# parameter type of the companion overloads: a Kombination of its own, declared by the renderer.  No generated expression
# has this type, and its name sorts before every other type name, so the alias trie offers the companion FIRST and the
# overload that really matches is reached through the argument cache of checkAlias
OVL_DECL = ('Wir nennen die Kombination aus\n\tder Zahl Yf mit Standardwert 0,\neine Aaovl, und erstellen sie so:\n\t"neu_Aaovl"\n')


def r_companion(name, params, alias, out):
    """a second function with the SAME alias text and parameter kinds but another LAST parameter type (so every argument is parsed for it) (an overloaded alias, as
    "Inkrementiere <a>" in tests/testdata/kddp/references): calls still resolve to the original by their argument types"""
    names = [ident(q[0]) for q in params]
    tys = [("Aaovl Referenz" if q[2] else "Aaovl") if i == len(params) - 1 else (ref_name(q[1]) if q[2] else ty_name(q[1])) for i, q in enumerate(params)]
    join = lambda xs: xs[0] if len(xs) == 1 else ", ".join(xs[:-1]) + " und " + xs[-1]
    h = "Die Funktion Y%d mit %s %s vom Typ %s, gibt nichts zurück, macht:" % (name, "dem Parameter" if len(params) == 1 else "den Parametern", join(names), join(tys))
    out.append("%s\n\tDie Zahl Yv%d ist 1.\nUnd kann so benutzt werden:\n\t\"%s\"\n" % (h, name, " ".join([alias] + ["<%s>" % n for n in names])))


def render_main(p, modname="modul", fwd=False, ovl=False):
    """p = ['prog', ['mod', ...], import, ['tops', ...]]
    fwd: functions are forward-declared ("wird später definiert") and defined right afterwards ("Die Funktion f macht:")
    ovl: every function with parameters (also the imported ones) gets a companion overload of its alias"""
    out = []
    imp = p[2]
    if imp[0] == "all":
        out.append('Binde "%s" ein.' % modname)
    elif imp[0] == "some":
        xs = [ident(x) for x in imp[1:]]
        if xs:
            out.append('Binde %s aus "%s" ein.' % (xs[0] if len(xs) == 1 else ", ".join(xs[:-1]) + " und " + xs[-1], modname))
    seen = {}
    pn = 9000
    if ovl:
        out.append(OVL_DECL)
    for d in p[1][1:]:
        if d[0] == "ifun":
            seen[d[2]] = 1
            params = []
            for (t, r) in d[3]:
                pn += 1
                params.append((pn, t, r == 1))
            pn += 1
            if ovl and d[1] == 1 and params and (imp[0] == "all" or (imp[0] == "some" and d[2] in imp[1:])):
                r_companion(d[2], params, "rufe_%d" % d[2], out)
    for t in p[3][1:]:
        if t[0] == "stmt":
            r_stmt(t[1], 0, out)
        else:
            _, name, params, ret, body = t
            k = seen.get(name, 0)
            seen[name] = k + 1
            alias = "rufe_%d" % name if k == 0 else "rufe_%d_%d" % (name, k)   # a re-declared name gets its own alias
            ps = [(q[0], q[1], q[2] == 1) for q in params[1:]]
            h, a = r_fun_header(name, ps, None if ret[1] == "none" else (ret[1], ret[2]), False, alias)
            if fwd and k == 0:
                out.append(h[:-len(" macht:")] + "\nwird später definiert\nund kann so benutzt werden:\n%s\n" % a)
                out.append("Die Funktion %s macht:" % ident(name))
                r_block(body, 1, out)
                out.append("")
            else:
                out.append(h)
                r_block(body, 1, out)
                out.append("Und kann so benutzt werden:\n%s\n" % a)
            if ovl and k == 0 and ps:
                r_companion(name, ps, alias, out)
    return "\n".join(out) + "\n"


# which further concrete shapes a program is rendered in besides the plain one (the declaration kinds / call shapes
# that exist only in the concrete syntax): forward declaration + separate definition; overloaded aliases
STYLES = {"fwd": dict(fwd=True), "ovl": dict(ovl=True), "fwd+ovl": dict(fwd=True, ovl=True)}
STYLES_OF_FAULT = {"FMissingReturn": ["fwd"], "FWrongReturn": ["fwd"], "FArticle": ["fwd"],
                   "FConstRef": ["ovl"], "FWrongArg": ["ovl"], "FUndeclared": ["ovl"], "-": ["fwd", "ovl", "fwd+ovl"]}


# ================================================================================================
# the specification, independently in Python (oracle of the check)
# ================================================================================================
class Spec:
    def __init__(self, mod):
        self.mod = mod
        self.structs = {}
        for d in mod:
            if d[0] == "istruct" and d[2] not in self.structs:
                self.structs[d[2]] = (d[3], d[4])

    def aliases(self, d):
        """the constructor aliases of the Kombination d: a Kombination literal is a call with one argument per listed field"""
        out = {}
        ft = {f[1]: f[2] for f in reversed(d[4])}
        for a in self.mod:
            if a[0] == "ialias" and a[2] == d[2] and all(f in ft for f in a[3]) and a[1] not in out:
                out[a[1]] = ([(ft[f], False) for f in a[3]], ["S", d[2]])
        return out

    def lookup(self, G, x):
        for sc in G:
            if x in sc:
                return sc[x]
        return None

    def ty_ok(self, G, t):
        if is_list(t):
            return self.ty_ok(G, t[1])
        if is_struct(t):
            return self.lookup(G, t[1]) == ("struct", None)
        return True

    def gender(self, t):
        if is_struct(t):
            return self.structs[t[1]][0] if t[1] in self.structs else None
        return "die" if (is_list(t) or t in ("Z", "K")) else "der"

    def un(self, o, t):
        if o == "not":
            return "W" if t == "W" else None
        if o == "neg":
            return {"Z": "Z", "K": "K", "B": "Z"}.get(t) if not isinstance(t, list) else None
        if o == "len":
            return "Z" if (is_list(t) or t == "T") else None

    def bin(self, o, a, b):
        num = lambda t: t in NUMERIC
        idx = lambda t: t in INDEX
        if o in ("plus", "minus", "mal"):
            if not (num(a) and num(b)):
                return None
            if a == "K" or b == "K":
                return "K"
            return "B" if (a == "B" and b == "B") else "Z"      # a Byte is widened (5ca8f5e)
        if o == "durch":
            return "K" if num(a) and num(b) else None
        if o == "mod":
            if not (idx(a) and idx(b)):
                return None
            return "B" if (a == "B" and b == "B") else "Z"
        if o in ("lt", "gt"):
            return "W" if num(a) and num(b) else None
        if o in ("eq", "ne"):
            return "W" if a == b else None
        if o in ("and", "or"):
            return "W" if (a == "W" and b == "W") else None
        if o == "idx":
            if not idx(b):
                return None
            if is_list(a):
                return a[1]
            return "C" if a == "T" else None
        if o == "cat":
            if not is_list(a) and not is_list(b) and (a == "T" or b == "T"):
                return "T" if (a in ("T", "C") and b in ("T", "C")) else None
            ea = a[1] if is_list(a) else a
            eb = b[1] if is_list(b) else b
            return ["L", ea] if ea == eb else None
        if o in ("from", "upto"):
            return a if (is_list(a) or a == "T") and idx(b) else None

    def cast(self, s, t):
        prim = s in PRIMS
        if is_list(t):
            return s == t[1]
        if is_struct(t):
            return False
        if t in ("Z", "T"):
            return prim
        if t == "K":
            return s in ("T", "Z", "K", "B")
        if t == "B":
            return s in NUMERIC
        if t == "W":
            return s in ("Z", "W", "B")
        if t == "C":
            return s in ("Z", "C", "B")

    def type_of(self, F, G, e):
        k = e[0]
        if k == "lit":
            return LIT_TY[e[1]]
        if k == "empty":
            return ["L", e[1]] if self.ty_ok(G, e[1]) else None
        if k == "var":
            b = self.lookup(G, e[1])
            return b[1] if b and b[0] in ("var", "const") else None
        if k == "un":
            t = self.type_of(F, G, e[2])
            return None if t is None else self.un(e[1], t)
        if k == "bin":
            a, b = self.type_of(F, G, e[2]), self.type_of(F, G, e[3])
            return None if a is None or b is None else self.bin(e[1], a, b)
        if k == "cast":
            s = self.type_of(F, G, e[1])
            return e[2] if s is not None and self.ty_ok(G, e[2]) and self.cast(s, e[2]) else None
        if k == "field":
            s = self.type_of(F, G, e[2])
            if s is None or not is_struct(s) or s[1] not in self.structs:
                return None
            for (pub, f, t) in self.structs[s[1]][1]:
                if f == e[1]:
                    return t if pub == 1 else None
            return None
        if k == "call":
            sig = F.get(e[1])
            if sig is None or sig[1] is None or not self.args_ok(F, G, e[2:], sig[0]):
                return None
            return sig[1]
        if k == "slice":
            a, ti, tj = self.type_of(F, G, e[1]), self.type_of(F, G, e[2]), self.type_of(F, G, e[3])
            return a if a is not None and (is_list(a) or a == "T") and ti in INDEX and tj in INDEX else None
        if k == "list":
            ts = [self.type_of(F, G, x) for x in e[1:]]
            if ts[0] is None or is_list(ts[0]) or any(t != ts[0] for t in ts):
                return None
            return ["L", ts[0]]

    def args_ok(self, F, G, args, ps):
        if len(args) != len(ps):
            return False
        for a, (t, ref) in zip(args, ps):
            if ref:
                if a[0] != "var" or self.lookup(G, a[1]) != ("var", t):
                    return False
            elif self.type_of(F, G, a) != t:
                return False
        return True

    def assignable(self, s, t):
        return s is not None and (s == t or (s in NUMERIC and t in NUMERIC))

    def block(self, F, G, d, r, b):
        """G's first scope is extended in place; returns False if a statement is not ok"""
        for s in b[1:]:
            if not self.stmt(F, G, d, r, s):
                return False
        return True

    def stmt(self, F, G, d, r, s):
        k = s[0]
        if k == "svar":
            _, a, t, x, e = s
            if not (self.ty_ok(G, t) and self.gender(t) == a and self.assignable(self.type_of(F, G, e), t) and x not in G[0]):
                return False
            G[0][x] = ("var", t)
            return True
        if k == "sconst":
            if s[1] != "die" or s[2] in G[0]:
                return False
            G[0][s[2]] = ("const", LIT_TY[s[3]])
            return True
        if k == "assign":
            b = self.lookup(G, s[1])
            return bool(b) and b[0] == "var" and self.assignable(self.type_of(F, G, s[2]), b[1])
        if k == "assignidx":
            b = self.lookup(G, s[1])
            if not b or b[0] != "var" or not (is_list(b[1]) or b[1] == "T"):
                return False
            el = b[1][1] if is_list(b[1]) else "C"
            return self.type_of(F, G, s[2]) in INDEX and self.assignable(self.type_of(F, G, s[3]), el)
        if k == "assignfield":
            b = self.lookup(G, s[2])
            if not b or b[0] != "var" or not is_struct(b[1]) or b[1][1] not in self.structs:
                return False
            for (pub, f, t) in self.structs[b[1][1]][1]:
                if f == s[1]:
                    return pub == 1 and self.assignable(self.type_of(F, G, s[3]), t)
            return False
        if k == "foreach":
            _, a, t, x, e, b = s
            te = self.type_of(F, G, e)
            if not (self.ty_ok(G, t) and self.gender(t) == a and te is not None and (te == ["L", t] or (te == "T" and t == "C"))):
                return False
            return self.block(F, [{x: ("var", t)}] + G, d + 1, r, b)
        if k == "repeat":
            return self.block(F, [{}] + G, d + 1, r, s[1]) and self.type_of(F, G, s[2]) in INDEX
        if k == "dowhile":
            return self.block(F, [{}] + G, d + 1, r, s[1]) and self.type_of(F, G, s[2]) == "W"
        if k == "if":
            return self.type_of(F, G, s[1]) == "W" and self.block(F, [{}] + G, d, r, s[2]) and self.block(F, [{}] + G, d, r, s[3])
        if k == "while":
            return self.type_of(F, G, s[1]) == "W" and self.block(F, [{}] + G, d + 1, r, s[2])
        if k == "for":
            _, a, t, x, fr, to, st, b = s
            if not (self.ty_ok(G, t) and self.gender(t) == a and t in NUMERIC):
                return False
            if not self.assignable(self.type_of(F, G, fr), t) or self.type_of(F, G, to) not in NUMERIC:
                return False
            if st[0] == "some" and self.type_of(F, G, st[1]) not in NUMERIC:
                return False
            return self.block(F, [{x: ("var", t)}] + G, d + 1, r, b)
        if k in ("break", "continue"):
            return d > 0
        if k == "ret":
            if r == "global":
                return False
            if len(s) == 1:
                return r[1] is None
            return r[1] is not None and self.type_of(F, G, s[1]) == r[1]
        if k == "block":
            return self.block(F, [{}] + G, d, r, s[1])
        if k == "scall":
            sig = F.get(s[1])
            return sig is not None and self.args_ok(F, G, s[2:], sig[0])
        raise ValueError(s)

    def fun(self, F, G, f):
        _, name, params, ret, body = f
        ps = params[1:]
        if self.lookup(G, name) is not None:
            return False
        names = [q[0] for q in ps]
        if len(set(names)) != len(names):
            return False
        for q in ps:
            b = self.lookup(G, q[0])
            if (b and b[0] in ("fun", "struct")) or not self.ty_ok(G, q[1]):
                return False
        rt = None
        if ret[1] != "none":
            if not (self.ty_ok(G, ret[2]) and self.gender(ret[2]) == ret[1]):
                return False
            rt = ret[2]
        F2 = dict(F)
        F2[name] = ([(q[1], q[2] == 1) for q in ps], rt)
        G2 = [dict(G[0])] + G[1:]
        G2[0][name] = ("fun", None)
        sc = {q[0]: ("var", q[1]) for q in ps if q[0] != name}
        if not self.block(F2, [sc] + G2, 0, ("fun", rt), body):
            return False
        if rt is not None and (len(body) == 1 or body[-1][0] != "ret"):
            return False
        return True

    def wf(self, p):
        imp = p[2]
        pub = {}
        for d in self.mod:
            if d[0] != "ialias" and d[1] == 1 and d[2] not in pub:
                pub[d[2]] = d
        if imp[0] == "none":
            ds = []
        elif imp[0] == "all":
            ds = [d for d in self.mod if d[0] != "ialias" and d[1] == 1]
            if len({d[2] for d in ds}) != len(ds):
                return False
        else:
            xs = imp[1:]
            if len(set(xs)) != len(xs) or any(x not in pub for x in xs):
                return False
            ds = [pub[x] for x in xs]
        G = [{}]
        F = {}
        for d in reversed(ds):
            kind = {"ivar": "var", "iconst": "const", "ifun": "fun", "istruct": "struct"}[d[0]]
            G[0][d[2]] = (kind, d[3] if kind in ("var", "const") else None)
            if d[0] == "ifun":
                F[d[2]] = ([(q[0], q[1] == 1) for q in d[3]], None if d[4] == "none" else d[4])
            if d[0] == "istruct":
                F.update(self.aliases(d))
        for t in p[3][1:]:
            if t[0] == "stmt":
                if not self.stmt(F, G, 0, "global", t[1]):
                    return False
            else:
                if not self.fun(F, G, t):
                    return False
                F = dict(F)
                F[t[1]] = ([(q[1], q[2] == 1) for q in t[2][1:]], None if t[3][1] == "none" else t[3][2])
                G[0][t[1]] = ("fun", None)
        return True


# ================================================================================================
# generator of well-formed core programs
# ================================================================================================
class Gen:
    def __init__(self, rng):
        self.rng = rng
        self.next = 100
        self.stats = {}

    def fresh(self):
        self.next += 1
        return self.next

    def bump(self, k):
        self.stats[k] = self.stats.get(k, 0) + 1

    # ---- imported module -------------------------------------------------------------------
    def module(self):
        r = self.rng
        g1 = r.choice(["der", "die", "das"])
        mod = [["istruct", 1, 1, g1, [[1, 2, "Z"], [0, 3, "Z"], [1, 4, "T"], [0, 5, "T"]]],
               ["ialias", 40, 1, [2, 4]], ["ialias", 41, 1, [2, 3, 4, 5]], ["ialias", 42, 1, [4]]]
        if r.random() < 0.5:
            mod.append(["istruct", 0, 6, r.choice(["der", "die", "das"]), [[1, 7, "Z"]]])
            mod.append(["ialias", 43, 6, [7]])
            mod.append(["ivar", 0, 8, ["S", 6]])
        mod += [["ivar", 1, 10, ["S", 1]], ["ivar", 1, 11, "Z"], ["ivar", 1, 12, "T"], ["ivar", 1, 13, ["L", "Z"]],
                ["ivar", 0, 14, "Z"], ["ivar", 0, 15, "T"], ["ivar", 1, 16, "K"],
                ["iconst", 1, 20, "Z"], ["iconst", 0, 21, "Z"], ["iconst", 1, 22, "T"],
                ["ifun", 1, 30, [["Z", 0], ["Z", 0]], "Z"], ["ifun", 1, 31, [["Z", 1]], "none"], ["ifun", 1, 32, [], "T"],
                ["ifun", 1, 33, [["T", 0]], "none"], ["ifun", 0, 34, [["Z", 0]], "Z"], ["ifun", 0, 35, [], "none"],
                ["ifun", 1, 36, [["K", 0], ["T", 1]], "W"], ["ifun", 1, 37, [], "none"]]
        # drop a few optional declarations
        keep = [d for d in mod if d[0] in ("istruct", "ialias") or d[2] in (10, 8) or r.random() < 0.85]
        return keep

    # ---- environment helpers ---------------------------------------------------------------
    def vars_of(self, G, t, only_var=False):
        out = []
        seen = set()
        for sc in G:
            for x, b in sc.items():
                if x in seen:
                    continue
                seen.add(x)
                if b[0] in (("var",) if only_var else ("var", "const")) and b[1] == t and not (self.hide and x in self.hide):
                    out.append(x)
        return out

    def use(self, G, x):
        """record that x (bound in an outer scope) was used inside all inner scopes: they must not declare x later"""
        for i, sc in enumerate(G):
            if x in sc:
                return
            self.used[id(sc)].add(x)

    def var(self, G, x):
        self.use(G, x)
        return ["var", x]

    # ---- expressions of a requested type -------------------------------------------------------
    def expr(self, F, G, t, depth):
        r = self.rng
        cands = []
        vs = self.vars_of(G, t)
        if vs:
            cands += ["var"] * 4
        if haslit(t):
            cands += ["lit"] * (2 if depth > 0 else 4)
        if is_list(t):
            cands += ["empty"]
        if depth > 0:
            ops = {"Z": ["arith", "arith", "mod", "neg", "len", "idx", "cast", "call", "field"], "K": ["arithk", "arithk", "durch", "cast", "neg", "call"],
                   "B": ["cast", "arithb", "modb"], "W": ["cmp", "cmp", "eq", "eq", "logic", "not", "cast", "call"],
                   "C": ["idx", "cast"], "T": ["cast", "call", "field"]}
            if isinstance(t, str):
                cands += ops[t] * 2
                if t == "T":
                    cands += ["cattext", "slice1", "slice3"]
            elif is_list(t):
                cands += ["cast", "idx", "listlit", "listlit", "catlist", "catlist", "slice1", "slice3"]
        if is_struct(t) and depth > 0:
            cands += ["call", "call"]
        if not cands:
            if is_struct(t):
                fs = [f for f, (ps, rt) in F.items() if rt == t]
                if fs:
                    return self.mk(F, G, t, 1, "call")
                return None
            cands = ["lit"] if haslit(t) else (["cast"] if t == "B" else ["empty"])
        for _ in range(8):
            c = r.choice(cands)
            e = self.mk(F, G, t, depth, c)
            if e is not None:
                self.bump("e:" + e[0] + (":" + str(e[1]) if e[0] in ("un", "bin") else ""))
                return e
        if vs:
            return self.var(G, r.choice(vs))
        return self.mk(F, G, t, 0, "lit" if haslit(t) else ("cast" if t == "B" else "empty"))

    def mk(self, F, G, t, depth, c):
        r = self.rng
        d = depth - 1
        sub = lambda ty: self.expr(F, G, ty, max(d, 0))
        if c == "var":
            vs = self.vars_of(G, t)
            return self.var(G, r.choice(vs)) if vs else None
        if c == "lit":
            return ["lit", TY_LIT[t]] if haslit(t) else None
        if c == "empty":
            return ["empty", t[1]] if is_list(t) and not is_struct(t[1]) else None
        if c == "arith":
            a, b = r.choice([("Z", "Z"), ("Z", "Z"), ("Z", "B"), ("B", "Z")])
            return ["bin", r.choice(["plus", "minus", "mal"]), sub(a), sub(b)]
        if c == "arithk":
            a, b = r.choice([("K", "K"), ("K", "Z"), ("Z", "K"), ("B", "K"), ("K", "B")])
            return ["bin", r.choice(["plus", "minus", "mal"]), sub(a), sub(b)]
        if c == "arithb":
            return ["bin", r.choice(["plus", "minus", "mal"]), sub("B"), sub("B")]
        if c == "durch":
            return ["bin", "durch", sub(r.choice(NUMERIC)), sub(r.choice(NUMERIC))]
        if c == "mod":
            a, b = r.choice([("Z", "Z"), ("Z", "B"), ("B", "Z")])
            return ["bin", "mod", sub(a), sub(b)]
        if c == "modb":
            return ["bin", "mod", sub("B"), sub("B")]
        if c == "neg":
            return ["un", "neg", sub(r.choice(["Z", "B"]) if t == "Z" else "K")]
        if c == "len":
            return ["un", "len", sub(r.choice(["T", ["L", "Z"], ["L", "T"]]))]
        if c == "not":
            return ["un", "not", sub("W")]
        if c == "cmp":
            return ["bin", r.choice(["lt", "gt"]), sub(r.choice(NUMERIC)), sub(r.choice(NUMERIC))]
        if c == "eq":
            ty = r.choice(PRIMS + [["L", "Z"]])
            return ["bin", r.choice(["eq", "ne"]), sub(ty), sub(ty)]
        if c == "logic":
            return ["bin", r.choice(["and", "or"]), sub("W"), sub("W")]
        if c == "idx":
            if t == "C" and r.random() < 0.6:
                return ["bin", "idx", sub("T"), sub(r.choice(INDEX))]
            if is_struct(t) or is_list(t):
                return None
            return ["bin", "idx", sub(["L", t]), sub(r.choice(INDEX))]
        if c == "cast":
            if is_list(t):
                return ["cast", sub(t[1]), t] if not is_struct(t[1]) and not is_list(t[1]) else None
            srcs = {"Z": ["K", "B", "W", "C", "T", "Z"], "K": ["T", "Z", "B", "K"], "B": ["Z", "K", "B"], "W": ["Z", "B", "W"],
                    "C": ["Z", "B", "C"], "T": PRIMS}[t]
            return ["cast", sub(r.choice(srcs)), t]
        if c == "listlit":
            if not is_list(t) or is_list(t[1]) or is_struct(t[1]):
                return None
            return ["list"] + [sub(t[1]) for _ in range(r.randint(1, 3))]
        if c == "cattext":
            a, b = r.choice([("T", "T"), ("T", "C"), ("C", "T")])
            return ["bin", "cat", sub(a), sub(b)]
        if c == "catlist":
            if not is_list(t) or is_list(t[1]) or is_struct(t[1]):
                return None
            el = t[1]
            shapes = [(t, t), (t, el), (el, t)] + ([(el, el)] if el != "T" else [])
            a, b = r.choice(shapes)
            return ["bin", "cat", sub(a), sub(b)]
        if c == "slice1":
            return ["bin", r.choice(["from", "upto"]), sub(t), sub(r.choice(INDEX))]
        if c == "slice3":
            return ["slice", sub(t), sub(r.choice(INDEX)), sub(r.choice(INDEX))]
        if c == "call":
            fs = [f for f, (ps, rt) in F.items() if rt == t]
            r.shuffle(fs)
            for f in fs:
                a = self.args(F, G, F[f][0], max(d, 0))
                if a is not None:
                    return ["call", f] + a
            return None
        if c == "field":
            for sc in G:
                for x, b in sc.items():
                    if b[0] == "var" and is_struct(b[1]) and self.spec.lookup(G, x) == b and not (self.hide and x in self.hide):
                        for (pub, f, ft) in self.spec.structs.get(b[1][1], (None, []))[1]:
                            if pub == 1 and ft == t:
                                return ["field", f, self.var(G, x)]
            return None
        return None

    def args(self, F, G, ps, depth):
        out = []
        for (t, ref) in ps:
            if ref:
                vs = self.vars_of(G, t, only_var=True)
                if not vs:
                    return None
                out.append(self.var(G, self.rng.choice(vs)))
            else:
                e = self.expr(F, G, t, depth)
                if e is None:
                    return None
                out.append(e)
        return out

    # ---- statements -----------------------------------------------------------------------
    def decl_name(self, G, t):
        """a fresh name, or (sometimes) the name of an outer variable that this scope has not used yet"""
        r = self.rng
        if len(G) > 1 and r.random() < 0.3:
            outer = [x for sc in G[1:] for x, b in sc.items() if b[0] in ("var", "const") and x not in G[0]]
            if outer:
                self.bump("shadow")
                return r.choice(outer)
        return self.fresh()

    def scope(self, init=None):
        sc = dict(init or {})
        self.used[id(sc)] = set()
        self.keep.append(sc)
        return sc

    def block(self, F, G, d, rctx, n, level):
        out = ["blk"]
        for _ in range(n):
            s = self.stmt(F, G, d, rctx, level)
            if s is not None:
                out.append(s)
        if len(out) == 1:
            out.append(self.s_var(F, G))
        return out

    def s_var(self, F, G):
        r = self.rng
        t = r.choice(["Z", "Z", "K", "B", "W", "C", "T", "T", ["L", "Z"], ["L", "T"]])
        structs = [f_rt for f_rt in {tuple(rt) for (_, rt) in F.values() if is_struct(rt)} if self.spec.lookup(G, f_rt[1]) == ("struct", None)]
        if structs and r.random() < 0.12:
            t = list(r.choice(sorted(structs)))
        x = self.decl_name(G, t)
        old = self.spec.lookup(G, x)
        # the initialiser is outside the scope of x: it may use an outer x, also of another type
        src = t
        if t in NUMERIC and r.random() < 0.3:
            src = r.choice(NUMERIC)           # implicit numeric conversion
        e = self.expr(F, G, src, r.choice([0, 1, 1, 2, 3]))
        G[0][x] = ("var", t)
        return ["svar", self.spec.gender(t), t, x, e]

    def stmt(self, F, G, d, rctx, level):
        r = self.rng
        kinds = ["svar"] * 6 + ["sconst"] * 2 + ["assign"] * 3 + ["scall"] * 3 + ["assignidx"] * 2 + ["assignfield"]
        if level < 3:
            kinds += ["if"] * 2 + ["while", "for", "for", "block", "foreach", "foreach", "repeat", "dowhile"]
        if d > 0:
            kinds += ["break", "continue"]
        if rctx != "global" and rctx[1] is None and level > 0:
            kinds += ["retvoid"]
        if rctx != "global" and rctx[1] is not None and level > 0:
            kinds += ["retval"]
        k = r.choice(kinds)
        self.bump("s:" + k)
        if k == "svar":
            return self.s_var(F, G)
        if k == "sconst":
            x = self.decl_name(G, None)
            l = r.choice(list(LIT_TY))
            G[0][x] = ("const", LIT_TY[l])
            return ["sconst", "die", x, l]
        if k == "assign":
            cands = [(x, b[1]) for sc in G for x, b in sc.items() if b[0] == "var" and self.spec.lookup(G, x) == b and not is_struct(b[1])]
            if not cands:
                return None
            x, t = r.choice(cands)
            src = r.choice(NUMERIC) if t in NUMERIC and r.random() < 0.3 else t
            e = self.expr(F, G, src, r.choice([0, 1, 2]))
            self.use(G, x)
            return ["assign", x, e]
        if k == "assignidx":
            cands = [(x, b[1]) for sc in G for x, b in sc.items() if b[0] == "var" and self.spec.lookup(G, x) == b and (b[1] == "T" or (is_list(b[1]) and not is_struct(b[1][1])))]
            if not cands:
                return None
            x, t = r.choice(cands)
            el = t[1] if is_list(t) else "C"
            src = r.choice(NUMERIC) if el in NUMERIC and r.random() < 0.3 else el
            self.use(G, x)
            return ["assignidx", x, self.expr(F, G, r.choice(INDEX), r.choice([0, 1])), self.expr(F, G, src, r.choice([0, 1, 2]))]
        if k == "assignfield":
            for sc in G:
                for x, b in sc.items():
                    if b[0] == "var" and is_struct(b[1]) and self.spec.lookup(G, x) == b:
                        fs = [(f, ft) for (pub, f, ft) in self.spec.structs.get(b[1][1], (None, []))[1] if pub == 1]
                        if fs:
                            f, ft = r.choice(fs)
                            self.use(G, x)
                            return ["assignfield", f, x, self.expr(F, G, ft, r.choice([0, 1, 2]))]
            return None
        if k == "foreach":
            t = r.choice(["Z", "T", "C", "K", "Z"])
            src = "T" if (t == "C" and r.random() < 0.7) else ["L", t]
            e = self.expr(F, G, src, r.choice([0, 1, 2]))
            x = self.decl_name(G, t)
            b = self.block(F, [self.scope({x: ("var", t)})] + G, d + 1, rctx, r.randint(1, 3), level + 1)
            return ["foreach", self.spec.gender(t), t, x, e, b]
        if k == "repeat":
            b = self.block(F, [self.scope()] + G, d + 1, rctx, r.randint(1, 3), level + 1)
            return ["repeat", b, self.expr(F, G, r.choice(INDEX), r.choice([0, 1]))]
        if k == "dowhile":
            b = self.block(F, [self.scope()] + G, d + 1, rctx, r.randint(1, 3), level + 1)
            return ["dowhile", b, self.expr(F, G, "W", r.choice([0, 1, 2]))]
        if k == "scall":
            fs = list(F)
            r.shuffle(fs)
            if r.random() < 0.5:
                fs.sort(key=lambda f: not any(ref for (_, ref) in F[f][0]))   # functions with Referenz parameters first
            for f in fs:
                a = self.args(F, G, F[f][0], 1)
                if a is not None:
                    return ["scall", f] + a
            return None
        if k == "if":
            c = self.expr(F, G, "W", r.choice([0, 1, 2]))
            th = self.block(F, [self.scope()] + G, d, rctx, r.randint(1, 3), level + 1)
            el = self.block(F, [self.scope()] + G, d, rctx, r.randint(1, 2), level + 1) if r.random() < 0.4 else ["blk"]
            return ["if", c, th, el]
        if k == "while":
            c = self.expr(F, G, "W", r.choice([1, 2]))
            return ["while", c, self.block(F, [self.scope()] + G, d + 1, rctx, r.randint(1, 3), level + 1)]
        if k == "for":
            t = r.choice(["Z", "Z", "K", "B"])
            fr = self.expr(F, G, r.choice(NUMERIC) if r.random() < 0.3 else t, r.choice([0, 1]))
            to = self.expr(F, G, r.choice(NUMERIC), r.choice([0, 1, 2]))
            st = ["some", self.expr(F, G, r.choice(NUMERIC), r.choice([0, 1]))] if r.random() < 0.4 else ["none"]
            x = self.decl_name(G, t)
            b = self.block(F, [self.scope({x: ("var", t)})] + G, d + 1, rctx, r.randint(1, 3), level + 1)
            return ["for", self.spec.gender(t), t, x, fr, to, st, b]
        if k == "block":
            return ["block", self.block(F, [self.scope()] + G, d, rctx, r.randint(1, 3), level + 1)]
        if k in ("break", "continue"):
            return [k]
        if k == "retvoid":
            return ["ret"]
        if k == "retval":
            return ["ret", self.expr(F, G, rctx[1], r.choice([0, 1, 2]))]

    def function(self, F, G):
        r = self.rng
        name = self.fresh()
        ps = []
        for _ in range(r.choice([0, 1, 1, 2, 3])):
            t = r.choice(["Z", "Z", "T", "K", "W", "C", "B", ["L", "Z"]])
            ref = 1 if (isinstance(t, str) and r.random() < 0.35) else 0
            ps.append([self.fresh() if r.random() < 0.8 else self.shadowable(G, [q[0] for q in ps]), t, ref])
        rt = r.choice([None, None, "Z", "T", "W", "K", "B", "C", ["L", "Z"]])
        sig = ([(q[1], q[2] == 1) for q in ps], rt)
        F2 = dict(F)
        F2[name] = sig
        G[0][name] = ("fun", None)
        sc = self.scope({q[0]: ("var", q[1]) for q in ps})
        rctx = ("fun", rt)
        body = self.block(F2, [sc] + G, 0, rctx, r.randint(1, 4), 1)
        if rt is not None:
            body.append(["ret", self.expr(F2, [sc] + G, rt, r.choice([0, 1, 2]))])
        ret = ["ret", "none"] if rt is None else ["ret", self.spec.gender(rt), rt]
        return ["fun", name, ["params"] + ps, ret, body], sig

    def shadowable(self, G, taken):
        c = [x for x, b in G[0].items() if b[0] in ("var", "const") and x not in taken]
        return self.rng.choice(c) if c else self.fresh()

    def program(self, mod):
        r = self.rng
        self.spec = Spec(mod)
        self.used = {}
        self.keep = []
        self.hide = None
        pub = [d for d in mod if d[0] != "ialias" and d[1] == 1]
        if r.random() < 0.6:
            imp = ["all"]
            ds = pub
        elif r.random() < 0.9:
            ds = [d for d in pub if r.random() < 0.6]
            r.shuffle(ds)
            imp = ["some"] + [d[2] for d in ds] if ds else ["none"]
        else:
            imp, ds = ["none"], []
        G = [self.scope()]
        F = {}
        for d in ds:
            kind = {"ivar": "var", "iconst": "const", "ifun": "fun", "istruct": "struct"}[d[0]]
            G[0][d[2]] = (kind, d[3] if kind in ("var", "const") else None)
            if d[0] == "ifun":
                F[d[2]] = ([(q[0], q[1] == 1) for q in d[3]], None if d[4] == "none" else d[4])
            if d[0] == "istruct":
                F.update(self.spec.aliases(d))
        tops = ["tops"]
        # a few globals first so that functions and Referenz arguments have something to work with
        for _ in range(r.randint(2, 5)):
            tops.append(["stmt", self.s_var(F, G)])
        if r.random() < 0.8:
            x = self.fresh()
            l = r.choice(["lz", "lt", "lz", "lk"])
            G[0][x] = ("const", LIT_TY[l])
            tops.append(["stmt", ["sconst", "die", x, l]])
        # every program has the sites of the rarer fault classes: a Zahl variable, a Zahl constant, a value-returning
        # function with a Referenz parameter, and calls that pass the variable as Referenz
        gz, kz, fr, pr = self.fresh(), self.fresh(), self.fresh(), self.fresh()
        G[0][gz] = ("var", "Z")
        G[0][kz] = ("const", "Z")
        G[0][fr] = ("fun", None)
        tops += [["stmt", ["svar", "die", "Z", gz, ["lit", "lz"]]], ["stmt", ["sconst", "die", kz, "lz"]],
                 ["fun", fr, ["params", [pr, "Z", 1]], ["ret", "die", "Z"],
                  ["blk", ["assign", pr, ["bin", "plus", ["var", pr], ["var", kz]]], ["ret", ["var", pr]]]],
                 ["stmt", ["scall", fr, ["var", gz]]]]
        F = dict(F)
        F[fr] = ([("Z", True)], "Z")
        if 31 in F:
            tops.append(["stmt", ["scall", 31, ["var", gz]]])
        # ... a list, an indexed assignment, the three further loop forms, a list literal, verkettet, a slice, and
        # (when the Kombination is imported) a Kombination literal and a field assignment
        gl, ge, gs = self.fresh(), self.fresh(), self.fresh()
        G[0][gl] = ("var", ["L", "Z"])
        tops += [["stmt", ["svar", "die", ["L", "Z"], gl, ["list", ["var", gz], ["lit", "lz"]]]],
                 ["stmt", ["assignidx", gl, ["lit", "lz"], ["var", kz]]],
                 ["stmt", ["foreach", "die", "Z", ge, ["bin", "cat", ["var", gl], ["var", gz]], ["blk", ["assign", gz, ["var", ge]]]]],
                 ["stmt", ["repeat", ["blk", ["assign", gz, ["un", "len", ["slice", ["var", gl], ["lit", "lz"], ["var", gz]]]]], ["var", kz]]],
                 ["stmt", ["dowhile", ["blk", ["assignidx", gl, ["var", gz], ["lit", "lz"]]], ["bin", "lt", ["var", gz], ["lit", "lz"]]]]]
        if 40 in F and self.spec.lookup(G, 1) == ("struct", None):
            G[0][gs] = ("var", ["S", 1])
            tops += [["stmt", ["svar", self.spec.gender(["S", 1]), ["S", 1], gs, ["call", 40, ["var", gz], ["lit", "lt"]]]],
                     ["stmt", ["assignfield", 2, gs, ["var", kz]]]]
        for _ in range(r.randint(3, 9)):
            if r.random() < 0.3:
                f, sig = self.function(F, G)
                F = dict(F)
                F[f[1]] = sig
                tops.append(f)
            else:
                s = self.stmt(F, G, 0, "global", 0)
                if s is not None:
                    tops.append(["stmt", s])
        return ["prog", ["mod"] + mod, imp, tops]


# ================================================================================================
# running the real frontend (parsex) and the extracted model
# ================================================================================================
LEVEL_ERROR = 2


def accepted(o):
    """the property's observable: no error-level diagnostic and the module is not Faulty"""
    if o is None or o.get("panic") or o.get("err") or o.get("nil_module") or o.get("faulty"):
        return False
    return not any(d["level"] == LEVEL_ERROR for d in (o.get("diags") or []))


def first_error(o):
    for d in (o.get("diags") or []):
        if d["level"] == LEVEL_ERROR:
            return d
    return None


def run_parsex(px, ddppath, jobs):
    """jobs: [(id, file, src)] -> {id: obs or None (the process died on that request)}"""
    res = {}
    todo = list(jobs)
    while todo:
        inp = "\n".join(json.dumps(dict(id=str(i), file=f, src=s)) for i, f, s in todo) + "\n"
        p = subprocess.run([px], input=inp, capture_output=True, text=True, env=dict(os.environ, DDPPATH=ddppath, GOMAXPROCS="1"), timeout=1200)
        got = 0
        for l in p.stdout.splitlines():
            try:
                o = json.loads(l)
            except ValueError:
                break
            res[todo[got][0]] = o["obs"]
            got += 1
        if got < len(todo):        # fatal error of the Go runtime while parsing request `got`
            res[todo[got][0]] = None
            got += 1
        todo = todo[got:]
    return res


def run_model(model, lines):
    p = subprocess.run([model], input="\n".join(lines) + "\n", capture_output=True, text=True, timeout=1200)
    if p.returncode != 0:
        raise RuntimeError("model driver failed: " + p.stderr[-1500:])
    return p.stdout.splitlines()


QUIRKS = ["void_eq", "void_ret", "tc_by_name", "field_unimported", "field_name_lookup"]
CURRENT = "00001"    # the setting MiniCheck.current: the four unsoundness defects repaired (ec4b99d, 328cc02, 4309fac, 581329c),
                     # the field-name lookup of assigneable() (a false rejection) still there


def flag_combos():
    import itertools
    out = []
    for k in (1, 2, 3, 4):
        for combo in itertools.combinations(range(4), k):      # the fifth switch only adds diagnostics
            out.append((combo, "".join("1" if i in combo else "0" for i in range(4)) + "1"))
    return out


def explain_many(model, progs):
    """for every ill-formed program the frontend accepts: the smallest set of quirk switches of the algorithm model that has
    to be ON (everything else patched) for check_with to report nothing; None if even the pinned model rejects it"""
    combos = flag_combos()
    lines = ["Q %s %s" % (fl, sx(p)) for p in progs for _, fl in combos]
    out = run_model(model, lines) if lines else []
    res = []
    for i in range(len(progs)):
        why = None
        for j, (combo, _) in enumerate(combos):
            if out[i * len(combos) + j].split()[2] == "-":
                why = "+".join(QUIRKS[c] for c in combo)
                break
        res.append(why)
    return res


def explain(model, p):
    return explain_many(model, [p])[0]


# model diagnostic -> codes of src/ddperror/codes.go the frontend may report first for it
EXPECT = {
    "DBadType": {1003, 1000}, "DArticle": {1009}, "DUnknownFun": {1000, 2001}, "DBadRef": {1000, 2001},
    "DConstRef": {2034}, "DConstAssign": {2034}, "DUndef": {2001}, "DNotVar": {2012}, "DDup": {2000, 2008}, "DBreak": {2017},
    "DGlobalReturn": {2011}, "DMissingReturn": {2005}, "DImportUndef": {2001}, "DTypeOp": {3000, 3002, 3003}, "DTypeCast": {3004},
    "DNoField": {3010}, "DPrivField": {3011}, "DTypeArg": {3000, 3003}, "DTypeInit": {3001}, "DTypeAssign": {3001}, "DTypeCond": {3007},
    "DTypeFor": {3008}, "DTypeRet": {3009}, "DPanic": {-1},
}


def work_gen(args):
    """one base program and the mutants of Coq's injector (raw model lines).  Runs in a worker process."""
    idx, seed, model, scratch, cap = args
    import random
    rng = random.Random(seed)
    g = Gen(rng)
    mod = g.module()
    p = g.program(mod)
    mdir = os.path.join(scratch, "p%d" % idx)
    os.makedirs(mdir, exist_ok=True)
    with open(os.path.join(mdir, "modul.ddp"), "w") as fh:
        fh.write(render_module(mod))
    lines = run_model(model, ["P " + sx(p)])
    base = lines[0].split()
    muts = [l for l in lines[1:] if l.startswith("M ")]
    if cap:
        by = {}
        for l in muts:
            by.setdefault(l.split(" ", 2)[1], []).append(l)
        muts = []
        for fc, ls in by.items():
            muts += ls if len(ls) <= cap else rng.sample(ls, cap)
        g.stats["mutants_enumerated"] = sum(len(ls) for ls in by.values())
    raw = ["M - -1 %s %s %s %s" % (base[1], base[2], base[3], sx(p))] + muts
    g.stats["base:quirk_free"] = int(base[4])
    g.stats["base:shadow_free"] = int(base[5])
    return idx, mod, mdir, raw, g.stats


def work_chunk(args):
    """Python oracle, rendering, real frontend for a chunk of (base or mutant) programs of one module"""
    idx, mod, mdir, raw, px, ddppath = args
    mainf = os.path.join(mdir, "main.ddp")
    items = []
    jobs = []
    for i, l in enumerate(raw):
        f = l.split(" ", 6)
        ast = parse_sx(f[6])
        it = dict(kind="base" if f[1] == "-" else "mutant", fault=f[1], site=int(f[2]), ast=ast, wfb=f[3] == "1", check=f[4], patched=f[5])
        it["src"] = render_main(ast)
        it["pywf"] = Spec(mod).wf(ast)
        it["style"] = "plain"
        items.append(it)
        for st in STYLES_OF_FAULT.get(it["fault"], []):
            it2 = dict(it, style=st, src=render_main(ast, **STYLES[st]))
            items.append(it2)
    for i, it in enumerate(items):
        jobs.append((i, mainf, it["src"]))
    obs = run_parsex(px, ddppath, jobs)
    modtext = render_module(mod)
    for i, it in enumerate(items):
        o = obs.get(i)
        it["obs"] = o
        it["acc"] = accepted(o)
        fe = first_error(o) if o else None
        it["code"] = fe["code"] if fe else (-1 if (o is None or o.get("panic")) else None)
        it["line"] = fe["sl"] if fe else 0
        it["dir"] = mdir
        it["idx"] = idx
        it["modtext"] = None
        if it["kind"] == "base" or it["acc"] or it["pywf"] or it["wfb"] or it["check"] == "-" or it["patched"] == "-" or i % 40 == 0:
            it["modtext"] = modtext                 # anything that may need a replay keeps its module and AST
        else:
            it["ast"] = None                        # most rejected mutants are only counted
            it["obs"] = None
    return items


# ---- exhaustive operator x operand-type grid (ties the transcribed operator tables of the typechecker) ----------
GRID_MOD = [["istruct", 1, 1, "der", [[1, 2, "Z"]]], ["ivar", 1, 10, ["S", 1]]]
GRID_OPERANDS = [("Z", ["var", 50]), ("K", ["var", 51]), ("B", ["var", 52]), ("W", ["var", 53]), ("C", ["var", 54]), ("T", ["var", 55]),
                 ("LZ", ["var", 56]), ("LT", ["var", 57]), ("S", ["var", 10]), ("void", ["call", 60])]
GRID_DECL_TYPES = ["Z", "K", "B", "W", "C", "T", ["L", "Z"], ["L", "T"]]


def grid_prelude():
    return [["stmt", ["svar", "die", "Z", 50, ["lit", "lz"]]], ["stmt", ["svar", "die", "K", 51, ["lit", "lk"]]],
            ["stmt", ["svar", "der", "B", 52, ["cast", ["lit", "lz"], "B"]]], ["stmt", ["svar", "der", "W", 53, ["lit", "lb"]]],
            ["stmt", ["svar", "der", "C", 54, ["lit", "lc"]]], ["stmt", ["svar", "der", "T", 55, ["lit", "lt"]]],
            ["stmt", ["svar", "die", ["L", "Z"], 56, ["empty", "Z"]]], ["stmt", ["svar", "die", ["L", "T"], 57, ["empty", "T"]]],
            ["fun", 60, ["params"], ["ret", "none"], ["blk", ["svar", "die", "Z", 61, ["lit", "lz"]]]]]


def grid_cells(all_decl_types):
    """every unary / binary operator and cast of the core on every combination of operand kinds"""
    exprs = []
    for o in ("not", "neg", "len"):
        for ka, a in GRID_OPERANDS:
            exprs.append(("un %s %s" % (o, ka), ["un", o, a]))
    for o in BIN_TXT:
        for ka, a in GRID_OPERANDS:
            for kb, b2 in GRID_OPERANDS:
                exprs.append(("bin %s %s %s" % (o, ka, kb), ["bin", o, a, b2]))
    for ka, a in GRID_OPERANDS:
        for t in GRID_DECL_TYPES + [["S", 1]]:
            exprs.append(("cast %s->%s" % (ka, sx(t)), ["cast", a, t]))
    spec = Spec(GRID_MOD)
    G = [{10: ("var", ["S", 1]), 1: ("struct", None), 50: ("var", "Z"), 51: ("var", "K"), 52: ("var", "B"), 53: ("var", "W"), 54: ("var", "C"),
          55: ("var", "T"), 56: ("var", ["L", "Z"]), 57: ("var", ["L", "T"]), 60: ("fun", None)}]
    F = {60: ([], None)}
    cells = []
    for name, e in exprs:
        t = spec.type_of(F, G, e)
        if all_decl_types:
            tds = GRID_DECL_TYPES + ([t] if t is not None and t not in GRID_DECL_TYPES else [])
        else:
            # an ill-typed cell is declared with the type the operator would produce, so that only the operand types decide
            guess = e[2] if e[0] == "cast" else ("W" if e[1] in ("not", "lt", "gt", "eq", "ne", "and", "or") else "K" if e[1] == "durch" else "Z")
            if is_struct(guess):
                guess = "Z"
            tds = [t if t is not None else guess]
        for td in tds:
            p = ["prog", ["mod"] + GRID_MOD, ["all"], ["tops"] + grid_prelude() + [["stmt", ["svar", spec.gender(td), td, 70, e]]]]
            cells.append(("%s as %s" % (name, sx(td)), p))
    return cells


def work_grid(args):
    cells, mdir, px, ddppath, model = args
    lines = run_model(model, ["C " + sx(p) for _, p in cells])
    raw = []
    for (name, p), l in zip(cells, lines):
        f = l.split()
        raw.append("M grid:%s -1 %s %s %s %s" % (name.replace(" ", "_"), f[1], f[2], f[3], sx(p)))
    items = work_chunk((-2, GRID_MOD, mdir, raw, px, ddppath))
    for it in items:
        it["kind"] = "grid"
    return items


def shrink(p, bad):
    """greedy removal of top-level items and statements while bad(p) stays true"""
    import copy
    cur = copy.deepcopy(p)

    def blocks(node, acc):
        if isinstance(node, list):
            if node and node[0] in ("blk", "tops"):
                acc.append(node)
            for c in node:
                blocks(c, acc)
        return acc
    changed = True
    while changed:
        changed = False
        for bl in blocks(cur, []):
            for i in range(len(bl) - 1, 0, -1):
                saved = bl[i]
                del bl[i]
                if bad(cur):
                    changed = True
                else:
                    bl.insert(i, saved)
    return cur


def main():
    ck = Check(PID, "proof")
    b = Build()
    ck.cov["trusted_base"] = vlib.TRUSTED_COMMON + [
        "core language of coq/Lang/MiniSyntax.v: the theorems quantify over core programs; DDP outside the core is covered by nothing here",
        "renderer core AST -> DDP text (checks/c04.py): guarded by 'every generated well-formed program must be accepted by the real frontend' and by the agreement of three verdicts per program (Python spec, Coq spec, Coq algorithm vs. real frontend)",
        "Python re-implementation of the specification (class Spec) = the oracle that judges the frontend; cross-checked against Coq's wfb on every program",
        "parsex harness: accepted = no error-level diagnostic, module not Faulty, no panic",
    ]
    okn, lg = b.ensure_native()
    px, lg2 = b.ensure_go("parsex")
    ck.coq()
    model = vlib.model_bin("c04")
    if not px:
        ck.violation("harness-build", "parsex does not build against /repo: " + lg2[-500:], dict(log=lg2[-3000:]), no_input=True)
        ck.finish()
    if not os.path.exists(model):
        ck.broken_obligation("extracted model driver extract/_build/c04 missing (make -C /verif setup)", "")
        ck.finish()
    scratch = vlib.scratch()
    nprog = 4 if ck.quick else 36
    t0 = time.time()

    # ---- 1. corpus of past / hand-written cases first ----------------------------------------
    corpus = []
    cdir = os.path.join(vlib.VERIF, "corpus", PID)
    if os.path.isdir(cdir):
        for fn in sorted(os.listdir(cdir)):
            if fn.endswith(".json"):
                corpus.append((fn, json.load(open(os.path.join(cdir, fn)))))
    if ck.replay:
        rp = json.load(open(ck.replay))
        core = (rp.get("replay") or rp).get("core_program") or rp.get("prog")
        corpus = [("replay", dict(name="replay:" + os.path.basename(ck.replay), prog=core))]
        nprog = 0
    results = []
    for ci, (fn, c) in enumerate(corpus):
        p = parse_sx(c["prog"])
        mod = p[1][1:]
        mdir = os.path.join(scratch, "c%d" % ci)
        os.makedirs(mdir, exist_ok=True)
        open(os.path.join(mdir, "modul.ddp"), "w").write(render_module(mod))
        src = render_main(p, **STYLES.get(c.get("style"), {}))
        o = run_parsex(px, b.dir, [(0, os.path.join(mdir, "main.ddp"), src)])[0]
        mv = run_model(model, ["C " + sx(p)])[0].split()
        fe = first_error(o) if o else None
        results.append(dict(kind="corpus", fault=c.get("name", fn), site=-1, ast=p, wfb=mv[1] == "1", check=mv[2], patched=mv[3], src=src,
                            pywf=Spec(mod).wf(p), obs=o, acc=accepted(o), code=fe["code"] if fe else None, line=fe["sl"] if fe else 0,
                            dir=mdir, modtext=render_module(mod), idx=-1, expect=c.get("expect"), style=c.get("style", "plain")))

    # ---- 2. generated programs and all their mutants --------------------------------------------
    from concurrent.futures import ProcessPoolExecutor
    seeds = [ck.rng.getrandbits(48) for _ in range(nprog)]
    gstats = {}
    with ProcessPoolExecutor(max_workers=vlib.NCPU) as ex:
        gens = list(ex.map(work_gen, [(i, seeds[i], model, scratch, 250 if ck.quick else 0) for i in range(nprog)]))
        log("[c04] %d base programs, %d mutants from the Coq injector in %.0fs" % (nprog, sum(len(g[3]) - 1 for g in gens), time.time() - t0))
        chunks = []
        for idx, mod, mdir, raw, st in gens:
            for k, v in st.items():
                gstats[k] = gstats.get(k, 0) + v
            for j in range(0, len(raw), 250):
                chunks.append((idx, mod, mdir, raw[j:j + 250], px, b.dir))
        for out in ex.map(work_chunk, chunks):
            results += out
        # exhaustive operator grid
        gdir = os.path.join(scratch, "grid")
        os.makedirs(gdir, exist_ok=True)
        with open(os.path.join(gdir, "modul.ddp"), "w") as fh:
            fh.write(render_module(GRID_MOD))
        cells = [] if ck.replay else grid_cells(not ck.quick)
        n_grid = len(cells)
        for out in ex.map(work_grid, [(cells[j:j + 200], gdir, px, b.dir, model) for j in range(0, len(cells), 200)]):
            results += out
    log("[c04] %d programs parsed by the real frontend in %.0fs" % (len(results), time.time() - t0))

    # ---- 3. triage -----------------------------------------------------------------------------------
    per_fault = {}
    grid_stats = dict(accepted=0, rejected=0, well_formed=0, ill_formed=0)
    codes = {}
    first_diag_tab = {}
    first_diag_bad = []
    n_base_ok = n_false_reject = 0
    mismatch = []
    viol_seen = {}
    acc_ill = [it for it in results if it["acc"] and not it["pywf"] and it["pywf"] == it["wfb"]]
    for it, why in zip(acc_ill, explain_many(model, [it["ast"] for it in acc_ill])):
        it["why"] = why
    for it in results:
        ck.count()
        kind, fault = it["kind"], it["fault"]
        specwf = it["pywf"]
        if it["pywf"] != it["wfb"]:
            ck.broken_obligation("the Python oracle and Coq's wfb disagree on a program (%s %s): python=%s coq=%s" % (kind, fault, it["pywf"], it["wfb"]),
                                 json.dumps(dict(prog=sx(it["ast"]) if it["ast"] else None, source=it["src"])))
            continue
        model_acc = it["check"] == "-"
        if kind == "grid":
            grid_stats["accepted" if it["acc"] else "rejected"] += 1
            grid_stats["well_formed" if specwf else "ill_formed"] += 1
        if kind == "mutant":
            st = per_fault.setdefault(fault, dict(mutants=0, rejected=0, accepted=0))
            st["mutants"] += 1
            st["accepted" if it["acc"] else "rejected"] += 1
            if specwf:
                ck.broken_obligation("theorem C04_inject_breaks_wf contradicted: mutant %s #%d of a program is well-formed by the specification" % (fault, it["site"]), it["src"])
                continue
        if kind == "base":
            if not specwf:
                ck.broken_obligation("generator produced an ill-formed base program", it["src"])
                continue
            if it["acc"]:
                n_base_ok += 1
            else:
                n_false_reject += 1
        # the property: ill-formed => rejected
        if not specwf and it["acc"]:
            why = it["why"]
            key = "accepted-ill-formed quirk=%s" % why if why else "accepted-ill-formed unexplained fault=%s%s" % (fault, "" if it.get("style", "plain") == "plain" else " rendering=" + it["style"])
            if key not in viol_seen:
                ast = it["ast"]
                mod = ast[1][1:]
                def bad(q, mod=mod, it=it):
                    if Spec(mod).wf(q):
                        return False
                    return accepted(run_parsex(px, b.dir, [(0, os.path.join(it["dir"], "main.ddp"), render_main(q, **STYLES.get(it.get("style"), {})))])[0])
                small = shrink(ast, bad)
                if explain(model, small) == why:
                    ast = small
                viol_seen[key] = True
                if not why and not ck.replay and os.path.realpath(vlib.REPO) == "/repo":   # not for seeded / mutated copies
                    # persist the minimised failure: it runs first from now on
                    os.makedirs(cdir, exist_ok=True)
                    cf = os.path.join(cdir, "auto_%s.json" % hashlib.sha1(sx(ast).encode()).hexdigest()[:10])
                    with open(cf, "w") as fh:
                        json.dump(dict(name="auto: " + key, note="minimised failure found by the check", style=it.get("style", "plain"), prog=sx(ast)), fh, indent=1, ensure_ascii=False)
                ck.violation(key, "the frontend accepts a program that is ill-formed by the specification (fault class %s): no error-level diagnostic, module not Faulty" % fault,
                             dict(fault=fault, mutant_index=it["site"], rendering=it.get("style", "plain"), source=render_main(ast, **STYLES.get(it.get("style"), {})), module_source=it["modtext"], core_program=sx(ast),
                                  model_check=it["check"], model_check_patched=it["patched"], specification="ill-formed (Python oracle and Coq wfb)",
                                  implementation=dict(accepted=True, diagnostics=(it["obs"] or {}).get("diags")),
                                  how="write module_source to modul.ddp and source to main.ddp in one directory; feed {\"id\":\"x\",\"file\":\"<dir>/main.ddp\"} to .cache/<hash>/go-*/parsex; or run kddp kompiliere main.ddp"))
            else:
                # same mechanism again: let the known-findings filter see it, but do not store another replay
                ck.violation(key, "", None)
        # correspondence algorithm model <-> implementation
        if model_acc != it["acc"]:
            mismatch.append(it)
        elif not it["acc"] and it["check"] != "-":
            d0 = it["check"].split(",")[0]
            d1 = it["patched"].split(",")[0]
            t = first_diag_tab.setdefault(d0, {})
            t[it["code"]] = t.get(it["code"], 0) + 1
            if it["code"] not in EXPECT.get(d0, set()):
                first_diag_bad.append((d0, it["code"], "%s\n\nmodel: %s\nfrontend: code %s at line %s: %s" % (it["src"][-1200:], it["check"], it["code"], it["line"], (it["src"].splitlines() + [""] * it["line"])[max(it["line"] - 1, 0)]), it["code"] in EXPECT.get(d1, set())))
        if not it["acc"]:
            codes[it["code"]] = codes.get(it["code"], 0) + 1
            if it["line"] > 2 and kind == "mutant":
                ck.nontrivial(hashlib.sha1(it["src"].encode()).hexdigest())
    # Which variant of the algorithm model is the frontend?  `current` (all four defects repaired) is the tree
    # C04_check_sound / C04_check_complete describe.  If a repair is lost the frontend is check_with of another switch
    # setting (covered by C04_check_with_sound for EVERY setting) and the accepted ill-formed programs are reported as
    # violations with the quirk as key.  A frontend that agrees with no setting at all is a broken correspondence.
    variant = CURRENT
    if mismatch:
        probe = [it for it in results if it["ast"] is not None and ((it["patched"] != "?" and (it["check"] == "-") != (it["patched"] == "-")) or it in mismatch)]
        settings = [CURRENT, "00000"] + ["".join("1" if (k >> i) & 1 else "0" for i in range(5)) for k in range(31, -1, -1)]
        out = run_model(model, ["Q %s %s" % (fl, sx(it["ast"])) for it in probe for fl in settings])
        ok = []
        for j, fl in enumerate(settings):
            if all((out[i * len(settings) + j].split()[2] == "-") == it["acc"] for i, it in enumerate(probe)) and all(m["ast"] is not None for m in mismatch):
                ok.append(fl)
        if ok:
            variant = ok[0]
            log("[c04] the frontend does not behave as the current model (MiniCheck.current); it agrees with check_with(void_eq,void_ret,tc_by_name,field_unimported,field_name_lookup = %s) on all %d programs" % (variant, len(results)))
            mismatch = []
        else:
            it = mismatch[0]
            if not ck.violations:
                ck.broken_obligation("correspondence algorithm model (MiniCheck.check_with, any switch setting) <-> frontend fails: pinned model %s, frontend %s (%s %s #%d)" %
                                     ("accepts" if it["check"] == "-" else "rejects with " + it["check"], "accepts" if it["acc"] else "rejects with code %s" % it["code"],
                                      it["kind"], it["fault"], it["site"]),
                                     json.dumps(dict(source=it["src"], module=it["modtext"], prog=sx(it["ast"]) if it["ast"] else None), ensure_ascii=False))
    if variant != CURRENT:
        # a frontend of another setting may report the first diagnostic of the pinned model where the two models differ
        first_diag_bad = [x for x in first_diag_bad if not x[3]]
    if first_diag_bad and not ck.violations and not mismatch:
        d0, code, src, _ = first_diag_bad[0]
        ck.broken_obligation("first diagnostic differs in kind: model %s, frontend code %s (%d cases)" % (d0, code, len(first_diag_bad)), src)

    # ---- 4. kddp on a sample: exit status and artefact -----------------------------------------
    sample = [it for it in results if it["kind"] == "mutant" and it["ast"] is not None and not it["acc"]]
    ck.rng.shuffle(sample)
    sample = sample[:(24 if ck.quick else 160)]
    bases = [it for it in results if it["kind"] == "base" and it["acc"]][:(4 if ck.quick else 12)]

    def kddp(it):
        d = os.path.join(scratch, "k%d" % id(it))
        os.makedirs(d, exist_ok=True)
        open(os.path.join(d, "modul.ddp"), "w").write(it["modtext"] or open(os.path.join(it["dir"], "modul.ddp")).read())
        open(os.path.join(d, "main.ddp"), "w").write(it["src"])
        try:
            p = subprocess.run([b.kddp, "kompiliere", "main.ddp", "-o", "out.o", "-O", "0"], cwd=d, capture_output=True, text=True,
                               env=dict(os.environ, DDPPATH=b.dir), timeout=120)
            rc, txt = p.returncode, (p.stdout + p.stderr)
        except subprocess.TimeoutExpired:
            rc, txt = -9, "timeout"
        art = os.path.exists(os.path.join(d, "out.o")) and os.path.getsize(os.path.join(d, "out.o")) > 0
        return rc, art, txt[-600:]
    kres = dict(mutants=0, mutants_rc_nonzero=0, mutants_no_artefact=0, bases=0, bases_compiled=0)
    if okn:
        for it, (rc, art, txt) in zip(sample, vlib.pmap(kddp, sample)):
            ck.count()
            kres["mutants"] += 1
            kres["mutants_rc_nonzero"] += rc != 0
            kres["mutants_no_artefact"] += not art
            if rc == 0 or art:
                ck.violation("kddp exit/artefact for a rejected program fault=%s rc=%s artefact=%s" % (it["fault"], rc, art),
                             "kddp kompiliere of an ill-formed program: exit status %s, output artefact present: %s" % (rc, art),
                             dict(source=it["src"], module_source=it["modtext"], output=txt))
        for it, (rc, art, txt) in zip(bases, vlib.pmap(kddp, bases)):
            kres["bases"] += 1
            kres["bases_compiled"] += (rc == 0 and art)
    else:
        ck.broken_obligation("native build of /repo failed (kddp leg)", lg)

    nm = sum(v["mutants"] for v in per_fault.values())
    ck.cov.update(dict(
        base_programs=nprog, base_accepted=n_base_ok, base_rejected_as_the_model_predicts=n_false_reject - len([m for m in mismatch if m["kind"] == "base"]),
        corpus=len(corpus), mutants=nm, per_fault=per_fault, first_error_codes={str(k): v for k, v in sorted(codes.items(), key=lambda kv: str(kv[0]))},
        first_diagnostic_model_vs_frontend={k: {str(c): n for c, n in v.items()} for k, v in first_diag_tab.items()},
        first_diagnostic_kind_disagreements=len(first_diag_bad), acceptance_disagreements_model_vs_frontend=len(mismatch),
        model_variant_matching_the_frontend=dict(zip(QUIRKS, variant)),
        kddp=kres, operator_grid=dict(cells=n_grid, **grid_stats),
        exhaustive="operator grid: every unary/binary operator and cast of the core x 10 operand kinds (6 primitive types, 2 list types, Kombination, call without result)%s" % ("" if ck.quick else " x 8 declared result types"),
        exhaustive_note="thorough: ALL single-fault mutants (20 classes, every site the injector of coq/Lang/MiniMutate.v finds) of every generated base program are run; quick: at most 250 per class and program, sampled; base programs are random",
        rule="evaluations = programs parsed by the real frontend (+ kddp runs); non-trivial = a mutant whose first error is reported after line 2 "
             "(the frontend accepted a non-empty prefix), distinct by source text",
        generated_constructs=gstats,
        generator=dict(statements="var/const declarations, assignments, if/else, while, counting for (+step), blocks, calls, break/continue, returns; nesting <= 3; shadowing",
                       expressions="literals, variables, 3 unary and 12 binary operators, casts, field access, calls with value and Referenz arguments; depth <= 3",
                       imports="whole module / selected names / none; module with public+private variables, constants, functions, Kombinationen with public+private fields")))
    for it in results[:1] + [r for r in results if r["kind"] == "mutant" and r["ast"] is not None][:3]:
        ck.sample(dict(kind=it["kind"], fault=it["fault"], source=it["src"][:700], frontend="accepted" if it["acc"] else "rejected code %s" % it["code"], model=it["check"]))
    ck.finish()


if __name__ == "__main__":
    main()
