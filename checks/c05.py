#!/usr/bin/env python3
"""C05 — compiled programs release every heap block exactly once.

Proof: coq/Props/C05.v over coq/Rt/Heap.v (ledger, `balanced`, proved checker `balancedb`), coq/Rt/Vals.v
(generated/runtime free, deep-copy, concat functions over value trees) and coq/Lower/Own.v (the code generator's
ownership discipline: skeleton -> ownership actions with the compile-time scope ledger, all exits).

Tie: generated DDP programs are compiled with the real kddp at -O 0/1/2, linked against the real runtime with
`--wrap=ddp_reallocate` and run with command-line data that selects the control-flow path.  Every REAL ledger is
judged by the extracted, proved `check_ledger` (the property itself: balanced <-> every block released exactly once
with its true size, nothing foreign released).  A sample (thorough: all) also runs under ASan/LSan.  For the Text
subset the extracted ownership model (`Own.compile` + `Own.run`) predicts the ledger of the measured region, which is
compared with pointers renamed by allocation order.

Streams
  A  random well-formed programs over every non-primitive type x ownership role x exit path
  B  construct probes: one suspicious construct x type x context per program (canonical keys `construct=...`)
  M  Text-subset skeleton programs shared with the Coq model (ledger-shape correspondence)
  corpus/C05/*.json  minimised past failures, run first
"""
import json
import os
import re
import subprocess
import sys

sys.path.insert(0, os.path.dirname(os.path.abspath(__file__)))
import vlib
from vlib import Check, Build, log

PID = "C05"
NARGS = 6

# =================================================================================================
# DDP rendering helpers
# =================================================================================================
HEAD = '''Binde "Duden/Ausgabe" ein.
Binde "Duden/Laufzeit" ein.

Wir nennen die Kombination aus
	dem Text t mit Standardwert "std",
	der Zahlen Liste zl mit Standardwert eine Liste, die aus 7, 8 besteht,
	der Text Liste tl mit Standardwert eine Liste, die aus "x" besteht,
	der Zahl z mit Standardwert 0,
eine Box, und erstellen sie so:
	"eine Standardbox" oder
	"eine Box mit Text <t>" oder
	"eine Box mit Text <t> und Zahlen <zl>" oder
	"eine Box mit Text <t> und Texten <tl>"

Die Text Liste args ist die Befehlszeilenargumente.
''' + "".join("Die Zahl a%d ist (args an der Stelle %d) als Zahl.\n" % (k, k + 1) for k in range(1, NARGS + 1))

# generator-level types; Variable types carry their (fixed) content type
TEXT, TL, ZL, BOX, BL, VT, VZ, VB, VN, VL = "Text", "TextListe", "ZahlenListe", "Box", "BoxListe", "VarText", "VarZL", "VarBox", "VarZahl", "VarListe"
NPTYPES = [TEXT, TL, ZL, BOX, BL, VT, VZ, VB, VN, VL]
VARCONTENT = {VT: TEXT, VZ: ZL, VB: BOX, VN: "Zahl"}
TYNAME = {TEXT: "Text", TL: "Text Liste", ZL: "Zahlen Liste", BOX: "Box", BL: "Box Liste", VT: "Variable", VZ: "Variable", VB: "Variable", VN: "Variable", VL: "Variablen Liste"}
REFNAME = {TEXT: "Text Referenz", TL: "Text Listen Referenz", ZL: "Zahlen Listen Referenz", BOX: "Box Referenz", BL: "Box Listen Referenz",
           VT: "Variablen Referenz", VZ: "Variablen Referenz", VB: "Variablen Referenz", VN: "Variablen Referenz", VL: "Variablen Listen Referenz"}
DECLART = {TEXT: "Der", TL: "Die", ZL: "Die", BOX: "Die", BL: "Die", VT: "Die", VZ: "Die", VB: "Die", VN: "Die", VL: "Die"}
RETART = {TEXT: "einen Text", TL: "eine Text Liste", ZL: "eine Zahlen Liste", BOX: "eine Box", BL: "eine Box Liste",
          VT: "eine Variable", VZ: "eine Variable", VB: "eine Variable", VN: "eine Variable", VL: "eine Variablen Liste"}
FOREACH = {TL: ("Für jeden Text", TEXT), ZL: ("Für jede Zahl", None), BL: ("Für jede Box", BOX), VL: ("Für jede Variable", VT), TEXT: ("Für jeden Buchstaben", None)}
ELEM = {TL: TEXT, BL: BOX, VL: VT}
LISTOF = {TEXT: TL, BOX: BL, VT: VL}
WORDS = ["a", "bc", "def", "ghij", "äöü", "straße", "€uro", "x😀y", "", "Hallo Welt", "0123456789abcdefghij"]


def decl(T, name, e):
    return "%s %s %s ist %s." % (DECLART[T], TYNAME[T], name, e)


class Fn:
    def __init__(self, name, params, ret, alias):
        self.name, self.params, self.ret, self.alias = name, params, ret, alias   # params: [(name, T|"Zahl", byref)]

    def call(self, args):
        s = self.alias
        for (pn, _, _), a in zip(self.params, args):
            s = s.replace("<%s>" % pn, a)
        return s


# =================================================================================================
# Stream A: random programs (no construct of a known-suspicious class; see stream B for those)
# =================================================================================================
class GenA:
    """Random statement/expression generator with a scoped, typed environment."""

    def __init__(self, rng, features):
        self.rng = rng
        self.feat = features          # counter dict: feature -> occurrences (reported as distribution)
        self.uid = 0
        self.fns = []                 # user functions defined so far (callable from later code)
        self.scopes = []              # list of dict name -> T   (innermost last)
        self.refparams = set()        # names bound by Referenz in the current function
        self.globals_ro = {}          # globals visible (read-only) inside functions
        self.in_func = None           # return type of the function being generated (or None at main level)
        self.loop_depth = 0
        self.budget = 0

    # ---- bookkeeping
    def f(self, name):
        self.feat[name] = self.feat.get(name, 0) + 1

    def fresh(self, p):
        self.uid += 1
        return "%s%d" % (p, self.uid)

    def vars_of(self, T, writable=False):
        out = []
        for sc in self.scopes:
            for n, t in sc.items():
                if t == T:
                    out.append(n)
        if not writable:
            out += [n for n, t in self.globals_ro.items() if t == T]
        return out

    def cond_arg(self):
        return "a%d" % self.rng.randint(1, NARGS)

    # ---- primitive conditions (may hold unused temporaries, short-circuit operands)
    def cond(self, depth=0, allow_temps=True):
        r = self.rng.random()
        if depth < 2 and r < 0.18:
            self.f("exit:shortcircuit-und")
            return "(%s und %s)" % (self.cond(depth + 1, allow_temps), self.cond(depth + 1, allow_temps))
        if depth < 2 and r < 0.36:
            self.f("exit:shortcircuit-oder")
            return "(%s oder %s)" % (self.cond(depth + 1, allow_temps), self.cond(depth + 1, allow_temps))
        if allow_temps and r < 0.50:
            T = self.rng.choice([TEXT, TL, ZL, TEXT, BL, VL])
            self.f("role:unused-temporary/%s" % T)
            return "((die Länge von %s) größer als %d ist)" % (self.expr(T, depth + 1), self.rng.randint(0, 2))
        if allow_temps and r < 0.62:
            T = self.rng.choice([TEXT, TL, ZL, BOX, VT, VZ, VB, BL, VL])
            self.f("role:unused-temporary-eq/%s" % T)
            return "(%s gleich %s ist)" % (self.expr(T, depth + 1), self.expr(T, depth + 1))
        if r < 0.70:
            return "(nicht (%s gleich 1 ist))" % self.cond_arg()
        return "(%s gleich %d ist)" % (self.cond_arg(), self.rng.randint(0, 2))

    # ---- literals
    def lit(self, T, depth):
        rng = self.rng
        if T == TEXT:
            return '"%s"' % rng.choice(WORDS)
        if T == TL:
            return "eine Liste, die aus %s besteht" % ", ".join(self.expr(TEXT, depth + 1) for _ in range(rng.randint(1, 3)))
        if T == ZL:
            return "eine Liste, die aus %s besteht" % ", ".join(str(rng.randint(0, 99)) for _ in range(rng.randint(1, 9)))
        if T == BOX:
            k = rng.randint(0, 4)
            if k == 0:
                return "eine Standardbox"
            if k == 1:
                return "eine Box mit Text %s" % self.expr(TEXT, depth + 1)
            if k == 2:
                return "eine Box mit Text %s und Zahlen %s" % (self.expr(TEXT, depth + 1), self.expr(ZL, depth + 1))
            if k == 3:
                return "eine Box mit Text %s und Texten %s" % (self.expr(TEXT, depth + 1), self.expr(TL, depth + 1))
            return "der Standardwert von einer Box"
        if T == BL:
            return "eine Liste, die aus %s besteht" % ", ".join(self.expr(BOX, depth + 1) for _ in range(rng.randint(1, 2)))
        if T in VARCONTENT:
            c = VARCONTENT[T]
            inner = str(rng.randint(0, 9)) if c == "Zahl" else self.expr(c, depth + 1)
            return "(%s als Variable)" % inner
        if T == VL:
            return "eine Liste, die aus %s besteht" % ", ".join(self.expr(VT, depth + 1) for _ in range(rng.randint(1, 2)))
        raise ValueError(T)

    # ---- expressions of a non-primitive type (always parenthesised where needed by the caller)
    def expr(self, T, depth=0):
        rng = self.rng
        vs = self.vars_of(T)
        choices = ["lit"]
        if vs:
            choices += ["var", "var", "var"]
        if depth < 3 and self.budget > 0:
            self.budget -= 1
            choices += ["falls", "call"]
            if T == TEXT:
                choices += ["concat", "concat", "slice", "elem", "field", "anycast", "numtext", "charconcat"]
            elif T in (TL, ZL, BL, VL):
                choices += ["concat", "lconcat_scalar", "scalar_lconcat", "slice"]
                if T in (TL, ZL):
                    choices += ["field", "anycast" if T == ZL else "tolist"]
            elif T == BOX:
                choices += ["elem", "anycast"]
            elif T == VT:
                choices += ["elem"]
        k = rng.choice(choices)
        if k == "var":
            return rng.choice(vs)
        if k == "lit":
            return "(%s)" % self.lit(T, depth) if not self.lit_is_atomic(T) else self.lit(T, depth)
        if k == "falls":
            self.f("exit:falls-arm/%s" % T)
            return "(%s, falls %s, ansonsten %s)" % (self.expr(T, depth + 1), self.cond(depth + 1), self.expr(T, depth + 1))
        if k == "call":
            fns = [fn for fn in self.fns if fn.ret == T]
            if not fns:
                return self.expr(T, depth + 1)
            c = self.call(rng.choice(fns), depth + 1)
            return "(%s)" % c if c is not None else self.expr(T, depth + 1)
        if k == "concat":
            self.f("op:concat/%s" % T)
            return "(%s verkettet mit %s)" % (self.expr(T, depth + 1), self.expr(T, depth + 1))
        if k == "charconcat":
            self.f("op:concat-char/Text")
            if rng.random() < 0.5:
                return "(%s verkettet mit 'c')" % self.expr(TEXT, depth + 1)
            return "('ö' verkettet mit %s)" % self.expr(TEXT, depth + 1)
        if k == "lconcat_scalar":
            self.f("role:list-element-by-concat/%s" % T)
            return "(%s verkettet mit %s)" % (self.expr(T, depth + 1), self.scalar_of(T, depth + 1))
        if k == "scalar_lconcat":
            self.f("role:list-element-by-concat/%s" % T)
            return "(%s verkettet mit %s)" % (self.scalar_of(T, depth + 1), self.expr(T, depth + 1))
        if k == "slice":
            self.f("op:slice/%s" % T)
            e = self.expr(T, depth + 1)
            return rng.choice(["(%s im Bereich von 1 bis 2)", "(%s ab dem 2. Element)", "(%s bis zum 1. Element)"]) % e
        if k == "elem":
            LT = LISTOF[T]
            self.f("op:index/%s" % LT)
            return "(%s an der Stelle 1)" % self.expr(LT, depth + 1)
        if k == "field":
            self.f("op:field/%s" % T)
            return "(%s von %s)" % ({TEXT: "t", ZL: "zl", TL: "tl"}[T], self.expr(BOX, depth + 1))
        if k == "anycast":
            VT_ = {TEXT: VT, ZL: VZ, BOX: VB}[T]
            self.f("op:cast-from-Variable/%s" % T)
            return "(%s als %s)" % (self.expr(VT_, depth + 1), TYNAME[T])
        if k == "tolist":
            self.f("op:cast-to-list/Text")
            return "(%s als Text Liste)" % self.expr(TEXT, depth + 1)
        if k == "numtext":
            return "(%s als Text)" % self.cond_arg()
        raise ValueError(k)

    @staticmethod
    def lit_is_atomic(T):
        return T == TEXT or T in VARCONTENT

    def scalar_of(self, LT, depth):
        if LT == ZL:
            return str(self.rng.randint(0, 50))
        return self.expr(ELEM[LT], depth)

    def call(self, fn, depth):
        args = []
        used_ref = set()
        for (pn, T, byref) in fn.params:
            if T == "Zahl":
                args.append(self.cond_arg())
            elif byref:
                cands = [v for v in self.vars_of(T, writable=True) if v not in used_ref]
                if not cands:
                    return None
                v = self.rng.choice(cands)
                used_ref.add(v)
                args.append(v)
                self.f("role:argument-by-Referenz/%s" % T)
            else:
                self.f("role:argument-by-value/%s" % T)
                args.append(None)   # filled below, avoiding the Referenz variables (aliasing is C08's topic)
        for i, (pn, T, byref) in enumerate(fn.params):
            if args[i] is None:
                for _ in range(8):
                    e = self.expr(T, depth + 1)
                    if not any(re.search(r"\b%s\b" % re.escape(v), e) for v in used_ref):
                        break
                else:
                    e = "(%s)" % self.lit(T, 3) if not self.lit_is_atomic(T) else self.lit(T, 3)
                args[i] = e
        return fn.call(args)

    # ---- statements
    def block(self, depth, n=None):
        self.scopes.append({})
        lines = []
        for _ in range(n if n is not None else self.rng.randint(1, 4)):
            lines += self.stmt(depth)
        self.scopes.pop()
        return lines or ["Die Zahl %s ist 0." % self.fresh("leer")]

    def stmt(self, depth):
        rng = self.rng
        self.budget = 3
        kinds = ["decl", "decl", "assign", "assign_part", "callstmt", "write"]
        if depth < 3:
            kinds += ["if", "if", "while", "for", "foreach", "foreach", "repeat", "dowhile", "blockstmt"]
        if self.loop_depth > 0:
            kinds += ["break", "continue"]
        if self.in_func is not None and depth > 0:
            kinds += ["return", "return"]
        k = rng.choice(kinds)
        ind = lambda ls: ["\t" + l for l in ls]
        if k == "decl":
            T = rng.choice(NPTYPES)
            n = self.fresh("v")
            e = self.expr(T)
            self.f("role:variable-init/%s" % T)
            self.scopes[-1][n] = T
            return [decl(T, n, e)]
        if k == "assign":
            T = rng.choice(NPTYPES)
            vs = self.vars_of(T, writable=True)
            if not vs:
                return self.stmt(depth)
            v = rng.choice(vs)
            e = self.expr_not_mentioning(T, v)
            self.f("role:assignment/%s" % T)
            return ["Speichere %s in %s." % (e, v)]
        if k == "assign_part":
            c = rng.choice(["elem", "field"])
            if c == "elem":
                LT = rng.choice([TL, BL, VL])
                vs = self.vars_of(LT, writable=True)
                if not vs:
                    return self.stmt(depth)
                v = rng.choice(vs)
                self.f("role:list-element-assignment/%s" % LT)
                return ["Speichere %s in %s an der Stelle 1." % (self.expr_not_mentioning(ELEM[LT], v), v)]
            vs = self.vars_of(BOX, writable=True)
            if not vs:
                return self.stmt(depth)
            v = rng.choice(vs)
            fld, FT = rng.choice([("t", TEXT), ("zl", ZL), ("tl", TL)])
            self.f("role:field-assignment/%s" % FT)
            return ["Speichere %s in %s von %s." % (self.expr_not_mentioning(FT, v), fld, v)]
        if k == "callstmt":
            if not self.fns:
                return self.stmt(depth)
            fn = rng.choice(self.fns)
            c = self.call(fn, 0)
            if c is None:
                return self.stmt(depth)
            if fn.ret is not None:
                self.f("role:discarded-result/%s" % fn.ret)
            return [c + "."]
        if k == "write":
            self.f("role:argument-to-extern/Text")
            return ["Schreibe den Text %s." % self.expr(TEXT)]
        if k == "if":
            c = self.cond()
            out = ["Wenn %s, dann:" % c] + ind(self.block(depth + 1))
            if rng.random() < 0.5:
                out += ["Sonst:"] + ind(self.block(depth + 1))
            return out
        if k == "blockstmt":
            return ["Wenn wahr, dann:"] + ind(self.block(depth + 1))
        if k in ("while", "dowhile", "repeat", "for"):
            z = self.fresh("z")
            a = self.cond_arg()
            self.loop_depth += 1
            if k == "while":
                self.f("loop:while")
                body = ["Erhöhe %s um 1." % z] + self.block(depth + 1)
                out = ["Die Zahl %s ist 0." % z, "Solange %s kleiner als %s ist, mache:" % (z, a)] + ind(body)
            elif k == "dowhile":
                self.f("loop:do-while")
                body = ["Erhöhe %s um 1." % z] + self.block(depth + 1)
                out = ["Die Zahl %s ist 0." % z, "Mache:"] + ind(body) + ["Solange %s kleiner als %s ist." % (z, a)]
            elif k == "repeat":
                self.f("loop:repeat")
                out = ["Wiederhole:"] + ind(self.block(depth + 1)) + ["%s Mal." % a]
            else:
                self.f("loop:for")
                step = rng.choice(["", "", " mit Schrittgröße 2"])
                out = ["Für jede Zahl %s von 1 bis %s%s, mache:" % (z, a, step)] + ind(self.block(depth + 1))
            self.loop_depth -= 1
            return out
        if k == "foreach":
            LT = rng.choice([TL, ZL, BL, VL, TEXT])
            head, ET = FOREACH[LT]
            x = self.fresh("e")
            # the iterated expression must not leave unclaimed temporaries behind (stream B covers that)
            src = rng.choice(["var", "lit", "call"])
            vs = self.vars_of(LT)
            if src == "var" and vs:
                e = rng.choice(vs)
            elif src == "call" and [fn for fn in self.fns if fn.ret == LT and all(not p[2] and p[1] == "Zahl" for p in fn.params)]:
                fn = rng.choice([fn for fn in self.fns if fn.ret == LT and all(not p[2] and p[1] == "Zahl" for p in fn.params)])
                e = "(%s)" % fn.call([self.cond_arg() for _ in fn.params])
            else:
                save = self.budget
                self.budget = 0
                e = "(%s)" % self.lit(LT, 3) if not self.lit_is_atomic(LT) else self.lit(LT, 3)
                self.budget = save
            self.f("loop:foreach/%s" % LT)
            self.loop_depth += 1
            self.scopes.append({x: ET} if ET else {})
            body = self.block(depth + 1)
            self.scopes.pop()
            self.loop_depth -= 1
            return ["%s %s in %s, mache:" % (head, x, e)] + ind(body)
        if k == "break":
            self.f("exit:break")
            return ["Wenn %s, verlasse die Schleife." % self.cond()]
        if k == "continue":
            self.f("exit:continue")
            return ["Wenn %s, fahre mit der Schleife fort." % self.cond()]
        if k == "return":
            self.f("exit:return-nested/%s" % (self.in_func or "nichts"))
            if self.in_func == "nichts":
                return ["Wenn %s, verlasse die Funktion." % self.cond()]
            return ["Wenn %s, gib %s zurück." % (self.cond(), self.expr(self.in_func))]
        raise ValueError(k)

    def expr_not_mentioning(self, T, v):
        """right-hand side of an assignment to (a part of) v: must not read v itself (self-assignment is stream B)"""
        for _ in range(10):
            e = self.expr(T)
            if not re.search(r"\b%s\b" % re.escape(v), e):
                return e
        return "(%s)" % self.lit(T, 3) if not self.lit_is_atomic(T) else self.lit(T, 3)

    # ---- functions
    def function(self):
        rng = self.rng
        name = self.fresh("fn")
        ret = rng.choice(NPTYPES + [None])
        params = []
        for i in range(rng.randint(0, 3)):
            T = rng.choice(NPTYPES + ["Zahl"])
            byref = T != "Zahl" and rng.random() < 0.3
            params.append(("p%d" % (i + 1), T, byref))
        alias = name + "".join(" <%s>" % p[0] for p in params)
        fn = Fn(name, params, ret, alias)
        self.in_func = ret if ret is not None else "nichts"
        self.scopes = [{p[0]: p[1] for p in params if p[1] != "Zahl"}]
        self.refparams = {p[0] for p in params if p[2]}
        saved_loop = self.loop_depth
        self.loop_depth = 0
        body = []
        for _ in range(rng.randint(1, 5)):
            body += self.stmt(1)
        if ret is not None:
            self.f("role:return-value/%s" % ret)
            body.append("Gib %s zurück." % self.expr(ret))
        self.loop_depth = saved_loop
        self.in_func = None
        self.scopes = []
        if not params:
            sig = "Die Funktion %s" % name
        elif len(params) == 1:
            sig = "Die Funktion %s mit dem Parameter %s vom Typ %s," % (name, params[0][0], self.ptype(params[0]))
        else:
            sig = "Die Funktion %s mit den Parametern %s vom Typ %s," % (name, self.join_und([p[0] for p in params]), self.join_und([self.ptype(p) for p in params]))
        sig += " gibt %s zurück, macht:" % (RETART[ret] if ret else "nichts")
        text = [sig] + ["\t" + l for l in body] + ["Und kann so benutzt werden:", '\t"%s"' % alias, ""]
        self.fns.append(fn)
        return text

    @staticmethod
    def ptype(p):
        return "Zahl" if p[1] == "Zahl" else (REFNAME[p[1]] if p[2] else TYNAME[p[1]])

    @staticmethod
    def join_und(xs):
        return xs[0] if len(xs) == 1 else ", ".join(xs[:-1]) + " und " + xs[-1]

    def program(self):
        rng = self.rng
        lines = []
        # globals of every type first (read-only inside functions)
        self.scopes = [{}]
        glob = []
        self.budget = 0
        for T in NPTYPES:
            n = self.fresh("g")
            glob.append(decl(T, n, ("(%s)" % self.lit(T, 3)) if not self.lit_is_atomic(T) else self.lit(T, 3)))
            self.globals_ro[n] = T
        fns = []
        for _ in range(rng.randint(2, 5)):
            fns += self.function()
        self.scopes = [{}]
        self.in_func = None
        main = []
        for _ in range(rng.randint(3, 8)):
            main += self.stmt(0)
        return HEAD + "\n".join(glob) + "\n\n" + "\n".join(fns) + "\n" + "\n".join(main) + "\n"


# =================================================================================================
# ledgers
# =================================================================================================
def parse_ledger(path):
    ev = []
    try:
        with open(path) as fh:
            for l in fh:
                p = l.split()
                if len(p) != 4:
                    continue
                ev.append(tuple(0 if x == "(nil)" else (int(x, 16) if x.startswith("0x") else int(x)) for x in p))
    except OSError:
        pass
    return ev


def judge_ledgers(ledgers):
    """run the extracted checker over many ledgers: list of ('B',) | ('X', idx, reason, p,o,n,r) | ('K', [(p,size)..])"""
    inp = []
    for ev in ledgers:
        inp.append("L " + " ; ".join("%d %d %d %d" % e for e in ev))
    p = subprocess.run([vlib.model_bin("c05")], input="\n".join(inp) + "\n", capture_output=True, text=True, timeout=600)
    out = []
    for l in p.stdout.splitlines():
        t = l.split()
        if t[0] == "B":
            out.append(("B",))
        elif t[0] == "X":
            out.append(("X", int(t[1]), t[2]) + tuple(int(x) for x in t[3:7]))
        elif t[0] == "K":
            out.append(("K", [tuple(int(y) for y in x.split(":")) for x in t[1:]]))
        else:
            out.append(("?",))
    if len(out) != len(ledgers):
        raise RuntimeError("c05 model driver answered %d of %d ledgers: %s" % (len(out), len(ledgers), p.stderr[-500:]))
    return out


def py_balanced(ev):
    """independent re-statement of the property in Python (oracle for the extracted checker itself)"""
    live = {}
    for (p, o, n, r) in ev:
        if p == 0:
            if o != 0:
                return False
            if n == 0:
                if r != 0:
                    return False
                continue
            if r == 0 or r in live:
                return False
            live[r] = n
        else:
            if live.get(p) != o:
                return False
            if n == 0:
                if r != 0:
                    return False
                del live[p]
            elif o == n:
                if r != p:
                    return False
            else:
                del live[p]
                if r == 0 or r in live:
                    return False
                live[r] = n
    return not live


def classify(rc, err):
    e = err.decode("utf-8", "replace")
    if rc == -9:
        return "timeout"
    if rc == 97 or "AddressSanitizer" in e or "LeakSanitizer" in e:
        return "sanitizer"
    if "Segmentation fault" in e or rc < 0 or "free():" in e or "malloc" in e or "corrupted" in e:
        return "crash"
    if rc == 1 and "Laufzeitfehler" in e:
        return "laufzeitfehler"
    if rc == 0:
        return "ok"
    return "exit%d" % rc


def main():
    ck = Check(PID, "proof")
    b = Build()
    ck.cov["trusted_base"] = vlib.TRUSTED_COMMON + []
    ck.coq()
    ok, lg = b.ensure_native()
    if not ok:
        ck.violation("build", "kddp/runtime do not build from the current tree", dict(log=lg[-3000:]), no_input=True)
        ck.finish()
    ck.finish()


if __name__ == "__main__":
    main()
