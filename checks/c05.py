#!/usr/bin/env python3
"""C05 — compiled programs release every heap block exactly once.

Proof: coq/Props/C05.v over coq/Rt/Heap.v (ledger, `balanced`, proved checker `balancedb`), coq/Rt/Vals.v
(generated/runtime free, deep-copy, concat functions over value trees) and coq/Lower/Own.v (the code generator's
ownership discipline: skeleton -> ownership actions with the compile-time scope ledger, all exits).

Tie: generated DDP programs are compiled with the real kddp at -O 0/1/2, linked against the real runtime with
`--wrap=ddp_reallocate` and run with command-line data that selects the control-flow path.  Every REAL ledger is
judged by the extracted, proved `check_ledger` (the property itself: balanced <-> every block released exactly once
with its true size, nothing foreign released).  A sample (thorough: all) also runs under ASan/LSan.  For the Text
subset the extracted ownership model (`Own.compile` + `Own.run`) predicts the ledger of the measured region, which is
compared with pointers renamed by allocation order.

Streams
  A  random well-formed programs over every non-primitive type x ownership role x exit path
  B  construct probes: one suspicious construct x type x context per program (canonical keys `construct=...`);
     `construct=derived-from-temporary family=element|field role=...`: a non-primitive element of a TEMPORARY list
     (function result, list literal, concatenation, slice, cast) / field of a temporary Kombination in every role whose
     scope ends before the consumer runs (both arms of `falls`, und/oder operands via comparison, loop conditions and
     bounds, argument, return value, stores, for-each source) — always also under ASan, because a reference that
     outlives its owner leaves the ledger balanced
  M  Text-subset skeleton programs shared with the Coq model (ledger-shape correspondence)
  corpus/C05/*.json  minimised past failures, run first
"""
import json
import os
import re
import subprocess
import sys

sys.path.insert(0, os.path.dirname(os.path.abspath(__file__)))
import vlib
from vlib import Check, Build, log

PID = "C05"
NARGS = 6

# =================================================================================================
# DDP rendering helpers
# =================================================================================================
HEAD = '''Binde "Duden/Ausgabe" ein.
Binde "Duden/Laufzeit" ein.

Wir nennen die Kombination aus
	dem Text t mit Standardwert "std",
	der Zahlen Liste zl mit Standardwert eine Liste, die aus 7, 8 besteht,
	der Text Liste tl mit Standardwert eine Liste, die aus "x" besteht,
	der Zahl z mit Standardwert 0,
eine Box, und erstellen sie so:
	"eine Standardbox" oder
	"eine Box mit Text <t>" oder
	"eine Box mit Text <t> und Zahlen <zl>" oder
	"eine Box mit Text <t> und Texten <tl>"

Die Text Liste args ist die Befehlszeilenargumente.
''' + "".join("Die Zahl a%d ist (args an der Stelle %d) als Zahl.\n" % (k, k + 1) for k in range(1, NARGS + 1))

# generator-level types; Variable types carry their (fixed) content type
TEXT, TL, ZL, BOX, BL, VT, VZ, VB, VN, VL = "Text", "TextListe", "ZahlenListe", "Box", "BoxListe", "VarText", "VarZL", "VarBox", "VarZahl", "VarListe"
NPTYPES = [TEXT, TL, ZL, BOX, BL, VT, VZ, VB, VN, VL]
VARCONTENT = {VT: TEXT, VZ: ZL, VB: BOX, VN: "Zahl"}
TYNAME = {TEXT: "Text", TL: "Text Liste", ZL: "Zahlen Liste", BOX: "Box", BL: "Box Liste", VT: "Variable", VZ: "Variable", VB: "Variable", VN: "Variable", VL: "Variablen Liste"}
REFNAME = {TEXT: "Text Referenz", TL: "Text Listen Referenz", ZL: "Zahlen Listen Referenz", BOX: "Box Referenz", BL: "Box Listen Referenz",
           VT: "Variablen Referenz", VZ: "Variablen Referenz", VB: "Variablen Referenz", VN: "Variablen Referenz", VL: "Variablen Listen Referenz"}
DECLART = {TEXT: "Der", TL: "Die", ZL: "Die", BOX: "Die", BL: "Die", VT: "Die", VZ: "Die", VB: "Die", VN: "Die", VL: "Die"}
RETART = {TEXT: "einen Text", TL: "eine Text Liste", ZL: "eine Zahlen Liste", BOX: "eine Box", BL: "eine Box Liste",
          VT: "eine Variable", VZ: "eine Variable", VB: "eine Variable", VN: "eine Variable", VL: "eine Variablen Liste"}
FOREACH = {TL: ("Für jeden Text", TEXT), ZL: ("Für jede Zahl", None), BL: ("Für jede Box", BOX), VL: ("Für jede Variable", VT), TEXT: ("Für jeden Buchstaben", None)}
ELEM = {TL: TEXT, BL: BOX, VL: VT}
LISTOF = {TEXT: TL, BOX: BL, VT: VL}
WORDS = ["a", "bc", "def", "ghij", "äöü", "straße", "€uro", "x😀y", "", "Hallo Welt", "0123456789abcdefghij"]


def decl(T, name, e):
    return "%s %s %s ist %s." % (DECLART[T], TYNAME[T], name, e)


class Fn:
    def __init__(self, name, params, ret, alias):
        self.name, self.params, self.ret, self.alias = name, params, ret, alias   # params: [(name, T|"Zahl", byref)]

    def call(self, args):
        s = self.alias
        for (pn, _, _), a in zip(self.params, args):
            s = s.replace("<%s>" % pn, a)
        return s


# =================================================================================================
# Stream A: random programs (no construct of a known-suspicious class; see stream B for those)
# =================================================================================================
class GenA:
    """Random statement/expression generator with a scoped, typed environment."""

    def __init__(self, rng, features):
        self.rng = rng
        self.feat = features          # counter dict: feature -> occurrences (reported as distribution)
        self.uid = 0
        self.fns = []                 # user functions defined so far (callable from later code)
        self.scopes = []              # list of dict name -> T   (innermost last)
        self.refparams = set()        # names bound by Referenz in the current function
        self.globals_ro = {}          # globals visible (read-only) inside functions
        self.in_func = None           # return type of the function being generated (or None at main level)
        self.loop_depth = 0
        self.budget = 0
        self.derived_in_scope = 0     # values derived from a temporary container placed where a scope ends early

    # ---- bookkeeping
    def f(self, name):
        self.feat[name] = self.feat.get(name, 0) + 1

    def fresh(self, p):
        self.uid += 1
        return "%s%d" % (p, self.uid)

    def vars_of(self, T, writable=False):
        out = []
        for sc in self.scopes:
            for n, t in sc.items():
                if t == T:
                    out.append(n)
        if not writable:
            out += [n for n, t in self.globals_ro.items() if t == T]
        return out

    def cond_arg(self):
        return "a%d" % self.rng.randint(1, NARGS)

    # ---- primitive conditions (may hold unused temporaries, short-circuit operands)
    def cond(self, depth=0, allow_temps=True):
        r = self.rng.random()
        if depth < 2 and r < 0.18:
            self.f("exit:shortcircuit-und")
            return "(%s und %s)" % (self.cond(depth + 1, allow_temps), self.cond(depth + 1, allow_temps))
        if depth < 2 and r < 0.36:
            self.f("exit:shortcircuit-oder")
            return "(%s oder %s)" % (self.cond(depth + 1, allow_temps), self.cond(depth + 1, allow_temps))
        if allow_temps and r < 0.50:
            T = self.rng.choice([TEXT, TL, ZL, TEXT, BL, VL])
            self.f("role:unused-temporary/%s" % T)
            return "((die Länge von %s) größer als %d ist)" % (self.expr(T, depth + 1), self.rng.randint(0, 2))
        if allow_temps and r < 0.62:
            T = self.rng.choice([TEXT, TL, ZL, BOX, VT, VZ, VB, BL, VL])
            self.f("role:unused-temporary-eq/%s" % T)
            dv = self.derived(T, depth + 1) if self.rng.random() < 0.3 else None
            if dv is not None:
                self.f("role:derived-from-temporary-in-condition/%s" % T)
                self.derived_in_scope += 1
            return "(%s gleich %s ist)" % (dv if dv is not None else self.expr(T, depth + 1), self.expr(T, depth + 1))
        if r < 0.70:
            return "(nicht (%s gleich 1 ist))" % self.cond_arg()
        return "(%s gleich %d ist)" % (self.cond_arg(), self.rng.randint(0, 2))

    # ---- literals
    def lit(self, T, depth):
        rng = self.rng
        if T == TEXT:
            return '"%s"' % rng.choice(WORDS)
        if T == TL:
            return "eine Liste, die aus %s besteht" % ", ".join(self.expr(TEXT, depth + 1) for _ in range(rng.randint(1, 3)))
        if T == ZL:
            return "eine Liste, die aus %s besteht" % ", ".join(str(rng.randint(0, 99)) for _ in range(rng.randint(1, 9)))
        if T == BOX:
            k = rng.randint(0, 4)
            if k == 0:
                return "eine Standardbox"
            if k == 1:
                return "eine Box mit Text %s" % self.expr(TEXT, depth + 1)
            if k == 2:
                return "eine Box mit Text %s und Zahlen %s" % (self.expr(TEXT, depth + 1), self.expr(ZL, depth + 1))
            if k == 3:
                return "eine Box mit Text %s und Texten %s" % (self.expr(TEXT, depth + 1), self.expr(TL, depth + 1))
            return "der Standardwert von einer Box"
        if T == BL:
            return "eine Liste, die aus %s besteht" % ", ".join(self.expr(BOX, depth + 1) for _ in range(rng.randint(1, 2)))
        if T in VARCONTENT:
            c = VARCONTENT[T]
            inner = str(rng.randint(0, 9)) if c == "Zahl" else self.expr(c, depth + 1)
            return "(%s als Variable)" % inner
        if T == VL:
            return "eine Liste, die aus %s besteht" % ", ".join(self.expr(VT, depth + 1) for _ in range(rng.randint(1, 2)))
        raise ValueError(T)

    # ---- expressions of a non-primitive type (always parenthesised where needed by the caller)
    def expr(self, T, depth=0):
        rng = self.rng
        vs = self.vars_of(T)
        choices = ["lit"]
        if vs:
            choices += ["var", "var", "var"]
        if depth < 3 and self.budget > 0:
            self.budget -= 1
            choices += ["falls", "call"]
            if T in LISTOF or T in (TEXT, ZL, TL):
                choices += ["derived"]
            if T == TEXT:
                choices += ["concat", "concat", "slice", "elem", "field", "anycast", "numtext", "charconcat"]
            elif T in (TL, ZL, BL, VL):
                choices += ["concat", "lconcat_scalar", "scalar_lconcat", "slice"]
                if T in (TL, ZL):
                    choices += ["field", "anycast" if T == ZL else "tolist"]
            elif T == BOX:
                choices += ["elem", "anycast"]
            elif T == VT:
                choices += ["elem"]
        k = rng.choice(choices)
        if k == "var":
            return rng.choice(vs)
        if k == "lit":
            return "(%s)" % self.lit(T, depth) if not self.lit_is_atomic(T) else self.lit(T, depth)
        if k == "falls":
            self.f("exit:falls-arm/%s" % T)
            arms = []
            for _ in range(2):
                dv = self.derived(T, depth + 1) if rng.random() < 0.35 else None
                if dv is not None:
                    self.f("role:derived-from-temporary-in-falls-arm/%s" % T)
                    self.derived_in_scope += 1
                arms.append(dv if dv is not None else self.expr(T, depth + 1))
            return "(%s, falls %s, ansonsten %s)" % (arms[0], self.cond(depth + 1), arms[1])
        if k == "derived":
            dv = self.derived(T, depth + 1)
            if dv is not None:
                return dv
            return self.expr(T, depth + 1)
        if k == "call":
            fns = [fn for fn in self.fns if fn.ret == T]
            if not fns:
                return self.expr(T, depth + 1)
            c = self.call(rng.choice(fns), depth + 1)
            return "(%s)" % c if c is not None else self.expr(T, depth + 1)
        if k == "concat":
            self.f("op:concat/%s" % T)
            return "(%s verkettet mit %s)" % (self.expr(T, depth + 1), self.expr(T, depth + 1))
        if k == "charconcat":
            self.f("op:concat-char/Text")
            if rng.random() < 0.5:
                return "(%s verkettet mit 'c')" % self.expr(TEXT, depth + 1)
            return "('ö' verkettet mit %s)" % self.expr(TEXT, depth + 1)
        if k == "lconcat_scalar":
            self.f("role:list-element-by-concat/%s" % T)
            return "(%s verkettet mit %s)" % (self.expr(T, depth + 1), self.scalar_of(T, depth + 1))
        if k == "scalar_lconcat":
            self.f("role:list-element-by-concat/%s" % T)
            return "(%s verkettet mit %s)" % (self.scalar_of(T, depth + 1), self.expr(T, depth + 1))
        if k == "slice":
            self.f("op:slice/%s" % T)
            e = self.expr(T, depth + 1)
            return rng.choice(["(%s im Bereich von 1 bis 2)", "(%s ab dem 2. Element)", "(%s bis zum 1. Element)"]) % e
        if k == "elem":
            LT = LISTOF[T]
            self.f("op:index/%s" % LT)
            return "(%s an der Stelle 1)" % self.expr(LT, depth + 1)
        if k == "field":
            self.f("op:field/%s" % T)
            return "(%s von %s)" % ({TEXT: "t", ZL: "zl", TL: "tl"}[T], self.expr(BOX, depth + 1))
        if k == "anycast":
            VT_ = {TEXT: VT, ZL: VZ, BOX: VB}[T]
            self.f("op:cast-from-Variable/%s" % T)
            return "(%s als %s)" % (self.expr(VT_, depth + 1), TYNAME[T])
        if k == "tolist":
            self.f("op:cast-to-list/Text")
            return "(%s als Text Liste)" % self.expr(TEXT, depth + 1)
        if k == "numtext":
            return "(%s als Text)" % self.cond_arg()
        raise ValueError(k)

    def temp_of(self, T, depth):
        """an expression of type T that is certainly a temporary (never a plain variable)"""
        rng = self.rng
        ks = ["lit", "call"]
        if T in (TL, ZL, BL, VL):
            ks += ["concat", "slice", "scalar"]
        k = rng.choice(ks)
        if k == "call":
            fns = [fn for fn in self.fns if fn.ret == T]
            c = self.call(rng.choice(fns), depth + 1) if fns else None
            if c is not None:
                return "(%s)" % c
            k = "lit"
        if k == "concat":
            return "(%s verkettet mit %s)" % (self.expr(T, depth + 1), self.expr(T, depth + 1))
        if k == "slice":
            return "(%s im Bereich von 1 bis 2)" % self.expr(T, depth + 1)
        if k == "scalar":
            return "(%s verkettet mit %s)" % (self.expr(T, depth + 1), self.scalar_of(T, depth + 1))
        return "(%s)" % self.lit(T, depth)

    def derived(self, T, depth):
        """a value of type T selected out of a TEMPORARY container: element of a temporary list, field of a temporary Box"""
        ways = []
        if T in LISTOF:
            ways.append("elem")
        if T in (TEXT, ZL, TL):
            ways.append("field")
        if not ways:
            return None
        if self.rng.choice(ways) == "elem":
            self.f("op:index-temporary/%s" % LISTOF[T])
            return "(%s an der Stelle 1)" % self.temp_of(LISTOF[T], depth)
        self.f("op:field-of-temporary/%s" % T)
        return "(%s von %s)" % ({TEXT: "t", ZL: "zl", TL: "tl"}[T], self.temp_of(BOX, depth))

    @staticmethod
    def lit_is_atomic(T):
        return T == TEXT or T in VARCONTENT

    def scalar_of(self, LT, depth):
        if LT == ZL:
            return str(self.rng.randint(0, 50))
        return self.expr(ELEM[LT], depth)

    def call(self, fn, depth):
        args = []
        used_ref = set()
        for (pn, T, byref) in fn.params:
            if T == "Zahl":
                args.append(self.cond_arg())
            elif byref:
                cands = [v for v in self.vars_of(T, writable=True) if v not in used_ref]
                if not cands:
                    return None
                v = self.rng.choice(cands)
                used_ref.add(v)
                args.append(v)
                self.f("role:argument-by-Referenz/%s" % T)
            else:
                self.f("role:argument-by-value/%s" % T)
                args.append(None)   # filled below, avoiding the Referenz variables (aliasing is C08's topic)
        for i, (pn, T, byref) in enumerate(fn.params):
            if args[i] is None:
                for _ in range(8):
                    e = self.expr(T, depth + 1)
                    if not any(re.search(r"\b%s\b" % re.escape(v), e) for v in used_ref):
                        break
                else:
                    e = "(%s)" % self.lit(T, 3) if not self.lit_is_atomic(T) else self.lit(T, 3)
                args[i] = e
        return fn.call(args)

    # ---- statements
    def block(self, depth, n=None):
        self.scopes.append({})
        lines = []
        for _ in range(n if n is not None else self.rng.randint(1, 4)):
            lines += self.stmt(depth)
        self.scopes.pop()
        return lines or ["Die Zahl %s ist 0." % self.fresh("leer")]

    def stmt(self, depth):
        rng = self.rng
        self.budget = 3
        kinds = ["decl", "decl", "assign", "assign_part", "callstmt", "write"]
        if depth < 3:
            kinds += ["if", "if", "while", "for", "foreach", "foreach", "repeat", "dowhile", "blockstmt"]
        if self.loop_depth > 0:
            kinds += ["break", "continue"]
        if self.in_func is not None and depth > 0:
            kinds += ["return", "return"]
        k = rng.choice(kinds)
        ind = lambda ls: ["\t" + l for l in ls]
        if k == "decl":
            T = rng.choice(NPTYPES)
            n = self.fresh("v")
            e = self.expr(T)
            self.f("role:variable-init/%s" % T)
            self.scopes[-1][n] = T
            return [decl(T, n, e)]
        if k == "assign":
            T = rng.choice(NPTYPES)
            vs = self.vars_of(T, writable=True)
            if not vs:
                return self.stmt(depth)
            v = rng.choice(vs)
            e = self.expr_not_mentioning(T, v)
            self.f("role:assignment/%s" % T)
            return ["Speichere %s in %s." % (e, v)]
        if k == "assign_part":
            c = rng.choice(["elem", "field"])
            if c == "elem":
                LT = rng.choice([TL, BL, VL])
                vs = self.vars_of(LT, writable=True)
                if not vs:
                    return self.stmt(depth)
                v = rng.choice(vs)
                self.f("role:list-element-assignment/%s" % LT)
                return ["Speichere %s in %s an der Stelle 1." % (self.expr_not_mentioning(ELEM[LT], v), v)]
            vs = self.vars_of(BOX, writable=True)
            if not vs:
                return self.stmt(depth)
            v = rng.choice(vs)
            fld, FT = rng.choice([("t", TEXT), ("zl", ZL), ("tl", TL)])
            self.f("role:field-assignment/%s" % FT)
            return ["Speichere %s in %s von %s." % (self.expr_not_mentioning(FT, v), fld, v)]
        if k == "callstmt":
            if not self.fns:
                return self.stmt(depth)
            fn = rng.choice(self.fns)
            c = self.call(fn, 0)
            if c is None:
                return self.stmt(depth)
            if fn.ret is not None:
                self.f("role:discarded-result/%s" % fn.ret)
            return [c + "."]
        if k == "write":
            self.f("role:argument-to-extern/Text")
            return ["Schreibe den Text %s." % self.expr(TEXT)]
        if k == "if":
            c = self.cond()
            out = ["Wenn %s, dann:" % c] + ind(self.block(depth + 1))
            if rng.random() < 0.5:
                out += ["Sonst:"] + ind(self.block(depth + 1))
            return out
        if k == "blockstmt":
            return ["Wenn wahr, dann:"] + ind(self.block(depth + 1))
        if k in ("while", "dowhile", "repeat", "for"):
            z = self.fresh("z")
            a = self.cond_arg()
            self.loop_depth += 1
            extra = ""
            if k in ("while", "dowhile") and rng.random() < 0.3:
                # the condition is evaluated in a scope of its own on every iteration
                self.f("loop:condition-with-temporaries")
                extra = " und %s" % self.cond(1)
                self.budget = 3
            if k == "while":
                self.f("loop:while")
                body = ["Erhöhe %s um 1." % z] + self.block(depth + 1)
                out = ["Die Zahl %s ist 0." % z, "Solange (%s kleiner als %s ist)%s, mache:" % (z, a, extra)] + ind(body)
            elif k == "dowhile":
                self.f("loop:do-while")
                body = ["Erhöhe %s um 1." % z] + self.block(depth + 1)
                out = ["Die Zahl %s ist 0." % z, "Mache:"] + ind(body) + ["Solange (%s kleiner als %s ist)%s." % (z, a, extra)]
            elif k == "repeat":
                self.f("loop:repeat")
                out = ["Wiederhole:"] + ind(self.block(depth + 1)) + ["%s Mal." % a]
            else:
                self.f("loop:for")
                step = rng.choice(["", "", " mit Schrittgröße 2"])
                out = ["Für jede Zahl %s von 1 bis %s%s, mache:" % (z, a, step)] + ind(self.block(depth + 1))
            self.loop_depth -= 1
            return out
        if k == "foreach":
            LT = rng.choice([TL, ZL, BL, VL, TEXT])
            head, ET = FOREACH[LT]
            x = self.fresh("e")
            # the iterated expression must not leave unclaimed temporaries behind (stream B covers that)
            src = rng.choice(["var", "lit", "call"])
            vs = self.vars_of(LT)
            if src == "var" and vs:
                e = rng.choice(vs)
            elif src == "call" and [fn for fn in self.fns if fn.ret == LT and all(not p[2] and p[1] == "Zahl" for p in fn.params)]:
                fn = rng.choice([fn for fn in self.fns if fn.ret == LT and all(not p[2] and p[1] == "Zahl" for p in fn.params)])
                e = "(%s)" % fn.call([self.cond_arg() for _ in fn.params])
            else:
                save = self.budget
                self.budget = 0
                e = "(%s)" % self.lit(LT, 3) if not self.lit_is_atomic(LT) else self.lit(LT, 3)
                self.budget = save
            self.f("loop:foreach/%s" % LT)
            self.loop_depth += 1
            self.scopes.append({x: ET} if ET else {})
            body = self.block(depth + 1)
            self.scopes.pop()
            self.loop_depth -= 1
            return ["%s %s in %s, mache:" % (head, x, e)] + ind(body)
        if k == "break":
            self.f("exit:break")
            return ["Wenn %s, verlasse die Schleife." % self.cond()]
        if k == "continue":
            self.f("exit:continue")
            return ["Wenn %s, fahre mit der Schleife fort." % self.cond()]
        if k == "return":
            self.f("exit:return-nested/%s" % (self.in_func or "nichts"))
            if self.in_func == "nichts":
                return ["Wenn %s, verlasse die Funktion." % self.cond()]
            return ["Wenn %s, gib %s zurück." % (self.cond(), self.expr(self.in_func))]
        raise ValueError(k)

    def expr_not_mentioning(self, T, v):
        """right-hand side of an assignment to (a part of) v: must not read v itself (self-assignment is stream B)"""
        for _ in range(10):
            e = self.expr(T)
            if not re.search(r"\b%s\b" % re.escape(v), e):
                return e
        return "(%s)" % self.lit(T, 3) if not self.lit_is_atomic(T) else self.lit(T, 3)

    # ---- functions
    def function(self):
        rng = self.rng
        name = self.fresh("fn")
        ret = rng.choice(NPTYPES + [None])
        params = []
        for i in range(rng.randint(0, 3)):
            T = rng.choice(NPTYPES + ["Zahl"])
            byref = T != "Zahl" and rng.random() < 0.3
            params.append(("p%d" % (i + 1), T, byref))
        alias = name + "".join(" <%s>" % p[0] for p in params)
        fn = Fn(name, params, ret, alias)
        self.in_func = ret if ret is not None else "nichts"
        self.scopes = [{p[0]: p[1] for p in params if p[1] != "Zahl"}]
        self.refparams = {p[0] for p in params if p[2]}
        saved_loop = self.loop_depth
        self.loop_depth = 0
        body = []
        for _ in range(rng.randint(1, 4)):
            body += self.stmt(1)
        if ret is not None:
            self.f("role:return-value/%s" % ret)
            body.append("Gib %s zurück." % self.expr(ret))
        self.loop_depth = saved_loop
        self.in_func = None
        self.scopes = []
        if not params:
            sig = "Die Funktion %s" % name
        elif len(params) == 1:
            sig = "Die Funktion %s mit dem Parameter %s vom Typ %s," % (name, params[0][0], self.ptype(params[0]))
        else:
            sig = "Die Funktion %s mit den Parametern %s vom Typ %s," % (name, self.join_und([p[0] for p in params]), self.join_und([self.ptype(p) for p in params]))
        sig += " gibt %s zurück, macht:" % (RETART[ret] if ret else "nichts")
        text = [sig] + ["\t" + l for l in body] + ["Und kann so benutzt werden:", '\t"%s"' % alias, ""]
        self.fns.append(fn)
        return text

    @staticmethod
    def ptype(p):
        return "Zahl" if p[1] == "Zahl" else (REFNAME[p[1]] if p[2] else TYNAME[p[1]])

    @staticmethod
    def join_und(xs):
        return xs[0] if len(xs) == 1 else ", ".join(xs[:-1]) + " und " + xs[-1]

    def program(self):
        rng = self.rng
        lines = []
        # globals of every type first (read-only inside functions)
        self.scopes = [{}]
        glob = []
        self.budget = 0
        for T in NPTYPES:
            n = self.fresh("g")
            glob.append(decl(T, n, ("(%s)" % self.lit(T, 3)) if not self.lit_is_atomic(T) else self.lit(T, 3)))
            self.globals_ro[n] = T
        fns = []
        for _ in range(rng.randint(1, 3)):
            fns += self.function()
        self.scopes = [{}]
        self.in_func = None
        main = []
        for _ in range(rng.randint(2, 5)):
            main += self.stmt(0)
        return HEAD + "\n".join(glob) + "\n\n" + "\n".join(fns) + "\n" + "\n".join(main) + "\n"


# =================================================================================================
# Stream M: Text-subset skeleton programs shared with the Coq model (coq/Lower/Own.v)
# =================================================================================================
# Every control-flow decision of the program is a call of `nimm`, which reads the next character of
# the tape given as first command-line argument; the model consumes the same tape as its oracle.
# Counting loops have static iteration counts.  All texts are non-empty ASCII, all lists have two
# elements, so every size in the skeleton is known without interpreting the program.
MHEAD = '''Binde "Duden/Ausgabe" ein.
Binde "Duden/Laufzeit" ein.

Die Text Liste args ist die Befehlszeilenargumente.
Der Text band ist (args an der Stelle 2).
Die Zahl bandpos ist 0.

Die Funktion nimm gibt einen Wahrheitswert zurück, macht:
	Erhöhe bandpos um 1.
	Wenn bandpos größer als (die Länge von band) ist, gib falsch zurück.
	Gib ((band an der Stelle bandpos) gleich '1' ist) zurück.
Und kann so benutzt werden:
	"nimm"

'''
MARK1, MARK2 = 1000, 1001


class MFn:
    def __init__(self, fid, params, ret):
        self.fid, self.params, self.ret = fid, params, ret      # params [(vid, 'v'|'r', 'T'|'L')]
        self.const = {}       # vid -> bool (const_func_param.go re-implemented on the skeleton)
        self.body_sx = None
        self.text = None

    def alias(self):
        return "f%d" % self.fid + "".join(" <v%d>" % p[0] for p in self.params)

    def sx(self, opt):
        ps = []
        for (vid, m, ty) in self.params:
            mm = m
            if m == "v" and opt >= 2 and self.const.get(vid, False):
                mm = "c"
            ps.append("(%d %s 1)" % (vid, mm))
        return "(fun %d (%s) %s)" % (1 if self.ret else 0, " ".join(ps), self.body_sx)


class GenM:
    def __init__(self, rng, feat, risky=None):
        self.rng, self.feat, self.risky = rng, feat, risky
        self.nv = 0
        self.fns = []
        self.scopes = []
        self.cur = None            # MFn being generated
        self.loop = 0
        self.planted = False
        self.budget = 0

    def f(self, k):
        self.feat[k] = self.feat.get(k, 0) + 1

    def newvar(self):
        self.nv += 1
        return self.nv

    def vars_of(self, ty):
        return [v for sc in self.scopes for (v, t) in sc if t == ty]

    def word(self):
        n = self.rng.randint(1, 8)
        return "".join(self.rng.choice("abcdefghijklmnopqrstuvwxyz") for _ in range(n))

    def snap(self):
        return dict(self.cur.const) if self.cur is not None else None

    def restore(self, snap):
        """a generated expression is discarded: forget the const-ness marks it caused"""
        if self.cur is not None and snap is not None:
            self.cur.const = snap

    def mark_nonconst(self, ddp):
        """an argument written as a bare parameter name passed to a non-const parameter"""
        m = re.fullmatch(r"v(\d+)", ddp)
        if m and self.cur is not None and int(m.group(1)) in self.cur.const:
            self.cur.const[int(m.group(1))] = False

    # ---- expressions: (sx, ddp, is_temp)
    def text(self, d=0):
        rng = self.rng
        ch = ["lit", "lit"]
        if self.vars_of("T"):
            ch += ["var", "var", "var"]
        if self.vars_of("L"):
            ch += ["part"]
        if d < 3 and self.budget > 0:
            self.budget -= 1
            ch += ["concat", "concat", "derive", "falls", "elemtemp"]
            if [fn for fn in self.fns if fn.ret == "T"]:
                ch += ["call", "call"]
        k = rng.choice(ch)
        if k == "lit":
            w = self.word()
            return "(L %d)" % (len(w) + 1), '"%s"' % w, True
        if k == "elemtemp":
            return self.elem_of_temp(d)
        if k == "var":
            v = rng.choice(self.vars_of("T"))
            return "(V %d)" % v, "v%d" % v, False
        if k == "part":
            v = rng.choice(self.vars_of("L"))
            i = rng.randint(1, 2)
            self.f("M:element-read")
            return "(Q %d %d)" % (v, i), "(v%d an der Stelle %d)" % (v, i), False
        if k == "concat":
            a, b = self.text(d + 1), self.text(d + 1)
            self.f("M:concat")
            return "(C %s %s)" % (a[0], b[0]), "(%s verkettet mit %s)" % (a[1], b[1]), True
        if k == "derive":
            a = self.text(d + 1)
            self.f("M:slice")
            return "(D %s 2)" % a[0], "(%s bis zum 1. Element)" % a[1], True
        if k == "falls":
            # an arm has a scope of its own: a value derived from a temporary of the arm must leave it as a copy
            a = self.elem_of_temp(d + 1) if rng.random() < 0.3 else self.text(d + 1)
            sn = self.snap()
            b = self.elem_of_temp(d + 1) if rng.random() < 0.3 else self.text(d + 1)
            if not a[2] and not b[2]:
                self.restore(sn)
                w = self.word()
                b = ("(L %d)" % (len(w) + 1), '"%s"' % w, True)
            c = self.effects(d + 1)
            self.f("M:falls")
            return "(I %s %s %s)" % (c[0], a[0], b[0]), "(%s, falls %s, ansonsten %s)" % (a[1], self.as_cond(c), b[1]), True
        if k == "call":
            return self.call(rng.choice([fn for fn in self.fns if fn.ret == "T"]), d)
        raise ValueError(k)

    def elem_of_temp(self, d):
        """element of a TEMPORARY list (list literal, function result, `falls`): BIN_INDEX copies it into a temporary"""
        for _ in range(4):
            sn = self.snap()
            l = self.lst(d + 1)
            if l[2]:
                break
            self.restore(sn)
        else:
            a, b = self.text(3), self.text(3)
            l = ("(B 32 %s %s)" % (a[0], b[0]), "(eine Liste, die aus %s, %s besteht)" % (a[1], b[1]), True)
        i = self.rng.randint(1, 2)
        self.f("M:element-of-temporary-list")
        return "(G %s %d)" % (l[0], i), "(%s an der Stelle %d)" % (l[1], i), True

    def lst(self, d=0):
        rng = self.rng
        ch = ["build"]
        if self.vars_of("L"):
            ch += ["var", "var"]
        if d < 3 and self.budget > 0:
            self.budget -= 1
            ch += ["falls"]
            if [fn for fn in self.fns if fn.ret == "L"]:
                ch += ["call", "call"]
        k = rng.choice(ch)
        if k == "build":
            a, b = self.text(d + 1), self.text(d + 1)
            self.f("M:list-literal")
            return "(B 32 %s %s)" % (a[0], b[0]), "(eine Liste, die aus %s, %s besteht)" % (a[1], b[1]), True
        if k == "var":
            v = rng.choice(self.vars_of("L"))
            return "(V %d)" % v, "v%d" % v, False
        if k == "falls":
            a = self.lst(d + 1)
            sn = self.snap()
            b = self.lst(d + 1)
            if not a[2] and not b[2]:
                self.restore(sn)
                x, y = self.text(3), self.text(3)
                b = ("(B 32 %s %s)" % (x[0], y[0]), "(eine Liste, die aus %s, %s besteht)" % (x[1], y[1]), True)
            c = self.effects(d + 1)
            return "(I %s %s %s)" % (c[0], a[0], b[0]), "(%s, falls %s, ansonsten %s)" % (a[1], self.as_cond(c), b[1]), True
        if k == "call":
            return self.call(rng.choice([fn for fn in self.fns if fn.ret == "L"]), d)
        raise ValueError(k)

    def any_np(self, d):
        return self.text(d) if self.rng.random() < 0.7 else self.lst(d)

    def call(self, fn, d):
        used = {}
        # Referenz arguments first, so that no by-value argument mentions them (aliasing is C08's topic)
        for (vid, m, ty) in fn.params:
            if m == "r":
                cands = [v for v in self.vars_of(ty) if v not in used.values()]
                if not cands:
                    # no variable to bind: give up on this call, use a literal instead
                    w = self.word()
                    if fn.ret == "L":
                        return "(B 32 (L %d) (L %d))" % (len(w) + 1, len(w) + 1), '(eine Liste, die aus "%s", "%s" besteht)' % (w, w), True
                    return "(L %d)" % (len(w) + 1), '"%s"' % w, True
                used[vid] = self.rng.choice(cands)
        sxa, ddpa = [], []
        for (vid, m, ty) in fn.params:
            if m == "r":
                v = used[vid]
                sxa.append("(r %d)" % v)
                ddpa.append("v%d" % v)
                if not fn.const.get(vid, True):
                    self.mark_nonconst("v%d" % v)
                self.f("M:arg-by-Referenz")
            else:
                # since 91b5d4a a variable may be passed by value and by Referenz in one call (the elision rule decides)
                allow_alias = self.rng.random() < 0.5
                for _ in range(8):
                    sn = self.snap()
                    e = self.text(d + 1) if ty == "T" else self.lst(d + 1)
                    if allow_alias or not any(re.search(r"\bv%d\b" % u, e[1]) for u in used.values()):
                        break
                    self.restore(sn)
                else:
                    w = self.word()
                    e = ("(L %d)" % (len(w) + 1), '"%s"' % w, True) if ty == "T" else ("(B 32 (L 2) (L 2))", '(eine Liste, die aus "a", "b" besteht)', True)
                sxa.append("(v %s)" % e[0])
                ddpa.append(e[1])
                if not fn.const.get(vid, True):
                    self.mark_nonconst(e[1])
                self.f("M:arg-by-value")
        al = fn.alias()
        for (vid, m, ty), a in zip(fn.params, ddpa):
            al = al.replace("<v%d>" % vid, a)
        return "(F %d %s)" % (fn.fid, " ".join(sxa)), "(%s)" % al, True

    # ---- primitive-valued expressions with effects: (sx, always-true DDP text or None)
    def effects(self, d=0):
        rng = self.rng
        r = rng.random()
        if d >= 3 or r < 0.45 or self.budget <= 0:
            return "P", None
        self.budget -= 1
        if r < 0.65:
            a = self.any_np(d + 1)
            self.f("M:unused-temporary")
            return "(U1 %s)" % a[0], "((die Länge von %s) größer als -1 ist)" % a[1]
        if r < 0.78:
            a, b = self.any_np(d + 1), self.any_np(d + 1)
            return "(U2 %s %s)" % (a[0], b[0]), "(((die Länge von %s) plus (die Länge von %s)) größer als -1 ist)" % (a[1], b[1])
        a, b = self.effects(d + 1), self.effects(d + 1)
        ta, tb = a[1] or "wahr", b[1] or "wahr"
        if r < 0.9:
            self.f("M:und")
            return "(A %s %s)" % (a[0], b[0]), "(((%s und nimm) und %s) oder wahr)" % (ta, tb)
        self.f("M:oder")
        return "(A %s %s)" % (a[0], b[0]), "((%s und (nicht nimm)) oder %s)" % (ta, tb)

    @staticmethod
    def as_cond(c):
        return "nimm" if c[1] is None else "(%s und nimm)" % c[1]

    def num(self, v, allow_effects):
        """numeric expression of value v, possibly with effects: (sx, ddp)"""
        if not allow_effects or self.rng.random() < 0.5:
            return "P", str(v)
        a = self.any_np(2)
        return "(U1 %s)" % a[0], "(((die Länge von %s) mal 0) plus %d)" % (a[1], v)

    # ---- statements: (sx, lines)
    def block(self, d, pre=None):
        self.scopes.append(list(pre or []))
        out = [self.stmt(d) for _ in range(self.rng.randint(1, 3))]
        self.scopes.pop()
        return "(b (S %s))" % " ".join(o[0] for o in out), [l for o in out for l in o[1]]

    def stmt(self, d):
        rng = self.rng
        self.budget = 3
        ind = lambda ls: ["\t" + l for l in ls]
        kinds = ["decl", "decl", "assign", "assignpart", "write", "callstmt"]
        if d < 3:
            kinds += ["if", "if", "while", "dowhile", "repeat", "for", "foreach", "block"]
        if self.loop > 0:
            kinds += ["break", "continue"]
        if self.cur is not None and d > 0:
            kinds += ["return", "return"]
        k = rng.choice(kinds)
        if k == "decl":
            ty = "T" if rng.random() < 0.65 else "L"
            e = self.text() if ty == "T" else self.lst()
            v = self.newvar()
            self.scopes[-1].append((v, ty))
            self.f("M:decl-from-%s" % ("temp" if e[2] else "var"))
            return "(d %d %s)" % (v, e[0]), ["%s v%d ist %s." % ("Der Text" if ty == "T" else "Die Text Liste", v, e[1])]
        if k == "assign":
            ty = "T" if rng.random() < 0.65 else "L"
            vs = self.vars_of(ty)
            if not vs:
                return self.stmt(d)
            v = rng.choice(vs)
            for _ in range(10):
                sn = self.snap()
                e = self.text() if ty == "T" else self.lst()
                # not the variable itself (self-assignment is a construct probe) and no self-doubling concatenations
                if not re.search(r"\bv%d\b" % v, e[1]):
                    break
                self.restore(sn)
            else:
                return self.stmt(d)
            if self.cur is not None and v in self.cur.const:
                self.cur.const[v] = False
            self.f("M:assign-from-%s" % ("temp" if e[2] else "var"))
            return "(= %d %s)" % (v, e[0]), ["Speichere %s in v%d." % (e[1], v)]
        if k == "assignpart":
            vs = self.vars_of("L")
            if not vs:
                return self.stmt(d)
            v = rng.choice(vs)
            i = rng.randint(1, 2)
            for _ in range(10):
                sn = self.snap()
                e = self.text()
                if not re.search(r"\bv%d\b" % v, e[1]):
                    break
                self.restore(sn)
            else:
                return self.stmt(d)
            if self.cur is not None and v in self.cur.const:
                self.cur.const[v] = False
            self.f("M:element-assign")
            return "(p %d %d %s)" % (v, i, e[0]), ["Speichere %s in v%d an der Stelle %d." % (e[1], v, i)]
        if k == "write":
            e = self.text()
            self.mark_nonconst(e[1])      # extern callee: parameters are assumed non-const
            self.f("M:extern-call")
            return "(e (X - (v %s)))" % e[0], ["Schreibe den Text %s." % e[1]]
        if k == "callstmt":
            if not self.fns:
                return self.stmt(d)
            fn = rng.choice(self.fns)
            c = self.call(fn, 0)
            if not c[0].startswith("(F "):
                return self.stmt(d)
            self.f("M:discarded-result" if fn.ret else "M:call-statement")
            return "(e %s)" % c[0], [c[1][1:-1] + "."]
        if k == "block":
            b = self.block(d + 1)
            return b[0], ["Wenn wahr, dann:"] + ind(b[1])
        if k == "if":
            c = self.effects()
            a = self.block(d + 1)
            if rng.random() < 0.5:
                b = self.block(d + 1)
                return "(i %s %s %s)" % (c[0], a[0], b[0]), ["Wenn %s, dann:" % self.as_cond(c)] + ind(a[1]) + ["Sonst:"] + ind(b[1])
            return "(i %s %s (b K))" % (c[0], a[0]), ["Wenn %s, dann:" % self.as_cond(c)] + ind(a[1])
        if k in ("while", "dowhile"):
            if self.risky == "loop-condition-temporaries" and not self.planted:
                c = self.effects()
                if c[1] is not None:
                    self.planted = True
            else:
                c = self.effects() if self.risky is None and rng.random() < 0.35 else ("P", None)
                if c[1] is not None:
                    self.f("M:loop-condition-with-temporaries")
            self.loop += 1
            b = self.block(d + 1)
            self.loop -= 1
            self.f("M:" + k)
            if k == "while":
                return "(w %s %s)" % (c[0], b[0]), ["Solange %s, mache:" % self.as_cond(c)] + ind(b[1])
            return "(o %s %s)" % (b[0], c[0]), ["Mache:"] + ind(b[1]) + ["Solange %s." % self.as_cond(c)]
        if k == "repeat":
            n = rng.randint(0, 3)
            c = self.num(n, True)
            self.loop += 1
            b = self.block(d + 1)
            self.loop -= 1
            self.f("M:repeat")
            return "(r %s %d %s)" % (c[0], n, b[0]), ["Wiederhole:"] + ind(b[1]) + ["%s Mal." % c[1]]
        if k == "for":
            n = rng.randint(0, 3)
            down = rng.random() < 0.3
            hdr_fx = self.risky == "for-header-temporaries" and not self.planted
            to_fx = self.risky == "for-bound-temporaries" and not self.planted
            fr = self.num(n if down else 1, hdr_fx)
            st = self.num(-1 if down else 1, hdr_fx)
            to = self.num(1 if down else n, to_fx)
            if (hdr_fx and (fr[0] != "P" or st[0] != "P")) or (to_fx and to[0] != "P"):
                self.planted = True
            i = self.newvar()
            self.loop += 1
            b = self.block(d + 1)
            self.loop -= 1
            self.f("M:for-down" if down else "M:for-up")
            return ("(f %s %s %s %d %d %s)" % (fr[0], to[0], st[0], 1 if down else 0, n, b[0]),
                    ["Für jede Zahl i%d von %s bis %s mit Schrittgröße %s, mache:" % (i, fr[1], to[1], st[1])] + ind(b[1]))
        if k == "foreach":
            x = self.newvar()
            hdr_fx = self.risky == "foreach-header-temporaries" and not self.planted
            if rng.random() < 0.5:
                # Text Liste literal with two equal-sized literal elements (optionally read through an expression that leaves temporaries)
                w1, w2 = self.word(), self.word()
                w2 = (w2 * 8)[:len(w1)]
                sx_e, ddp_e = "(B 32 (L %d) (L %d))" % (len(w1) + 1, len(w1) + 1), '(eine Liste, die aus "%s", "%s" besteht)' % (w1, w2)
                if hdr_fx:
                    # (liste, falls (<temporaries> und nimm), ansonsten liste): the condition's temporaries stay in the loop scope
                    a = self.any_np(2)
                    sx_e = "(I (U1 %s) %s %s)" % (a[0], sx_e, sx_e)
                    ddp_e = "(%s, falls (((die Länge von %s) größer als -1 ist) und nimm), ansonsten %s)" % (ddp_e, a[1], ddp_e)
                    self.planted = True
                self.loop += 1
                b = self.block(d + 1, pre=[(x, "T")])
                self.loop -= 1
                self.f("M:foreach-list")
                return ("(E %d %d %s 2 %s)" % (x, len(w1) + 1, sx_e, b[0]), ["Für jeden Text v%d in %s, mache:" % (x, ddp_e)] + ind(b[1]))
            w = self.word()
            sx_e, ddp_e = "(L %d)" % (len(w) + 1), '"%s"' % w
            if hdr_fx:
                a = self.any_np(2)
                sx_e = "(I (U1 %s) %s %s)" % (a[0], sx_e, sx_e)
                ddp_e = "(%s, falls (((die Länge von %s) größer als -1 ist) und nimm), ansonsten %s)" % (ddp_e, a[1], ddp_e)
                self.planted = True
            self.loop += 1
            b = self.block(d + 1)
            self.loop -= 1
            self.f("M:foreach-text")
            return ("(E %d - %s %d %s)" % (x, sx_e, len(w), b[0]), ["Für jeden Buchstaben c%d in %s, mache:" % (x, ddp_e)] + ind(b[1]))
        if k == "break":
            self.f("M:break")
            return "(i P (b B) (b K))", ["Wenn nimm, verlasse die Schleife."]
        if k == "continue":
            self.f("M:continue")
            return "(i P (b N) (b K))", ["Wenn nimm, fahre mit der Schleife fort."]
        if k == "return":
            self.f("M:return-nested")
            if self.cur.ret is None:
                return "(i P (b (R)) (b K))", ["Wenn nimm, verlasse die Funktion."]
            e = self.text() if self.cur.ret == "T" else self.lst()
            return "(i P (b (R %s)) (b K))" % e[0], ["Wenn nimm, gib %s zurück." % e[1]]
        raise ValueError(k)

    def function(self):
        rng = self.rng
        fid = len(self.fns)
        params = []
        for _ in range(rng.randint(0, 2)):
            params.append((self.newvar(), rng.choice("vvr"), rng.choice("TTL")))
        fn = MFn(fid, params, rng.choice(["T", "T", "L", None]))
        fn.const = {p[0]: True for p in params}
        self.cur = fn
        self.scopes = [[(p[0], p[2]) for p in params]]
        saved = self.loop
        self.loop = 0
        body = [self.stmt(1) for _ in range(rng.randint(1, 4))]
        if fn.ret is not None:
            e = self.text() if fn.ret == "T" else self.lst()
            body.append(("(R %s)" % e[0], ["Gib %s zurück." % e[1]]))
            self.f("M:return-%s" % ("temp" if e[2] else "var"))
        self.loop = saved
        self.cur = None
        self.scopes = []
        fn.body_sx = "(S %s)" % " ".join(b[0] for b in body)
        tn = {"T": "Text", "L": "Text Liste"}
        rn = {"T": "Text Referenz", "L": "Text Listen Referenz"}
        names = ["v%d" % p[0] for p in params]
        tys = [(rn if p[1] == "r" else tn)[p[2]] for p in params]
        if not params:
            sig = "Die Funktion f%d" % fid
        elif len(params) == 1:
            sig = "Die Funktion f%d mit dem Parameter %s vom Typ %s," % (fid, names[0], tys[0])
        else:
            sig = "Die Funktion f%d mit den Parametern %s vom Typ %s," % (fid, GenA.join_und(names), GenA.join_und(tys))
        sig += " gibt %s zurück, macht:" % ({"T": "einen Text", "L": "eine Text Liste", None: "nichts"}[fn.ret])
        fn.text = [sig] + ["\t" + l for b in body for l in b[1]] + ["Und kann so benutzt werden:", '\t"%s"' % fn.alias(), ""]
        self.fns.append(fn)

    def program(self):
        for _ in range(self.rng.randint(1, 3)):
            self.function()
        self.scopes = [[]]
        main = [self.stmt(0) for _ in range(self.rng.randint(2, 6))]
        src = MHEAD + "\n".join(l for fn in self.fns for l in fn.text) + "\n"
        src += 'Der Text marke1 ist "%s".\n' % ("m" * (MARK1 - 1))
        src += "Wenn wahr, dann:\n" + "\n".join("\t" + l for s_ in main for l in s_[1]) + "\n"
        src += 'Der Text marke2 ist "%s".\n' % ("n" * (MARK2 - 1))
        main_sx = "(b (S %s))" % " ".join(s_[0] for s_ in main)
        sx = lambda opt: "(prog (%s) %s)" % (" ".join(fn.sx(opt) for fn in self.fns), main_sx)
        return src, sx


def canon_events(ev):
    """rename blocks by order of creation (an address handed out again after a free is a new block); drop calls that
    do nothing (free of the null pointer)"""
    names = {0: 0}
    cnt = 0
    out = []
    for (p, o, n, r) in ev:
        if p == 0 and n == 0:
            continue
        pn = names.get(p, -1)
        if n != 0 and r != 0 and o != n:
            cnt += 1
            names[r] = cnt
        out.append((pn, o, n, names.get(r, -1)))
    # the variables of a scope are freed in Go map iteration order (scope.variables is a map): the order inside a run of
    # consecutive frees is not an observable of the ownership discipline
    res, run = [], []
    for e in out:
        if e[2] == 0:
            run.append(e)
        else:
            res += sorted(run)
            run = []
            res.append(e)
    return res + sorted(run)


def region(ev):
    """events strictly between the two marker allocations"""
    a = b = None
    for i, e in enumerate(ev):
        if e[0] == 0 and e[2] == MARK1 and a is None:
            a = i
        if e[0] == 0 and e[2] == MARK2:
            b = i
    if a is None or b is None:
        return None
    return ev[a + 1:b]


# =================================================================================================
# Stream B: construct probes — one suspicious construct x type x variant per program
# =================================================================================================
BHEAD = HEAD + '''
Wir nennen die Kombination aus
	der Variable v mit Standardwert "kv",
	der Zahl n mit Standardwert 1,
eine Kiste, und erstellen sie so:
	"eine Standardkiste"

'''
# a temporary (expression that allocates) and a variable initialiser per type
BVAL = {
    TEXT: ['"hallo welt"', '("ab" verkettet mit "cd")'],
    TL: ['(eine Liste, die aus "a", "bc" besteht)'],
    ZL: ['(eine Liste, die aus 1, 2, 3 besteht)'],
    BOX: ['(eine Box mit Text "bt")', '(eine Standardbox)'],
    BL: ['(eine Liste, die aus (eine Standardbox), (eine Box mit Text "q") besteht)'],
    VT: ['("vtext" als Variable)'],
    VZ: ['((eine Liste, die aus 4, 5 besteht) als Variable)'],
    VB: ['((eine Standardbox) als Variable)'],
    VN: ['(5 als Variable)'],
    VL: ['(eine Liste, die aus ("x" als Variable), (2 als Variable) besteht)'],
}
USE = {  # a statement reading variable `x` of the type afterwards (so that dangling values are touched)
    TEXT: "Schreibe den Text x.", TL: "Schreibe den Text (x an der Stelle 1).", ZL: "Schreibe die Zahl (x an der Stelle 1).",
    BOX: "Schreibe den Text (t von x).", BL: "Schreibe den Text (t von (x an der Stelle 1)).", VT: "Schreibe den Text (x als Text).",
    VZ: "Schreibe die Zahl ((x als Zahlen Liste) an der Stelle 1).", VB: "Schreibe den Text (t von (x als Box)).",
    VN: "Schreibe die Zahl (x als Zahl).", VL: "Schreibe die Zahl (die Länge von x).",
}


def probes():
    """list of (key, source, opts, needs_asan_to_see) — every program must be balanced and sanitizer-clean"""
    P = []

    def add(key, body, opts=(0,), head=BHEAD):
        P.append((key, head + body + '\nSchreibe den Text "|ende".\n', opts))

    # ---- concatenation scalar (+) scalar -> list, per element type and operand kinds
    for (elem, LT, T, name) in [("Zahl", "Zahlen Liste", None, "Zahl"), ("Kommazahl", "Kommazahlen Liste", None, "Kommazahl"),
                                ("Buchstabe", "Buchstaben Liste", None, "Buchstabe"), ("Box", "Box Liste", BOX, "Box"),
                                ("Variable", "Variablen Liste", VT, "Variable"), ("Variable", "Variablen Liste", VB, "Variable(Box)")]:
        if T is None:
            lit = {"Zahl": ("1", "2"), "Kommazahl": ("1,5", "2,5"), "Buchstabe": ("'a'", "'b'")}[elem]
            add("construct=concat-scalar-scalar elem=%s operands=literals" % name,
                "Die %s l ist (%s verkettet mit %s).\nSchreibe die Zahl (die Länge von l).\n" % (LT, lit[0], lit[1]))
            continue
        v = BVAL[T][0]
        for ops, a, b in (("variables", "p", "q"), ("temporaries", v, BVAL[T][-1]), ("variable-temporary", "p", v)):
            body = "%s\n%s\nDie %s l ist (%s verkettet mit %s).\nSchreibe die Zahl (die Länge von l).\n" % (decl(T, "p", v), decl(T, "q", BVAL[T][-1]), LT, a, b)
            body += "Für jede %s e in l, mache:\n\tSchreibe die Zahl 1.\n" % ("Box" if T == BOX else "Variable")
            add("construct=concat-scalar-scalar elem=%s operands=%s" % (name, ops), body, opts=(0, 2))
    # ---- self assignment
    for T in NPTYPES:
        v = BVAL[T][0]
        add("construct=self-assignment type=%s form=direct" % T, "%s\nSpeichere x in x.\n%s\n" % (decl(T, "x", v), USE[T]))
        fn = ("Die Funktion kopiere mit den Parametern a und b vom Typ %s und %s, gibt nichts zurück, macht:\n\tSpeichere a in b.\n"
              "Und kann so benutzt werden:\n\t\"kopiere <a> nach <b>\"\n\n") % (REFNAME[T], REFNAME[T])
        add("construct=self-assignment type=%s form=two-Referenz-parameters" % T, fn + "%s\nkopiere x nach x.\n%s\n" % (decl(T, "x", v), USE[T]), opts=(0, 2))
        # control: the same function on two different variables must be fine
        add("construct=assignment-through-Referenz type=%s form=distinct-variables" % T,
            fn + "%s\n%s\nkopiere x nach y.\n%s\n" % (decl(T, "x", v), decl(T, "y", BVAL[T][-1]), USE[T]))
    add("construct=self-assignment type=Text form=list-element", decl(TL, "x", BVAL[TL][0]) + "\nSpeichere (x an der Stelle 1) in x an der Stelle 1.\n" + USE[TL] + "\n")
    add("construct=self-assignment type=Text form=field", decl(BOX, "x", BVAL[BOX][0]) + "\nSpeichere (t von x) in t von x.\n" + USE[BOX] + "\n")
    add("construct=self-assignment type=VarListe form=container-into-own-Variable-element",
        decl(VL, "x", BVAL[VL][0]) + "\nSpeichere x in x an der Stelle 1.\n" + USE[VL] + "\n")
    add("construct=self-assignment type=Kiste form=container-into-own-Variable-field",
        "Die Kiste k ist eine Standardkiste.\nSpeichere k in v von k.\nSchreibe die Zahl (n von k).\n")
    add("construct=assignment type=Text form=element-to-other-element", decl(TL, "x", BVAL[TL][0]) + "\nSpeichere (x an der Stelle 1) in x an der Stelle 2.\n" + USE[TL] + "\n")
    # ---- loops whose header leaves temporaries behind
    for T in (TEXT, TL, ZL, BL, VL):
        tmp = BVAL[T][0]
        ln = "(die Länge von %s)" % tmp
        add("construct=continue-with-header-temporaries loop=for type=%s" % T,
            "Die Zahl n ist 0.\nFür jede Zahl i von ((%s mal 0) plus 1) bis 3, mache:\n\tErhöhe n um 1.\n\tWenn n größer als 0 ist, fahre mit der Schleife fort.\n" % ln)
        add("construct=break-with-header-temporaries loop=for type=%s" % T,
            "Die Zahl n ist 0.\nFür jede Zahl i von ((%s mal 0) plus 1) bis 3, mache:\n\tErhöhe n um 1.\n\tWenn n größer als 1 ist, verlasse die Schleife.\n" % ln)
        add("construct=for-bound-temporaries type=%s iterations=2" % T, "Die Zahl n ist 0.\nFür jede Zahl i von 1 bis ((%s mal 0) plus 2), mache:\n\tErhöhe n um 1.\n" % ln)
        add("construct=for-bound-temporaries type=%s iterations=0" % T, "Die Zahl n ist 0.\nFür jede Zahl i von 1 bis (%s mal 0), mache:\n\tErhöhe n um 1.\n" % ln)
        add("construct=loop-condition-temporaries loop=while type=%s" % T,
            "Die Zahl n ist 0.\nSolange n kleiner als ((%s mal 0) plus 3) ist, mache:\n\tErhöhe n um 1.\n" % ln)
        add("construct=loop-condition-temporaries loop=do-while type=%s" % T,
            "Die Zahl n ist 0.\nMache:\n\tErhöhe n um 1.\nSolange n kleiner als ((%s mal 0) plus 3) ist.\n" % ln)
        add("construct=repeat-count-temporaries type=%s" % T, "Die Zahl n ist 0.\nWiederhole:\n\tErhöhe n um 1.\n((%s mal 0) plus 3) Mal.\n" % ln)
    for LT, src in ((TL, '(eine Liste, die aus "a", "b", "c" besteht)'), (ZL, "(eine Liste, die aus 1, 2, 3 besteht)"), (TEXT, '"abc"')):
        head, ET = FOREACH[LT]
        e = "(%s, falls ((die Länge von %s) größer als -1 ist), ansonsten %s)" % (src, BVAL[TEXT][1], src)
        add("construct=continue-with-header-temporaries loop=foreach type=%s" % LT,
            "Die Zahl n ist 0.\n%s e in %s, mache:\n\tErhöhe n um 1.\n\tWenn n größer als 0 ist, fahre mit der Schleife fort.\n" % (head, e))
        add("construct=break-with-header-temporaries loop=foreach type=%s" % LT,
            "Die Zahl n ist 0.\n%s e in %s, mache:\n\tErhöhe n um 1.\n\tWenn n größer als 1 ist, verlasse die Schleife.\n" % (head, e))
        add("construct=foreach-with-header-temporaries type=%s exit=fallthrough" % LT, "Die Zahl n ist 0.\n%s e in %s, mache:\n\tErhöhe n um 1.\n" % (head, e))
    # return out of loops with header temporaries
    add("construct=return-from-loop loop=foreach type=TextListe",
        "Die Funktion suche gibt einen Text zurück, macht:\n\tFür jeden Text e in (eine Liste, die aus \"a\", \"b\" besteht), mache:\n\t\tWenn e gleich \"b\" ist, gib e zurück.\n\tGib \"nichts\" zurück.\n"
        "Und kann so benutzt werden:\n\t\"suche\"\n\nSchreibe den Text suche.\n")
    add("construct=return-from-loop loop=while-with-condition-temporaries type=Text",
        "Die Funktion suche gibt einen Text zurück, macht:\n\tDie Zahl n ist 0.\n\tSolange n kleiner als (die Länge von (\"ab\" verkettet mit \"cd\")) ist, mache:\n\t\tErhöhe n um 1.\n\t\tWenn n gleich 2 ist, gib \"zwei\" zurück.\n\tGib \"nichts\" zurück.\n"
        "Und kann so benutzt werden:\n\t\"suche\"\n\nSchreibe den Text suche.\n")
    # ---- texts whose first byte is NUL (empty for the runtime, but allocated)
    nul = "((0 als Buchstabe) als Text)"
    add("construct=nul-text-concat form=temporary-left", 'Der Text r ist (%s verkettet mit "abc").\nSchreibe den Text r.\n' % nul)
    add("construct=nul-text-concat form=char-left", "Der Text r ist ('a' verkettet mit %s).\nSchreibe den Text r.\n" % nul)
    add("construct=nul-text-concat form=char-right", "Der Text r ist (%s verkettet mit 'a').\nSchreibe den Text r.\n" % nul)
    add("construct=nul-text-concat form=variable-left-empty-right", 'Der Text e ist %s.\nDer Text r ist (e verkettet mit "").\nSchreibe den Text r.\n' % nul)
    add("construct=nul-text form=declare-and-copy", "Der Text e ist %s.\nDer Text r ist e.\nSchreibe den Text r.\n" % nul)
    # ---- defects named by the property text (anchored in C12 / C08)
    add("construct=text-compare-after-shrink", 'Der Text t ist "äbc".\nSpeichere \'a\' in t an der Stelle 1.\nDer Text u ist "abc".\nWenn t gleich u ist, Schreibe den Text "gleich".\n')
    add("construct=o2-value-and-Referenz-of-one-variable type=Text",
        "Die Funktion f mit den Parametern p und r vom Typ Text und Text Referenz, gibt einen Text zurück, macht:\n\tSpeichere \"ein neuer Wert\" in r.\n\tGib p zurück.\n"
        "Und kann so benutzt werden:\n\t\"f <p> <r>\"\n\nDer Text t ist \"alter wert\".\nDer Text u ist (f t t).\nSchreibe den Text u.\nSchreibe den Text t.\n", opts=(0, 2))
    return P


# ---- values DERIVED from a temporary container: element of a temporary list, field of a temporary Kombination ----
# The derived value must be copied (or claimed) before the scope that holds the container ends.  The scopes that end
# early are the arms of `falls`, the right operand of und/oder, loop conditions / bounds; then every ownership role.
DHEAD = BHEAD + """Die Funktion namen gibt eine Text Liste zurück, macht:
	Gib eine Liste, die aus "Anna-Magdalena Musterfrau", "Bertram von und zu Beispiel", "Cäcilie" besteht zurück.
Und kann so benutzt werden:
	"die Namen"

Die Funktion boxen gibt eine Box Liste zurück, macht:
	Gib eine Liste, die aus (eine Box mit Text "die erste Box der Funktion boxen" und Zahlen (eine Liste, die aus 1, 2, 3 besteht)), (eine Standardbox) besteht zurück.
Und kann so benutzt werden:
	"die Boxen"

Die Funktion variablen gibt eine Variablen Liste zurück, macht:
	Gib eine Liste, die aus ("eine Variable mit Text darin" als Variable), ("noch eine" als Variable) besteht zurück.
Und kann so benutzt werden:
	"die Variablen"

Die Funktion musterbox gibt eine Box zurück, macht:
	Gib (eine Box mit Text ("Text der " verkettet mit "Musterbox") und Texten (eine Liste, die aus "erster Text in der Box", "zweiter" besteht)) zurück.
Und kann so benutzt werden:
	"die Musterbox"

Die Funktion zahlenbox gibt eine Box zurück, macht:
	Gib (eine Box mit Text "zb" und Zahlen (eine Liste, die aus 11, 12, 13, 14 besteht)) zurück.
Und kann so benutzt werden:
	"die Zahlenbox"

Die Text Liste tlv ist eine Liste, die aus "globaler Listentext eins", "zwei", "drei" besteht.
Die Box Liste blv ist eine Liste, die aus (eine Box mit Text "globale Box"), (eine Standardbox) besteht.
Die Variablen Liste vlv ist eine Liste, die aus ("globale Variable" als Variable), ("gv2" als Variable) besteht.
Der Text altText ist "der andere Text".
Die Box altBox ist eine Box mit Text "die andere Box".
Die Variable altVarText ist ("die andere Variable" als Variable).
Die Text Liste altTextListe ist eine Liste, die aus "andere", "Liste" besteht.
Die Zahlen Liste altZahlenListe ist eine Liste, die aus 21, 22 besteht.
""" + "".join(
    "\nDie Funktion id%s mit dem Parameter p vom Typ %s, gibt %s zurück, macht:\n\tGib p zurück.\nUnd kann so benutzt werden:\n\t\"id%s <p>\"\n"
    "\nDie Funktion nimm%s mit dem Parameter p vom Typ %s, gibt nichts zurück, macht:\n\tDie Zahl lokal ist 1.\nUnd kann so benutzt werden:\n\t\"nimm%s <p>\"\n"
    % (T, TYNAME[T], RETART[T], T, T, TYNAME[T], T) for T in (TEXT, BOX, VT, TL, ZL)) + "\n"

DERIVED = {
    "element": [
        (TEXT, "((die Namen) an der Stelle 2)", "function-result"),
        (TEXT, '((eine Liste, die aus ("ein Literal " verkettet mit "mit Länge"), "zwei" besteht) an der Stelle 1)', "list-literal"),
        (TEXT, "((tlv verkettet mit tlv) an der Stelle 4)", "concatenation"),
        (TEXT, '((tlv verkettet mit "einzelner Text am Ende") an der Stelle 4)', "concatenation-with-scalar"),
        (TEXT, "((tlv im Bereich von 2 bis 3) an der Stelle 1)", "slice"),
        (TEXT, '(("nur ein Text" als Text Liste) an der Stelle 1)', "cast-to-list"),
        (BOX, "((die Boxen) an der Stelle 1)", "function-result"),
        (BOX, "(%s an der Stelle 2)" % BVAL[BL][0], "list-literal"),
        (BOX, "((blv verkettet mit blv) an der Stelle 3)", "concatenation"),
        (BOX, "((blv im Bereich von 1 bis 2) an der Stelle 1)", "slice"),
        (VT, "((die Variablen) an der Stelle 1)", "function-result"),
        (VT, "(%s an der Stelle 1)" % BVAL[VL][0], "list-literal"),
        (VT, "((vlv verkettet mit vlv) an der Stelle 4)", "concatenation"),
    ],
    "field": [
        (TEXT, "(t von (die Musterbox))", "function-result"),
        (TEXT, '(t von (eine Box mit Text ("ab" verkettet mit "cdefghijklmnop")))', "constructor"),
        (TL, "(tl von (die Musterbox))", "function-result"),
        (ZL, "(zl von (die Zahlenbox))", "function-result"),
        (TEXT, "(t von ((die Boxen) an der Stelle 1))", "field-of-element-of-function-result"),
        (TEXT, "((tl von (die Musterbox)) an der Stelle 1)", "element-of-field-of-function-result"),
        (ZL, "(zl von ((blv verkettet mit (die Zahlenbox)) an der Stelle 3))", "field-of-element-of-concatenation"),
    ],
}
DALT = {TEXT: "altText", BOX: "altBox", VT: "altVarText", TL: "altTextListe", ZL: "altZahlenListe"}
DTMP = {TEXT: '("neu " verkettet mit "gebaut")', BOX: BVAL[BOX][0], VT: BVAL[VT][0], TL: BVAL[TL][0], ZL: BVAL[ZL][0]}
DROLES = ["falls-then-arm-taken", "falls-else-arm-taken", "falls-both-arms", "falls-arm-not-taken", "falls-nested", "falls-result-consumers",
          "und-oder-operand", "loop-condition-operand", "loop-bound-operand", "argument", "return-value", "stored", "for-each-source"]


def derived_probes():
    """list of (key, source): per family (element of a temporary list / field of a temporary Kombination) and role one
    program that puts every source of the family into that role"""
    out = []
    use = lambda T, n: re.sub(r"\bx\b", n, USE[T])
    for fam, sources in DERIVED.items():
        for role in DROLES:
            funs, main = [], []
            for i, (T, R, how) in enumerate(sources):
                alt, tmp, n = DALT[T], DTMP[T], "w%d" % i
                d = lambda name, e: [decl(T, name, e), use(T, name)]
                if role == "falls-then-arm-taken":
                    main += d(n + "a", "(%s, falls a1 gleich 1 ist, ansonsten %s)" % (R, alt)) + d(n + "b", "(%s, falls a1 gleich 1 ist, ansonsten %s)" % (R, tmp))
                elif role == "falls-else-arm-taken":
                    main += d(n + "a", "(%s, falls a1 gleich 0 ist, ansonsten %s)" % (alt, R)) + d(n + "b", "(%s, falls a1 gleich 0 ist, ansonsten %s)" % (tmp, R))
                elif role == "falls-both-arms":
                    main += d(n + "a", "(%s, falls a1 gleich 1 ist, ansonsten %s)" % (R, R)) + d(n + "b", "(%s, falls a1 gleich 0 ist, ansonsten %s)" % (R, R))
                elif role == "falls-arm-not-taken":
                    main += d(n + "a", "(%s, falls a1 gleich 0 ist, ansonsten %s)" % (R, alt)) + d(n + "b", "(%s, falls a1 gleich 1 ist, ansonsten %s)" % (tmp, R))
                elif role == "falls-nested":
                    main += d(n + "a", "((%s, falls a2 gleich 1 ist, ansonsten %s), falls a1 gleich 1 ist, ansonsten %s)" % (R, alt, tmp))
                    main += d(n + "b", "(%s, falls a1 gleich 0 ist, ansonsten (%s, falls a2 gleich 0 ist, ansonsten %s))" % (alt, tmp, R))
                elif role == "falls-result-consumers":
                    f = "(%s, falls a1 gleich 1 ist, ansonsten %s)" % (R, alt)
                    main += [decl(T, n, alt), "Speichere %s in %s." % (f, n), use(T, n), "nimm%s %s." % (T, f),
                             "Wenn %s gleich %s ist, dann:\n\tSchreibe die Zahl 1." % (f, alt)] + d(n + "c", "(id%s %s)" % (T, f))
                elif role == "und-oder-operand":
                    main += ["Wenn (a1 gleich 1 ist) und (%s gleich %s ist), dann:\n\tSchreibe die Zahl 1." % (R, alt),
                             "Wenn (a1 gleich 0 ist) oder (%s ungleich %s ist), dann:\n\tSchreibe die Zahl 2." % (R, alt),
                             "Wenn (%s gleich %s ist) und (%s gleich %s ist), dann:\n\tSchreibe die Zahl 3." % (R, R, alt, R),
                             "Der Wahrheitswert %s ist (a1 gleich 0 ist) oder ((a1 gleich 1 ist) und (%s gleich %s ist))." % (n, R, R)]
                elif role == "loop-condition-operand":
                    main += ["Die Zahl %s ist 0." % n,
                             "Solange (%s kleiner als 3 ist) und (%s gleich %s ist), mache:\n\tErhöhe %s um 1.\n\tWenn %s gleich 1 ist, fahre mit der Schleife fort.\n\tWenn %s gleich 2 ist, verlasse die Schleife." % (n, R, R, n, n, n),
                             "Mache:\n\tErhöhe %s um 1.\n\tWenn %s gleich 3 ist, fahre mit der Schleife fort.\nSolange (%s kleiner als 5 ist) und (%s gleich %s ist)." % (n, n, n, R, R)]
                elif role == "loop-bound-operand":
                    two = "(2, falls %s gleich %s ist, ansonsten 0)" % (R, R)
                    main += ["Die Zahl %s ist 0." % n,
                             "Für jede Zahl i von 1 bis %s, mache:\n\tErhöhe %s um 1.\n\tWenn %s gleich 1 ist, fahre mit der Schleife fort." % (two, n, n),
                             "Für jede Zahl i von %s bis 3 mit Schrittgröße (%s minus 1), mache:\n\tErhöhe %s um 1." % (two, two, n),
                             "Wiederhole:\n\tErhöhe %s um 1.\n%s Mal." % (n, two)]
                elif role == "argument":
                    main += d(n + "a", "(id%s %s)" % (T, R)) + ["nimm%s %s." % (T, R), "id%s %s." % (T, R)]
                    if T == TEXT:
                        main += ["Schreibe den Text %s." % R]
                elif role == "return-value":
                    funs += ["Die Funktion q%s%d gibt %s zurück, macht:\n\tGib %s zurück.\nUnd kann so benutzt werden:\n\t\"q%s%d\"\n" % (fam, i, RETART[T], R, fam, i),
                             "Die Funktion r%s%d gibt %s zurück, macht:\n\tFür jede Zahl i von 1 bis 3, mache:\n\t\tWenn i gleich 2 ist, gib %s zurück.\n\tGib %s zurück.\nUnd kann so benutzt werden:\n\t\"r%s%d\"\n" % (fam, i, RETART[T], R, alt, fam, i),
                             "Die Funktion s%s%d gibt %s zurück, macht:\n\tGib (%s, falls a1 gleich 1 ist, ansonsten %s) zurück.\nUnd kann so benutzt werden:\n\t\"s%s%d\"\n" % (fam, i, RETART[T], R, alt, fam, i)]
                    main += d(n + "a", "(q%s%d)" % (fam, i)) + d(n + "b", "(r%s%d)" % (fam, i)) + d(n + "c", "(s%s%d)" % (fam, i))
                elif role == "stored":
                    main += d(n + "a", R) + ["Speichere %s in %sa." % (R, n), use(T, n + "a")]
                    if T in LISTOF:
                        LT = LISTOF[T]
                        main += [decl(LT, n + "l", "eine Liste, die aus %s, %s besteht" % (R, alt)), "Speichere %s in %sl an der Stelle 2." % (R, n),
                                 decl(LT, n + "m", "(%s verkettet mit %s)" % (R, R)) if T != TEXT else decl(LT, n + "m", "(%s verkettet mit %s)" % (BVAL[TL][0], R)), decl(LT, n + "k", "(%sl verkettet mit %s)" % (n, R)), re.sub(r"\bx\b", n + "l", USE[LT])]
                    else:
                        fld = {TL: "tl", ZL: "zl"}[T]
                        main += [decl(BOX, n + "bx", "eine Standardbox"), "Speichere %s in %s von %sbx." % (R, fld, n), decl(T, n + "m", "(%s verkettet mit %s)" % (R, R))]
                    if T in (TEXT, BOX, ZL):
                        main += ["Die Variable %sv ist (%s als Variable)." % (n, R)]
                    if T == TEXT:
                        main += [decl(TEXT, n + "c", '(%s verkettet mit (%s verkettet mit "!"))' % (R, R)), "Schreibe den Text %sc." % n]
                elif role == "for-each-source":
                    if T not in FOREACH:
                        continue
                    head = FOREACH[T][0]
                    main += ["Die Zahl %s ist 0." % n,
                             "%s e in %s, mache:\n\tErhöhe %s um 1.\n\tWenn %s gleich 1 ist, fahre mit der Schleife fort.\n\tWenn %s gleich 2 ist, verlasse die Schleife." % (head, R, n, n, n),
                             "%s e in (%s, falls a1 gleich 1 ist, ansonsten %s), mache:\n\tErhöhe %s um 1." % (head, R, DALT[T], n)]
            if main:
                out.append(("construct=derived-from-temporary family=%s role=%s" % (fam, role), DHEAD + "\n".join(funs) + "\n" + "\n".join(main) + '\nSchreibe den Text "|ende".\n'))
    return out


# =================================================================================================
# ledgers
# =================================================================================================
def parse_ledger(path):
    ev = []
    try:
        with open(path) as fh:
            for l in fh:
                p = l.split()
                if len(p) != 4:
                    continue
                ev.append(tuple(0 if x == "(nil)" else (int(x, 16) if x.startswith("0x") else int(x)) for x in p))
    except OSError:
        pass
    return ev


def judge_ledgers(ledgers):
    """run the extracted checker over many ledgers: list of ('B',) | ('X', idx, reason, p,o,n,r) | ('K', [(p,size)..])"""
    inp = []
    for ev in ledgers:
        inp.append("L " + " ; ".join("%d %d %d %d" % e for e in ev))
    p = subprocess.run([vlib.model_bin("c05")], input="\n".join(inp) + "\n", capture_output=True, text=True, timeout=600)
    out = []
    for l in p.stdout.splitlines():
        t = l.split()
        if t[0] == "B":
            out.append(("B",))
        elif t[0] == "X":
            out.append(("X", int(t[1]), t[2]) + tuple(int(x) for x in t[3:7]))
        elif t[0] == "K":
            out.append(("K", [tuple(int(y) for y in x.split(":")) for x in t[1:]]))
        else:
            out.append(("?",))
    if len(out) != len(ledgers):
        raise RuntimeError("c05 model driver answered %d of %d ledgers: %s" % (len(out), len(ledgers), p.stderr[-500:]))
    return out


def py_balanced(ev):
    """independent re-statement of the property in Python (oracle for the extracted checker itself)"""
    live = {}
    for (p, o, n, r) in ev:
        if p == 0:
            if o != 0:
                return False
            if n == 0:
                if r != 0:
                    return False
                continue
            if r == 0 or r in live:
                return False
            live[r] = n
        else:
            if live.get(p) != o:
                return False
            if n == 0:
                if r != 0:
                    return False
                del live[p]
            elif o == n:
                if r != p:
                    return False
            else:
                del live[p]
                if r == 0 or r in live:
                    return False
                live[r] = n
    return not live


def san_summary(err):
    """the sanitizer's own one-line diagnosis and the first frames, instead of the shadow-memory dump at the end"""
    e = err.decode("utf-8", "replace")
    m = re.search(r"ERROR: (Address|Leak)Sanitizer[^\n]*(\n[^\n]*){0,7}", e)
    return re.sub(r"\s+", " ", m.group(0))[:600] if m else e[-400:]


def classify(rc, err):
    e = err.decode("utf-8", "replace")
    if rc == -9:
        return "timeout"
    if rc == 97 or "AddressSanitizer" in e or "LeakSanitizer" in e:
        return "sanitizer"
    if "Segmentation fault" in e or rc < 0 or "free():" in e or "malloc" in e or "corrupted" in e:
        return "crash"
    if rc == 1 and "Laufzeitfehler" in e:
        return "laufzeitfehler"
    if rc == 0:
        return "ok"
    return "exit%d" % rc


ARGVS = [["0"] * NARGS, ["1"] * NARGS, ["1", "2", "0", "1", "2", "3"], ["2", "1", "1", "0", "3", "1"], ["3", "0", "2", "2", "1", "0"]]
OUTCOME_OK = ("ok",)


class Job:
    """one source at one optimisation level / link flavour, run with several command lines"""
    __slots__ = ("stream", "key", "src", "opt", "asan", "argvs", "end", "sx", "risky", "name", "base", "compiled", "runs", "feat")

    def __init__(self, stream, key, src, opt, argvs, asan=False, end=None, sx=None, risky=None):
        self.stream, self.key, self.src, self.opt, self.argvs, self.asan, self.end, self.sx, self.risky = stream, key, src, opt, argvs, asan, end, sx, risky
        self.runs = []
        self.compiled = None


def run_jobs(b, sc, jobs, tag):
    """compile and run all jobs in parallel; fills job.compiled and job.runs = [(argv, class, rc, out, err, events)]"""
    for i, j in enumerate(jobs):
        j.base = os.path.join(sc, "%s%d_O%d%s" % (tag, i, j.opt, "a" if j.asan else ""))

    def one(j):
        open(j.base + ".ddp", "w").write(j.src)
        j.compiled = b.compile(j.base + ".ddp", j.base, opt=j.opt, asan=j.asan, timeout=300)
        if j.compiled["stage"] != "ok":
            return
        for k, argv in enumerate(j.argvs):
            led = "%s.led%d" % (j.base, k)
            rc, out, err = b.run(j.base, args=argv, ledger=led, timeout=60 if j.asan else 30)
            ev = parse_ledger(led)
            try:
                os.unlink(led)
            except OSError:
                pass
            j.runs.append((argv, classify(rc, err), rc, out, err, ev))
        for ext in ("", ".o"):
            try:
                os.unlink(j.base + ext)
            except OSError:
                pass
    vlib.pmap(one, jobs)


def verdict_text(v):
    if v[0] == "B":
        return "balanced"
    if v[0] == "X":
        return "event %d %s: ddp_reallocate(%#x, %d, %d) -> %#x" % (v[1], v[2], v[3], v[4], v[5], v[6])
    if v[0] == "K":
        return "blocks never released: " + ", ".join("%#x (%d bytes)" % x for x in v[1][:6])
    return "?"


def offending_lines(ev, v, ctx=3):
    if v[0] == "X":
        lo = max(0, v[1] - ctx)
        return ["%d: %#x %d %d -> %#x" % ((i,) + ev[i]) for i in range(lo, min(len(ev), v[1] + 2))]
    if v[0] == "K":
        leaked = {p for p, _ in v[1]}
        return ["%d: %#x %d %d -> %#x" % ((i,) + e) for i, e in enumerate(ev) if e[3] in leaked or e[0] in leaked][:12]
    return []


def shrink_source(b, sc, src, opt, argv, asan, budget=40, head=None):
    """greedy removal of statement blocks (a line with its deeper-indented followers) keeping 'violates the property'"""
    state = {"n": 0}

    def bad(text):
        state["n"] += 1
        base = os.path.join(sc, "shrink%d" % state["n"])
        open(base + ".ddp", "w").write(text)
        r = b.compile(base + ".ddp", base, opt=opt, asan=asan, timeout=300)
        if r["stage"] != "ok":
            return False
        rc, out, err = b.run(base, args=argv, ledger=base + ".led", timeout=30)
        cl = classify(rc, err)
        if cl in ("laufzeitfehler", "timeout"):
            return False
        return cl != "ok" or not py_balanced(parse_ledger(base + ".led"))
    lines = src.split("\n")
    nhead = (head if head is not None else HEAD).count("\n")

    def units_of(lines, top_only):
        units = []
        for i in range(nhead, len(lines)):
            if not lines[i].strip():
                continue
            ind = len(lines[i]) - len(lines[i].lstrip("\t"))
            if top_only and ind > 0:
                continue
            k = i + 1
            while k < len(lines) and lines[k].strip() and (len(lines[k]) - len(lines[k].lstrip("\t"))) > ind:
                k += 1
            units.append((i, k))
        return units
    # 1. runs of top-level statements, halving the run length (most of a probe program is irrelevant to one failure)
    chunk = len(units_of(lines, True)) // 2
    while chunk >= 2 and state["n"] < budget:
        i = 0
        while state["n"] < budget:
            units = units_of(lines, True)
            if i >= len(units):
                break
            lo, hi = units[i][0], units[min(i + chunk, len(units)) - 1][1]
            cand = lines[:lo] + lines[hi:]
            if bad("\n".join(cand)):
                lines = cand
            else:
                i += chunk
        chunk //= 2
    # 2. single statements at every nesting depth
    progress = True
    while progress and state["n"] < budget:
        progress = False
        units = units_of(lines, False)
        for (i, k) in sorted(units, key=lambda u: u[0] - u[1]):
            if state["n"] >= budget:
                break
            cand = lines[:i] + lines[k:]
            if bad("\n".join(cand)):
                lines = cand
                progress = True
                break
    return "\n".join(lines)


def main():
    ck = Check(PID, "proof")
    b = Build()
    ck.cov["trusted_base"] = vlib.TRUSTED_COMMON + [
        "ledger = the calls of ddp_reallocate recorded by the link-time wrapper harness/c/shim.c (written after the real call returns: the call that makes glibc abort is not in the file); heap blocks obtained by other means (none in runtime/stdlib sources used here) are invisible",
        "coq/Lower/Own.v abstracts a non-primitive value to a list of blocks, inlines calls (no recursion), answers conditions by an oracle; it is tied to the compiler by the exact event-sequence comparison on the Text/Text-Liste subset (stream M) only; other types are judged by the proved ledger checker alone",
        "AddressSanitizer/LeakSanitizer instrument the C runtime/stdlib objects and intercept libc calls; loads and stores of generated code itself are not instrumented",
        "glibc malloc as the allocator behind ddp_reallocate (pointer values are renamed by order of creation before any comparison)",
    ]
    ck.coq()
    ok, lg = b.ensure_native()
    if not ok:
        ck.violation("build", "kddp/runtime do not build from the current tree", dict(log=lg[-3000:]), no_input=True)
        ck.finish()
    sc = vlib.scratch()
    quick = ck.quick
    rng = ck.rng
    jobs = []
    streams = os.environ.get("VERIF_C05_STREAMS", "CBMA")       # development knob: run only some legs (C corpus, B probes, M, A)
    # ---- 1. corpus of minimised past failures
    cdir = os.path.join(vlib.VERIF, "corpus", PID)
    corpus_n = 0
    if os.path.isdir(cdir) and "C" in streams:
        for fn in sorted(os.listdir(cdir)):
            if fn.endswith(".json"):
                c = json.load(open(os.path.join(cdir, fn)))
                jobs.append(Job("corpus", c["key"], c["source"], c.get("opt", 0), [c.get("argv", ["1"] * NARGS)], asan=c.get("asan", False), end=c.get("end")))
                corpus_n += 1
    # ---- 2. construct probes
    P = probes() if "B" in streams else []
    asan_only = ("container-into-own-Variable", "text-compare-after-shrink", "o2-value-and-Referenz", "nul-text")
    for (key, src, opts) in P:
        for o in (opts if quick else (0, 1, 2)):
            jobs.append(Job("B", "%s opt=%d" % (key, o), src, o, [["1"] * NARGS], end="|ende"))
        if not quick or any(a in key for a in asan_only) or rng.random() < 0.08:
            for o in (opts if quick else (0, 2)):
                jobs.append(Job("B", "%s opt=%d" % (key, o), src, o, [["1"] * NARGS], asan=True, end="|ende"))
    # ---- 2b. values derived from a temporary container, in every role (always also under ASan: a reference that
    #          outlives its owner does not unbalance the ledger)
    DP = derived_probes() if "B" in streams else []
    for (key, src) in DP:
        if quick:
            o = rng.choice((0, 2))
            jobs.append(Job("B", "%s opt=%d" % (key, o), src, o, [["1"] * NARGS], asan=True, end="|ende"))
        else:
            for o in (0, 1, 2):
                jobs.append(Job("B", "%s opt=%d" % (key, o), src, o, [["1"] * NARGS], end="|ende"))
            for o in (0, 2):
                jobs.append(Job("B", "%s opt=%d" % (key, o), src, o, [["1"] * NARGS], asan=True, end="|ende"))
    # ---- 3. model-shared Text subset
    featM = {}
    try:
        scale = float(os.environ.get("VERIF_C05_SCALE", "1"))      # development knob (mutation runs): fewer generated programs
    except ValueError:
        scale = 1.0
    nM = max(4, int((36 if quick else 220) * scale)) if "M" in streams else 0
    asan_M = asan_A = 0
    for i in range(nM):
        g = GenM(rng, featM)
        src, sx = g.program()
        tapes = ["".join(rng.choice("01") for _ in range(rng.choice((20, 60)))) for _ in range(2 if quick else 3)] + ["1" * 40, "0"]
        for o in ((0, 2) if quick else (0, 1, 2)):
            jobs.append(Job("M", "stream=M", src, o, [[t] for t in tapes], sx=sx(o)))
        n_el = src.count(") an der Stelle")      # elements of temporaries: the sanitizer sample prefers these programs
        if not quick and (i % 3 == 0 or n_el) and asan_M < 100 or quick and (i % 9 == 0 or (n_el and asan_M < 7)):
            asan_M += 1
            jobs.append(Job("M", "stream=M", src, rng.choice((0, 2)), [[t] for t in tapes[:2] + ["1" * 40]], sx=None, asan=True))
    for risky in ("loop-condition-temporaries", "for-bound-temporaries", "for-header-temporaries", "foreach-header-temporaries"):
        for i in range((3 if quick else 14) if "M" in streams else 0):
            g = GenM(rng, featM, risky=risky)
            src, sx = g.program()
            tapes = ["".join(rng.choice("01") for _ in range(40)) for _ in range(2)] + ["1" * 40]
            o = rng.choice((0, 2))
            jobs.append(Job("M", "stream=M", src, o, [[t] for t in tapes], sx=sx(o), risky=risky if g.planted else None))
    # ---- 4. random programs over all types, roles, exits
    featA = {}
    nA = max(6, int((60 if quick else 460) * scale)) if "A" in streams else 0
    for i in range(nA):
        g = GenA(rng, featA)
        src = g.program()
        argvs = rng.sample(ARGVS, 3) if quick else ARGVS
        opts = (i % 3,) if (quick or i >= 100) else (0, 1, 2)
        for o in opts:
            jobs.append(Job("A", "stream=A", src, o, argvs))
        if (quick and (i % 10 == 0 or (g.derived_in_scope and asan_A < 9))) or (not quick and (i % 5 == 0 or g.derived_in_scope) and asan_A < 140):
            asan_A += 1
            jobs.append(Job("A", "stream=A", src, rng.choice((0, 2)), argvs if g.derived_in_scope else argvs[:2], asan=True))
    log("[c05] %d compile jobs (%d corpus, %d+%d probes, %d M programs, %d A programs)" % (len(jobs), corpus_n, len(P), len(DP), nM, nA))
    run_jobs(b, sc, jobs, "j")
    # ---- judge every ledger with the extracted checker (and cross-check the checker against the Python restatement)
    allruns = [(j, r) for j in jobs if j.compiled and j.compiled["stage"] == "ok" for r in j.runs]
    verdicts = judge_ledgers([r[5] for (_, r) in allruns])
    disagree = [(j, r) for (j, r), v in zip(allruns, verdicts) if (v[0] == "B") != py_balanced(r[5])]
    if disagree:
        j, r = disagree[0]
        ck.broken_obligation("the extracted checker and the Python restatement of `balanced` disagree on a real ledger (%s, argv %s)" % (j.key, r[0]), "")
    # model answers for stream M
    mq = [(j, k) for j in jobs if j.stream == "M" and j.sx and j.compiled and j.compiled["stage"] == "ok" for k in range(len(j.runs))]
    mans = {}
    if mq:
        mp = subprocess.run([vlib.model_bin("c05")], input="\n".join("M 2000 %s %s" % (j.runs[k][0][0], j.sx) for (j, k) in mq) + "\n",
                            capture_output=True, text=True, timeout=900)
        for (j, k), a in zip(mq, mp.stdout.splitlines()):
            mans[(id(j), k)] = a
    stats = dict(runs=0, ok_balanced=0, laufzeitfehler=0, timeout=0, compile_fail=0, sanitizer_runs=0, model_compared=0, model_sequences_equal=0,
                 model_predicted_unbalanced=0, statically_accepted_runs=0, events=0)
    shrunk = 0
    vi = iter(verdicts)
    model_bad = None
    for j in jobs:
        if not j.compiled or j.compiled["stage"] != "ok":
            stats["compile_fail"] += 1
            what = (j.compiled or {}).get("out", "")[-600:]
            if j.stream in ("A", "M"):
                # a generated program that the frontend rejects is a harness error unless kddp crashed
                if "Bug im DDP-Kompilierer" in what or "panic" in what:
                    ck.violation("%s compile-crash opt=%d" % (j.key, j.opt), "kddp crashed on a generated program: %s" % what[-300:], dict(source=j.src, opt=j.opt, output=what))
                else:
                    ck.broken_obligation("generator produced a program kddp rejects (%s): %s" % (j.key, what[-300:]), j.src[-1500:])
            else:
                ck.violation(j.key + " compile", "probe does not compile: %s" % what[-300:], dict(source=j.src, opt=j.opt, output=what))
            continue
        for k, r in enumerate(j.runs):
            argv, cl, rc, out, err, ev = r
            v = next(vi)
            stats["runs"] += 1
            stats["events"] += len(ev)
            ck.count()
            if j.asan:
                stats["sanitizer_runs"] += 1
            if len(ev) >= 12:
                ck.nontrivial((hash(j.src), tuple(argv), j.opt, j.asan))
            bad = None
            if cl == "timeout":
                stats["timeout"] += 1
            elif cl == "laufzeitfehler" and j.stream == "A":
                stats["laufzeitfehler"] += 1
            elif cl != "ok":
                bad = "%s (exit %d): %s" % (cl, rc, san_summary(err) if cl == "sanitizer" else err[-400:].decode("utf-8", "replace"))
            elif j.end is not None and not out.decode("utf-8", "replace").endswith(j.end):
                bad = "terminated without reaching the end of the program (stdout %r)" % out[-60:]
            elif v[0] != "B":
                bad = "terminated normally with an unbalanced ledger: " + verdict_text(v)
            else:
                stats["ok_balanced"] += 1
            # correspondence with the ownership model
            a = mans.get((id(j), k))
            if a is not None and cl != "timeout":
                stats["model_compared"] += 1
                static_ok = a.startswith("S1 ")
                if a[:3] in ("S0 ", "S1 "):
                    a = a[3:]
                if static_ok:
                    stats["statically_accepted_runs"] += 1
                mverdict = a.split(" # ")[0]
                mbal = mverdict.startswith("B")
                if not mbal:
                    stats["model_predicted_unbalanced"] += 1
                if static_ok and not mbal:
                    model_bad = model_bad or ("the proved static discipline accepts a skeleton whose model run is unbalanced (%s)" % mverdict[:60], j, argv)
                if a in ("N", "F") or a.startswith("?"):
                    model_bad = model_bad or ("model does not run the skeleton (%s)" % a, j, argv)
                elif mbal != (bad is None):
                    model_bad = model_bad or ("model predicts %s, real run: %s" % (mverdict[:60], bad or "balanced"), j, argv)
                elif mbal:
                    mev = [tuple(int(x) for x in e.split()) for e in a.split(" # ")[1].split(" ; ") if e.strip()]
                    reg = region(ev)
                    if reg is None or canon_events(reg) != canon_events(mev):
                        model_bad = model_bad or ("event sequences differ", j, argv)
                    else:
                        stats["model_sequences_equal"] += 1
            if bad is None:
                continue
            key = j.key
            src = j.src
            if j.stream == "M" and j.risky:
                key = "construct=%s loop=any type=Text stream=M opt=%d" % (j.risky.replace("for-header", "continue-with-header").replace("foreach-header", "continue-with-header"), j.opt)
            elif j.stream == "B" and "derived-from-temporary" in key:
                if shrunk < 3:
                    shrunk += 1
                    src = shrink_source(b, sc, j.src, j.opt, argv, j.asan, budget=40 if quick else 120, head=DHEAD)
            elif j.stream in ("A", "M"):
                if shrunk < 3:
                    shrunk += 1
                    src = shrink_source(b, sc, j.src, j.opt, argv, j.asan, budget=40 if quick else 120, head=MHEAD if j.stream == "M" else HEAD)
                kinds = sorted(set(re.findall(r"(Solange|Für jede[nrs]?|Wiederhole|verlasse die Schleife|fahre mit der Schleife fort|gib |verkettet|falls|Speichere|an der Stelle| von | als Variable| und | oder )", src[len(MHEAD if j.stream == "M" else HEAD):])))
                key = "stream=%s outcome=%s first=%s constructs=%s opt=%d" % (j.stream, cl, v[2] if v[0] == "X" else ("leak" if v[0] == "K" else "-"), ",".join(x.strip() for x in kinds), j.opt)
            ck.violation(key, bad, dict(source=src, opt=j.opt, argv=argv, asan=j.asan, ledger_verdict=verdict_text(v), offending_ledger_lines=offending_lines(ev, v),
                                        how="kddp kompiliere prog.ddp -o prog.o -O %d; link with harness/c/shim.c (--wrap=ddp_reallocate)%s; DDP_LEDGER=ledger ./prog %s" % (j.opt, " and the ASan runtime" if j.asan else "", " ".join(argv)),
                                        stderr=err[-1200:].decode("utf-8", "replace")))
    if model_bad and not ck.violations:
        what, j, argv = model_bad
        body = j.src[len(MHEAD):].replace("m" * (MARK1 - 1), "<%d x m>" % (MARK1 - 1)).replace("n" * (MARK2 - 1), "<%d x n>" % (MARK2 - 1))
        path = os.path.join(ck.replay_dir, "%s_model_mismatch.ddp" % PID)
        open(path, "w").write(j.src)
        open(path[:-4] + ".model", "w").write("M 2000 %s %s\n" % (argv[0], j.sx or ""))
        ck.broken_obligation("correspondence of coq/Lower/Own.v with the compiler fails (%s) at -O %d, tape %s; program saved as %s" % (what, j.opt, argv, path),
                             (j.sx or "")[-900:] + "\n" + body[-1000:])
    ck.cov.update(dict(
        programs=dict(corpus=corpus_n, probes=len(P), derived_from_temporary_probes=len(DP), model_shared=nM, random=nA),
        sanitizer_programs=dict(model_shared=asan_M, random=asan_A), compile_jobs=len(jobs), **stats,
        features_random_stream=dict(sorted(featA.items())), features_model_stream=dict(sorted(featM.items())),
        opt_levels=[0, 1, 2], exhaustive=False,
        rule="a run is counted non-trivial if its ledger has at least 12 ddp_reallocate calls; distinct = distinct (program, command line, -O level, link flavour)"))
    if P:
        ck.sample(dict(stream="B", key=P[3][0], expected="balanced ledger, output ends with |ende"))
    ck.sample(dict(stream="M", note="real event sequence between the two marker allocations == Own.run (Own.compile skeleton) with the tape as oracle, pointers renamed by creation order"))
    ck.finish(explanation=(
        "Model re-synchronised with /repo after the repairs 6711de1 c2054d3 2f9971e bf84b8a 597753d 39a39c6 91b5d4a d296fb2 (no -O2 elision when another "
        "argument of the call mentions the variable) 7366b9f (a variable left operand of Text concatenation is copied into a scope temporary before a right "
        "operand that contains a call and can reach the variable — a `falls` counts as containing a call, because its decision is the oracle, i.e. the call of the tape reader `nimm` in the compared programs; EUse2 stands for two operands read by unary operators, as stream M renders it — the same "
        "rule for `gleich` applied directly to two non-primitive operands is not modelled). "
        "FULL: C05_balancedb_correct (the extracted checker that judges every real ledger decides `balanced`), C05_balanced_released_once, "
        "C05_actions_balanced_on_every_exit (soundness of the static ownership discipline for the code generator's actions on fallthrough, break, "
        "continue and return, all oracles/fuel), C05_runtime_fns_balanced + C05_concat_callers_balanced (free, deep copy, Text and list concatenations, "
        "including scalar+scalar of non-primitives and NUL-first Text operands, transfer ownership as documented), C05_former_witnesses_balanced, "
        "C05_program_balanced_bounded (FULL with the bound in the statement: the 36064 enumerated skeleton programs of Lower/CompileBounded.v — every "
        "construct incl. the element of a temporary list (function result, list literal) alone, as either arm of `falls` and as und/oder/loop-condition "
        "operand, every role incl. argument and return value, every loop form, every exit from inner scopes, in main and in an inlined function — "
        "compile to accepted, hence balanced, code). "
        "C05_derived_reference_needs_owner (FULL): the discipline rejects every action that reads a place (deep copy for declaration/assignment/"
        "argument, list-literal component, right concatenation operand, element assignment) whose owner slot is not owned any more; "
        "C05_element_of_temporary_in_falls (FULL, concrete): the skeleton form EElem (BIN_INDEX: element of a temporary list is deep-copied into its own "
        "temporary before the list's scope ends) compiles to accepted code inside `falls` arms and loop conditions, while the emission that hands a plain "
        "reference into the temporary list out of the arm (copy after the arm released the list) is rejected. "
        "Reads in place (Länge, gleich, the source of a slice) are actions too (IUse) and need a live owner, so a comparison of a derived reference "
        "after its owner's release is rejected as well; NOT modelled as reads: the iteration of for-each over its source and reads inside runtime "
        "functions beyond their documented transfer — those are tied to the compiler through ASan only (construct=derived-from-temporary probes, "
        "sanitizer sample of streams A and M, which prefers programs with elements/fields of temporaries). "
        "C05_compile_ok + C05_program_balanced: FULL for the decidable fragment fprogram of Lower/CompileOk.v (expressions literal/variable/element/"
        "unused temporaries/slice/element of a temporary or a variable/Text concatenation/und-oder; statements declaration, assignment to variables and elements, expression statement, "
        "block, Wenn, Solange and Mache-Solange with break/continue from inner scopes): compile emits accepted code, every normally terminating run "
        "is balanced. "
        "PARTIAL: C05_program_balanced_partial covers all skeleton programs whose compiled actions pass the extracted discipline (every generated stream-M "
        "program does: statically_accepted_runs); the cases of cexpr_ok/cstmt_ok outside the fragment (falls, literals of containers, calls and return, "
        "Wiederhole, counting and for-each loops — listed in Lower/CompileOk.v) are NOT proved. C05_old_concat_functions_refuted documents the repaired runtime defects on *_old definitions only. "
        "Types other than Text / Text Liste are tied to the compiler only through the proved ledger checker and ASan, not through the ownership model."))


if __name__ == "__main__":
    main()
