#!/usr/bin/env python3
"""C06 — out-of-domain operations stop with a Laufzeitfehler, never silently.
Proof: coq/Props/C06.v (the emitted bounds check accepts exactly 1..len for every 64-bit index;
slice clamping/crossed bounds; text index/replace domain; Variable cast tag check).
Tie: one compiled program per (element type x access form) reads length and indices from its
command line; the whole (length x index) grid is run against the real executable, compared with
the extracted model and judged directly by the property (Python)."""
import os
import subprocess
import sys

sys.path.insert(0, os.path.dirname(os.path.abspath(__file__)))
import vlib
from vlib import Check, Build, log

PID = "C06"
I64MIN, I64MAX = -2**63, 2**63 - 1

TYPES = {
    "Zahl": dict(lst="Zahlen Liste", ref="Zahlen Referenz", pr="die Zahl", elem="(k mal 10)", show=lambda k: str(k * 10), new="777", shownew="777"),
    "Kommazahl": dict(lst="Kommazahlen Liste", ref="Kommazahlen Referenz", pr="die Kommazahl", elem="((k als Kommazahl) plus 0,5)", show=lambda k: "%.16g" % (k + 0.5), new="7,25", shownew="7.25"),
    "Byte": dict(lst="Byte Liste", ref="Byte Referenz", pr="den Byte", elem="(k als Byte)", show=lambda k: str(k), new="(77 als Byte)", shownew="77"),
    "Wahrheitswert": dict(lst="Wahrheitswert Liste", ref="Wahrheitswert Referenz", pr="den Wahrheitswert", elem="((k modulo 2) gleich 1 ist)", show=lambda k: "wahr" if k % 2 == 1 else "falsch", new="(1 gleich 1 ist)", shownew="wahr"),
    "Buchstabe": dict(lst="Buchstaben Liste", ref="Buchstaben Referenz", pr="den Buchstaben", elem="((k plus 96) als Buchstabe)", show=lambda k: chr(k + 96), new="'Z'", shownew="Z"),
    "Text": dict(lst="Text Liste", ref="Text Referenz", pr="den Text", elem='("t" verkettet mit (k als Text))', show=lambda k: "t%d" % k, new='"NEU"', shownew="NEU"),
}
ALPHA = "aäß€😀z"  # 1,2,2,3,4,1 bytes

HEAD = '''Binde "Duden/Ausgabe" ein.
Binde "Duden/Laufzeit" ein.
'''
ARGS = '''Die Text Liste args ist die Befehlszeilenargumente.
Die Zahl n ist (args an der Stelle 2) als Zahl.
Die Zahl i ist (args an der Stelle 3) als Zahl.
Die Zahl j ist (args an der Stelle 4) als Zahl.
'''


def build_list(t):
    return '''Die %s l ist eine leere %s.
Für jede Zahl k von 1 bis n, mache:
	Speichere l verkettet mit %s in l.
''' % (t["lst"], t["lst"], t["elem"])


def dump_list(t, name="l"):
    return '''Schreibe den Buchstaben '['.
Für jede Zahl k von 1 bis (die Länge von %s), mache:
	Schreibe %s (%s an der Stelle k).
	Schreibe den Buchstaben ' '.
Schreibe den Buchstaben ']'.
''' % (name, t["pr"], name)


def prog_list(tname, form):
    t = TYPES[tname]
    s = HEAD
    if form == "F":
        s += '''Die Funktion setze mit dem Parameter a vom Typ %s, gibt nichts zurück, macht:
	Speichere %s in a.
Und kann so benutzt werden:
	"setze <a>"

''' % (t["ref"], t["new"])
    s += ARGS + build_list(t)
    if form == "R":
        s += "Schreibe %s (l an der Stelle i).\n" % t["pr"]
    elif form == "RB":   # Byte-typed index
        s += "Der Byte bi ist i als Byte.\nSchreibe %s (l an der Stelle bi).\n" % t["pr"]
    elif form == "A":
        s += "Speichere %s in l an der Stelle i.\n" % t["new"] + dump_list(t)
    elif form == "F":
        s += "setze (l an der Stelle i).\n" + dump_list(t)
    elif form == "S3":
        s += "Die %s s ist l im Bereich von i bis j.\n" % t["lst"] + dump_list(t, "s")
    elif form == "SF":
        s += "Die %s s ist l ab dem i. Element.\n" % t["lst"] + dump_list(t, "s")
    elif form == "ST":
        s += "Die %s s ist l bis zum i. Element.\n" % t["lst"] + dump_list(t, "s")
    return s


TEXT_BUILD = '''Der Text alpha ist "%s".
Der Text t ist "".
Für jede Zahl k von 1 bis n, mache:
	Speichere t verkettet mit (alpha an der Stelle (((k minus 1) modulo 6) plus 1)) in t.
''' % ALPHA


def prog_text(form):
    s = HEAD + ARGS + TEXT_BUILD
    if form == "TI":
        s += "Schreibe den Buchstaben (t an der Stelle i).\n"
    elif form == "TA":
        s += "Speichere 'X' in t an der Stelle i.\nSchreibe den Text t.\n"
    elif form == "TA4":  # replacement by a longer (4-byte) character
        s += "Speichere '😀' in t an der Stelle i.\nSchreibe den Text t.\n"
    elif form == "TS3":
        s += "Schreibe den Text (t im Bereich von i bis j).\n"
    elif form == "TSF":
        s += "Schreibe den Text (t ab dem i. Element).\n"
    elif form == "TST":
        s += "Schreibe den Text (t bis zum i. Element).\n"
    elif form == "TN":   # nested: element of a Text Liste, then a character of it
        s = HEAD + ARGS + build_list(TYPES["Text"]) + "Schreibe den Buchstaben ((l an der Stelle i) an der Stelle j).\n"
    return s


ANY = [("Zahl", "5", "die Zahl", "5"), ("Kommazahl", "2,5", "die Kommazahl", "2.5"), ("Byte", "(7 als Byte)", "den Byte", "7"),
       ("Wahrheitswert", "wahr", "den Wahrheitswert", "wahr"), ("Buchstabe", "'c'", "den Buchstaben", "c"), ("Text", '"hi"', "den Text", "hi"),
       ("Zahlen Liste", "(eine Liste, die aus 1, 2 besteht)", "die Zahlen Liste", "1, 2"), ("Text Liste", '(eine Liste, die aus "a", "b" besteht)', "die Text Liste", "a, b")]


def prog_any():
    s = HEAD + ARGS
    for a, (an, aexpr, _, _) in enumerate(ANY):
        s += "Die Variable v%d ist %s.\n" % (a, aexpr)
    c = 0
    for a in range(len(ANY)):
        for b, (bn, _, bpr, _) in enumerate(ANY):
            c += 1
            s += "Wenn n gleich %d ist, dann:\n\tSchreibe %s (v%d als %s).\n" % (c, bpr, a, bn)
    s += "Wenn n gleich 999 ist, dann:\n\t...\n"
    s += "Schreibe den Text \"|ende\".\n"
    return s


def clamp(v, lo, hi):
    t = lo if v < lo else v
    return hi if t > hi else t


def spec(form, tname, n, i, j):
    """the property, directly: ('ok', stdout) or ('err',)"""
    t = TYPES.get(tname)
    indom = 1 <= i <= n
    def lst(xs):
        return "[" + "".join(x + " " for x in xs) + "]"
    if form in ("R",):
        return ("ok", t["show"](i)) if indom else ("err",)
    if form == "RB":
        b = i % 256
        return ("ok", t["show"](b)) if 1 <= b <= n else ("err",)
    if form in ("A", "F"):
        if not indom:
            return ("err",)
        return ("ok", lst([t["shownew"] if k == i else t["show"](k) for k in range(1, n + 1)]))
    if form in ("S3", "SF", "ST", "TS3", "TSF", "TST"):
        if form in ("SF", "TSF"):
            i1, i2 = i, n
        elif form in ("ST", "TST"):
            i1, i2 = 1, i
        else:
            i1, i2 = i, j
        text = form.startswith("T")
        if n == 0:
            return ("ok", "" if text else lst([]))
        a, b = clamp(i1, 1, n), clamp(i2, 1, n)
        if b < a:
            return ("err",)
        if text:
            return ("ok", "".join(ALPHA[(k - 1) % 6] for k in range(a, b + 1)))
        return ("ok", lst([t["show"](k) for k in range(a, b + 1)]))
    if form == "TI":
        return ("ok", ALPHA[(i - 1) % 6]) if indom else ("err",)
    if form in ("TA", "TA4"):
        if not indom:
            return ("err",)
        ch = "X" if form == "TA" else "😀"
        return ("ok", "".join(ch if k == i else ALPHA[(k - 1) % 6] for k in range(1, n + 1)))
    if form == "TN":
        if not indom:
            return ("err",)
        el = "t%d" % i
        return ("ok", el[j - 1]) if 1 <= j <= len(el) else ("err",)
    raise ValueError(form)


def model_query(form, n, i, j):
    if form == "R":
        return "LI %d %d" % (n, i)
    if form == "RB":
        return "LI %d %d" % (n, i % 256)
    if form in ("A", "F"):
        return "LS %d %d" % (n, i)
    if form == "S3":
        return "SL %d %d %d" % (n, i, j)
    if form == "SF":
        return "SF %d %d" % (n, i)
    if form == "ST":
        return "ST %d %d" % (n, i)
    if form == "TI":
        return "TI %d %d %d" % (0 if n == 0 else text_cap(n), n, i)
    if form in ("TA", "TA4"):
        return "TR %d %d %d" % (0 if n == 0 else text_cap(n), n, i)
    if form == "TS3":
        return "TS %d %d %d" % (n, i, j)
    if form == "TSF":
        return "TS %d %d %d" % (n, i, n)
    if form == "TST":
        return "TS %d %d %d" % (n, 1, i)
    return None


def text_cap(n):
    return sum(len(ALPHA[(k - 1) % 6].encode()) for k in range(1, n + 1)) + 1


def model_expect(form, tname, n, i, ans):
    """turn the model's positional answer into the expected outcome"""
    t = TYPES.get(tname)
    if ans == "E":
        return ("err",)
    pos = [] if ans == "-" else [int(x) for x in ans.split()]
    def lst(xs):
        return "[" + "".join(x + " " for x in xs) + "]"
    if form in ("R", "RB"):
        return ("ok", t["show"](pos[0]))
    if form in ("A", "F"):
        return ("ok", lst([t["shownew"] if p == 0 else t["show"](p) for p in pos]))
    if form in ("S3", "SF", "ST"):
        return ("ok", lst([t["show"](p) for p in pos]))
    if form == "TI":
        return ("ok", ALPHA[(pos[0] - 1) % 6])
    if form in ("TA", "TA4"):
        ch = "X" if form == "TA" else "😀"
        return ("ok", "".join(ch if p == 0 else ALPHA[(p - 1) % 6] for p in pos))
    if form in ("TS3", "TSF", "TST"):
        return ("ok", "".join(ALPHA[(p - 1) % 6] for p in pos))


def main():
    ck = Check(PID, "proof")
    b = Build()
    ck.cov["trusted_base"] = vlib.TRUSTED_COMMON + [
        "the models of the emitted checks are transcriptions of compiler.go:1302-1334, 1977-1993, list_types.go:443-569, operators.c:19-125; LLVM, gcc and libc are outside the model (differentially tested on the grid)",
        "text index/replace/slice are modelled at code-point level under C12's well-formedness (cap >= length+1); vtable identity of types is abstracted to an integer tag",
        "lengths are driven 0..n by the harness; indices reach the executable through the command line (Text -> Zahl cast of the runtime)",
    ]
    ck.coq()
    ok, lg = b.ensure_native()
    if not ok:
        ck.violation("build", "kddp/runtime do not build from the current tree", dict(log=lg[-3000:]), no_input=True)
        ck.finish()
    model = vlib.model_bin("c06")
    sc = vlib.scratch()
    maxn = 4 if ck.quick else 8
    opts = [0, 2] if ck.quick else [0, 1, 2]
    # ---- programs
    progs = []
    list_forms = ["R", "A", "F", "S3", "SF", "ST"]
    for tn in TYPES:
        for f in list_forms:
            progs.append((f, tn, prog_list(tn, f)))
    progs.append(("RB", "Zahl", prog_list("Zahl", "RB")))
    progs.append(("RB", "Text", prog_list("Text", "RB")))
    for f in ("TI", "TA", "TA4", "TS3", "TSF", "TST", "TN"):
        progs.append((f, "Text", prog_text(f)))
    progs.append(("ANY", "-", prog_any()))
    jobs = []
    for (f, tn, src) in progs:
        for o in opts:
            if ck.quick and o != 0 and not (f in ("R", "A", "F", "TI", "TA", "S3", "ANY") and tn in ("Zahl", "Text", "-")):
                continue
            jobs.append((f, tn, src, o))

    def compile_one(job):
        f, tn, src, o = job
        base = os.path.join(sc, "%s_%s_O%d" % (f, tn, o))
        open(base + ".ddp", "w").write(src)
        r = b.compile(base + ".ddp", base, opt=o)
        return (job, base, r)
    compiled = vlib.pmap(compile_one, jobs)
    exes = []
    for (job, base, r) in compiled:
        if r["stage"] != "ok":
            ck.violation("compile form=%s type=%s O%d" % (job[0], job[1], job[3]), "a well-typed indexing program does not compile: %s" % r["out"][-400:],
                         dict(source=job[2], stage=r["stage"], output=r["out"][-2000:], opt=job[3]))
        else:
            exes.append((job, base))
    # ---- grid
    runs = []
    for (job, base) in exes:
        f, tn, src, o = job
        if f == "ANY":
            for c in range(1, len(ANY) ** 2 + 1):
                runs.append((job, base, c, 0, 0))
            runs.append((job, base, 999, 0, 0))
            runs.append((job, base, 0, 0, 0))
            continue
        for n in range(0, maxn + 1):
            idx = list(range(-2, n + 3)) + [I64MIN, I64MIN + 1, -2**32, -2**31, 2**31, 2**32, I64MAX - 1, I64MAX]
            if f == "RB":
                idx = list(range(0, n + 3)) + [255, 256, 257, 256 + n]
            if f in ("S3", "TS3"):
                side = list(range(-1, n + 2)) + [I64MIN, I64MAX]
                for i in side:
                    for j in side:
                        runs.append((job, base, n, i, j))
            elif f == "TN":
                for i in range(-1, n + 2):
                    for j in (-1, 0, 1, 2, 3, 4, I64MIN, I64MAX):
                        runs.append((job, base, n, i, j))
            else:
                for i in idx:
                    runs.append((job, base, n, i, 0))
    # model answers in one batch
    queries = []
    for (job, base, n, i, j) in runs:
        q = model_query(job[0], n, i, j) if job[0] != "ANY" else None
        queries.append(q)
    qs = [q for q in queries if q]
    mp = subprocess.run([model], input="\n".join(qs) + "\n", capture_output=True, text=True, timeout=300)
    mans = iter(mp.stdout.splitlines())
    model_ans = [next(mans) if q else None for q in queries]

    def run_one(r):
        job, base, n, i, j = r
        rc, out, err = b.run(base, args=[str(n), str(i), str(j)], timeout=20)
        if rc == -9:   # a loaded machine is not a violation: retry once with a generous limit
            rc, out, err = b.run(base, args=[str(n), str(i), str(j)], timeout=300)
        return rc, out, err
    results = vlib.pmap(run_one, runs, jobs=vlib.NCPU)
    ck.count(len(runs))
    dist = {}
    n_err = n_ok = 0
    model_bad = None
    for (r, (rc, out, err), mans_) in zip(runs, results, model_ans):
        job, base, n, i, j = r
        f, tn, src, o = job
        outs = out.decode("utf-8", "replace")
        got = ("err",) if (rc == 1 and b"Laufzeitfehler" in err) else (("ok", outs) if rc == 0 else ("crash", rc, err[-300:].decode("utf-8", "replace")))
        if f == "ANY":
            if n == 0:
                want = ("ok", "|ende")
            elif n == 999:
                want = ("err",)
            else:
                a, bb = divmod(n - 1, len(ANY))
                want = ("ok", ANY[a][3] + "|ende") if a == bb else ("err",)
        else:
            want = spec(f, tn, n, i, j)
        dist[f] = dist.get(f, 0) + 1
        if want[0] == "err":
            n_err += 1
        else:
            n_ok += 1
        ck.nontrivial((f, tn, n, i, j))
        if got != want:
            key = "form=%s type=%s O%d n=%d i=%d j=%d" % (f, tn, o, n, i, j)
            ck.violation(key, "expected %s, executable gave %s (exit %d, stderr %r)" % (want, got, rc, err[-200:].decode("utf-8", "replace")),
                         dict(source=src, opt=o, argv=[n, i, j], expected=list(want), observed=list(map(str, got)), stderr=err[-500:].decode("utf-8", "replace"),
                              how="kddp kompiliere prog.ddp -O %d; ./prog %d %d %d" % (o, n, i, j)))
        if mans_ is not None:
            mwant = model_expect(f, tn, n, i, mans_)
            if mwant != got and model_bad is None:
                model_bad = (f, tn, o, n, i, j, mwant, got)
    if model_bad and not ck.violations:
        ck.broken_obligation("correspondence of the bounds model with the executable fails at form=%s type=%s O%d n=%d i=%d j=%d: model %s, executable %s" % model_bad, "")
    # ASan flavour on a sample (thorough): over-reads inside the runtime
    if not ck.quick:
        for f, tn in (("TI", "Text"), ("TA", "Text"), ("TS3", "Text"), ("S3", "Text"), ("A", "Text")):
            src = prog_text(f) if f.startswith("T") else prog_list(tn, f)
            base = os.path.join(sc, "asan_%s_%s" % (f, tn))
            open(base + ".ddp", "w").write(src)
            r = b.compile(base + ".ddp", base, opt=0, asan=True)
            if r["stage"] != "ok":
                continue
            for n in range(0, 5):
                for i in range(-1, n + 2):
                    for j in ((0,) if f not in ("S3", "TS3") else range(-1, n + 2)):
                        rc, out, err = b.run(base, args=[str(n), str(i), str(j)], timeout=30)
                        ck.count()
                        if rc == 97 or b"AddressSanitizer" in err:
                            ck.violation("asan form=%s n=%d i=%d j=%d" % (f, n, i, j), "AddressSanitizer report in runtime code", dict(source=src, argv=[n, i, j], stderr=err[-1500:].decode("utf-8", "replace")))
    ck.cov.update(dict(
        programs=len(exes), runs=len(runs), forms=dist, expected_errors=n_err, expected_ok=n_ok, opt_levels=opts, max_len=maxn, exhaustive=True,
        rule="grid: element type (6) x access form (rvalue, Byte-typed index, assignment target, Referenz argument, 3 slicing forms; text index/replace/slices/nested) x length 0..%d x index in -2..len+2 plus 64-bit extremes (slices: all pairs of -1..len+1 plus extremes) x opt levels %s; every cell distinct; non-trivial = every cell (each has a definite expected outcome)" % (maxn, opts)))
    ck.sample(dict(form="R", type="Zahl", argv=[3, I64MIN, 0], expected="Laufzeitfehler, exit 1"))
    ck.sample(dict(form="S3", type="Text", argv=[3, 0, 99], expected="[t1 t2 t3 ]"))
    ck.finish()


if __name__ == "__main__":
    main()
