#!/usr/bin/env python3
"""C07 — failure is reported faithfully: flag, exit status and source ranges.
Proof: coq/Props/C07.v — flag machine over all well-bracketed event traces (Diag/Flags.v): the equivalence
"some module Faulty <-> an error-level diagnostic was delivered" is REFUTED in both directions for the code in
/repo (two computed witnesses) and proved under the two hypotheses that negate the defects; exit status /
no-artefact / warnings-never-fail; the excerpt renderer indexes safely iff the range lies in the text.
Tie (every run, from /repo's working tree):
  R  renderer: exhaustive (line, column)^2 grids over several texts through the real ddperror.MakeAdvancedHandler
     vs the extracted model (capacity slack measured on the implementation) and judged directly (in-text => no panic)
  H  handler chain: ONE MakeAdvancedHandler set up for the main file exactly as cmd/kddp does (diagx chain mode and the
     kddp binary) over multi-module layouts x spellings of the main path (relative, ./, zz/.., absolute, from the parent
     directory; same-named modules in sub/sibling/twice-nested directories) x raising module x error/warning x far/near
     ranges: no panic, message printed, excerpt lines belong to the file the diagnostic names, count = model's shown_lines
  F  flags: generated multi-module programs whose event trace is known by construction -> extracted model ->
     delivered (level, module, code) sequence and every Faulty flag must equal the real frontend's
  D  direct judgement of the property on goldens, one-fault programs and token deletion / duplication /
     transposition mutants (first/last token, inside aliases, inside imported modules, generic instantiations):
     (error-level diagnostic delivered) == (root or some module Faulty); every diagnostic (also the wrapped
     sub-errors of a failed instantiation) names a file, 1 <= start <= end, inside that file's text, renders
  K  kddp kompiliere on a sample: exit status != 0 <=> error delivered; no object when failed
Partial by nature: the ~300 hand-written range construction sites are not modelled; ranges are validated on the
generated inputs only (coverage by diagnostic code is in the evidence)."""
import glob
import json
import os
import re
import shutil
import subprocess
import sys
import time

sys.path.insert(0, os.path.dirname(os.path.abspath(__file__)))
import vlib
from vlib import Check, Build, log

PID = "C07"
TESTDATA = os.path.join(vlib.REPO, "tests", "testdata", "kddp")
CORPUS = os.path.join(vlib.VERIF, "corpus", PID)
U64 = 2 ** 64 - 1


# ------------------------------------------------------------------------------------------------
# running the Go harness (sequential per worker, resumes after a crash of the process)
# ------------------------------------------------------------------------------------------------
def _run_chunk(exe, reqs, env, timeout):
    out = [None] * len(reqs)
    i = 0
    while i < len(reqs):
        chunk = reqs[i:]
        data = "".join(json.dumps(r, ensure_ascii=False) + "\n" for r in chunk)
        try:
            p = subprocess.run([exe], input=data.encode(), capture_output=True, env=env, timeout=timeout + 0.05 * len(chunk))
            stdout, dead = p.stdout, "process exit %d: %s" % (p.returncode, p.stderr[-300:].decode("utf-8", "replace"))
        except subprocess.TimeoutExpired as e:
            stdout, dead = (e.stdout or b""), "timeout"
        n = 0
        for l in stdout.decode("utf-8", "replace").splitlines():
            try:
                o = json.loads(l)
            except ValueError:
                break
            if n < len(chunk):
                out[i + n] = o
                n += 1
        if n >= len(chunk):
            break
        out[i + n] = dict(crash=dead)
        i += n + 1
    return out


def run_diagx(exe, reqs, env, jobs=None, timeout=60):
    jobs = jobs or vlib.NCPU
    jobs = max(1, min(jobs, (len(reqs) + 7) // 8))
    parts = [reqs[k::jobs] for k in range(jobs)]
    res = vlib.pmap(lambda part: _run_chunk(exe, part, env, timeout), parts, jobs=jobs)
    out = [None] * len(reqs)
    for k, part in enumerate(res):
        for j, o in enumerate(part):
            out[k + j * jobs] = o
    return out


# ------------------------------------------------------------------------------------------------
# the property, directly (Python oracle)
# ------------------------------------------------------------------------------------------------
class Texts:
    def __init__(self):
        self.c = {}

    def lines(self, path):
        if path not in self.c:
            try:
                self.c[path] = [len(l) for l in open(path, "rb").read().decode("utf-8", "replace").split("\n")]
            except OSError:
                self.c[path] = None
        return self.c[path]


def in_text(lens, sl, sc, el, ec):
    """range inside the text (columns 1-based, a column may sit just behind the last rune), start <= end"""
    if not (1 <= sl <= len(lens) and 1 <= el <= len(lens)):
        return False
    if not (1 <= sc <= lens[sl - 1] + 1 and 1 <= ec <= lens[el - 1] + 1):
        return False
    return (sl, sc) <= (el, ec)


def range_problem(d, texts):
    if not d["file"]:
        return "no-file"
    lens = texts.lines(d["file"])
    if lens is None:
        return "file-unreadable:" + os.path.basename(d["file"])
    sl, sc, el, ec = d["sl"], d["sc"], d["el"], d["ec"]
    if sl < 1 or sc < 1 or el < 1 or ec < 1:
        return "zero-position"
    if (sl, sc) > (el, ec):
        return "start-after-end"
    if sl > len(lens) or el > len(lens):
        return "line-outside-text"
    if sc > lens[sl - 1] + 1 or ec > lens[el - 1] + 1:
        return "column-outside-line"
    return None


def lf_in_string(path):
    """does a "..." literal of the file contain a line feed (alias strings are scanned without counting it)"""
    try:
        t = open(path, encoding="utf-8", errors="replace").read()
    except OSError:
        return False
    ins = False
    i = 0
    while i < len(t):
        ch = t[i]
        if ins:
            if ch == "\\":
                i += 1
            elif ch == '"':
                ins = False
            elif ch == "\n":
                return True
        elif ch == '"':
            ins = True
        elif ch == "[":      # comment
            j = t.find("]", i)
            i = len(t) if j < 0 else j
        i += 1
    return False


def declares_generic(path):
    try:
        return "generische" in open(path, encoding="utf-8", errors="replace").read()
    except OSError:
        return False


def judge(resp, root, texts):
    """list of (key, what) for one frontend observation; [] = property holds"""
    bad = []
    if resp is None or "crash" in resp or resp.get("panic") or resp.get("nil_module"):
        return bad
    top = [d for d in resp["diags"] if d["wrapped"] == 0]
    errs = [d for d in top if d["level"] == 2]
    fmods = [m["path"] for m in resp["modules"] if m["faulty"]]
    anyf = resp["faulty"] or bool(fmods)
    if errs and not anyf:
        where = sorted({"root" if os.path.abspath(d["file"]) == os.path.abspath(root) else "imported" for d in errs})
        bad.append(("diagnostic-without-flag files=%s codes=%s" % ("+".join(where), ",".join(str(c) for c in sorted({d["code"] for d in errs}))),
                    "error-level diagnostics %s were delivered but neither the root nor any imported module is Faulty" % [(d["code"], d["sl"], d["sc"]) for d in errs]))
    if anyf and not errs:
        gen = all(declares_generic(p) for p in fmods) if fmods else False
        bad.append(("flag-without-diagnostic root_faulty=%d faulty_imported=%d all_faulty_modules_declare_generics=%d" % (resp["faulty"], len(fmods), gen),
                    "Faulty is set (root=%s, modules=%s) but no error-level diagnostic was delivered" % (resp["faulty"], [os.path.basename(p) for p in fmods])))
    for d in resp["diags"]:
        if d["level"] not in (1, 2):
            bad.append(("level-invalid code=%d" % d["code"], "diagnostic with level %d" % d["level"]))
        pr = range_problem(d, texts)
        if pr in ("column-outside-line", "line-outside-text", "start-after-end"):
            pr += " lf-in-string=%d" % lf_in_string(d["file"])
        if pr:
            bad.append(("range code=%d problem=%s wrapped=%d" % (d["code"], pr, min(d["wrapped"], 1)),
                        "diagnostic %d in %s has range (%d,%d)-(%d,%d): %s" % (d["code"], os.path.basename(d["file"] or "?"), d["sl"], d["sc"], d["el"], d["ec"], pr)))
        if d.get("panic_root") or d.get("panic_own"):
            bad.append(("render-panic code=%d problem=%s" % (d["code"], pr or "in-text"),
                        "MakeAdvancedHandler panics on diagnostic %d range (%d,%d)-(%d,%d): %s" % (d["code"], d["sl"], d["sc"], d["el"], d["ec"], d.get("panic_root") or d.get("panic_own"))))
    return bad


# ------------------------------------------------------------------------------------------------
# diagnostic codes by name, re-read from src/ddperror/codes.go on every run (payload of the model's events)
# ------------------------------------------------------------------------------------------------
def read_codes():
    codes = {}
    base = None
    n = 0
    inblock = False
    for line in open(os.path.join(vlib.REPO, "src", "ddperror", "codes.go"), encoding="utf-8"):
        t = line.split("//")[0].strip()
        if t.startswith("const ("):
            inblock, n, base = True, 0, None
            continue
        if inblock and t == ")":
            inblock = False
            continue
        if not inblock or not t:
            continue
        m = re.match(r"^([A-Z][A-Z0-9_]*)\s+Code\s*=\s*iota(?:\s*\+\s*(\d+))?$", t)
        if m:
            base = int(m.group(2) or 0) - n
            codes[m.group(1)] = base + n
        elif re.match(r"^[A-Z][A-Z0-9_]*$", t) and base is not None:
            codes[t] = base + n
        n += 1
    return codes


CODE = {}


def K(name):
    return str(CODE[name])


# ------------------------------------------------------------------------------------------------
# leg F: programs with a known event trace
# ------------------------------------------------------------------------------------------------
FN = '''Die Funktion f%(u)d mit dem Parameter a vom Typ Zahl, gibt nichts zurück, macht:
	Die Zahl q ist a.
Und kann so benutzt werden:
	"nimm%(u)d <a>"
'''
FWD = '''Die Funktion w%(u)d mit dem Parameter a vom Typ Zahl, gibt nichts zurück, wird später definiert
Und kann so benutzt werden:
	"spaeter%(u)d <a>"
'''
GB = '''Die öffentliche generische Funktion GB%(u)d mit dem Parameter a vom Typ T, gibt nichts zurück, macht:
	Die Zahl q ist a plus 1.
Und kann so benutzt werden:
	"mach%(u)d <a>"
'''
GR = '''Die öffentliche generische Funktion GR%(u)d mit dem Parameter a vom Typ T Referenz, gibt nichts zurück, macht:
	Die Zahl q ist a plus 1.
Und kann so benutzt werden:
	"tu%(u)d <a>"
'''
GV = '''Die öffentliche generische Funktion GV%(u)d mit dem Parameter a vom Typ T, gibt nichts zurück, macht:
	Das T q ist a.
Und kann so benutzt werden:
	"tu%(u)d <a>"
'''
ARG = ["ab", "ae", "qb", "qe"]   # argument parser + EvaluateSilent of the argument


class Scenario:
    """modules[0] is the root; every module: dict(name, lines, scan, ev, end)"""

    def __init__(self, rng, maxmods=4):
        self.rng = rng
        self.u = 0
        self.mods = []
        self.maxmods = maxmods
        self.kinds = set()
        self.build_module(0)

    def uid(self):
        self.u += 1
        return self.u

    def build_module(self, depth):
        rng = self.rng
        idx = len(self.mods)
        m = dict(name="main" if idx == 0 else "m%d" % idx, lines=[], scan=[], ev=[], end=[], generics=[], idx=idx)
        self.mods.append(m)
        zahl = None
        text = None
        funcs = []
        avail = []          # (kind, u, declaring module) not yet called, visible here
        after_dot = True
        n_items = rng.randint(1, 7)
        menu = ["tyd", "ok", "ty", "un", "syn", "warn", "dbl", "cap", "chr", "imp", "fn", "call_ok", "call_ty", "call_argerr",
                "spec_keep", "spec_disc", "spec_keep_err", "fwd", "gdecl", "gdecl", "gcall", "gcall", "gcall"]
        wts = [2, 5, 2, 1, 1, 2, 1, 1, 1, 3, 2, 1, 1, 1, 1, 1, 1, 1, 3, 3, 4, 4, 4]
        force = []
        for _ in range(n_items):
            k = force.pop() if force else rng.choices(menu, wts)[0]
            if depth > 0 and k in ("ok", "warn") and rng.random() < 0.5:
                k = "gdecl"         # imported modules mostly offer generics
            u = self.uid()
            L, E = m["lines"], m["ev"]
            if k == "imp":
                if len(self.mods) >= self.maxmods or depth >= 2:
                    k = "ok"
                else:
                    j = len(self.mods)
                    sub = self.build_module(depth + 1)
                    L.append('Binde "%s" ein.' % sub["name"])
                    E.append("mb:%d" % j)
                    E.extend(sub["scan"] + sub["ev"] + sub["end"] + ["fin"])
                    avail.extend((g[0], g[1], j) for g in sub["generics"])
                    self.kinds.add("import")
                    after_dot = True
                    if sub["generics"] and rng.random() < 0.7:
                        force.append("gcall")
                    continue
            if k in ("call_ok", "call_ty", "call_argerr") and not funcs:
                k = "fn"
            if k in ("spec_keep", "spec_disc", "spec_keep_err") and zahl is None:
                k = "ok"
            if k == "gcall" and not avail:
                k = "gdecl"
            if k == "cap" and not after_dot:
                k = "ok"
            self.kinds.add(k)
            if k == "ok":
                L.append("Die Zahl v%d ist %d." % (u, u))
                zahl = "v%d" % u
            elif k == "ty":
                L.append("Die Zahl v%d ist wahr." % u)
                E += ["err:c:e:" + K("TYP_BAD_ASSIGNEMENT"), "sync"]
            elif k == "tyd":        # a type error whose AST still lowers to valid IR
                L.append("Wir definieren eine Hausnummer%d als eine Zahl." % u)
                L.append("Die Hausnummer%d h%d ist %d." % (u, u, u))
                E += ["err:c:e:" + K("TYP_BAD_ASSIGNEMENT"), "sync"]
            elif k == "un":
                L.append("Die Zahl v%d ist unbekannt%d." % (u, u))
                E += ["err:r:e:" + K("SEM_NAME_UNDEFINED"), "sync"]
            elif k == "syn":
                L.append("Die Zahl v%d ist ." % u)
                E += ["err:p:e:" + K("SYN_UNEXPECTED_TOKEN"), "bad", "sync"]
            elif k == "warn":
                L.append("...")
                E += ["dir:p:w:" + K("SEM_TODO_STMT_FOUND")]
            elif k == "dbl":
                L.append('Die Zahl v%d ist wahr plus "a".' % u)
                E += ["err:c:e:" + K("TYP_TYPE_MISMATCH"), "err:c:e:" + K("TYP_BAD_ASSIGNEMENT"), "sync"]
            elif k == "cap":
                L.append("die Zahl v%d ist %d." % (u, u))
                m["scan"].append("err:s:e:" + K("SYN_EXPECTED_CAPITAL"))
            elif k == "chr":
                L.append("Der Buchstabe c%d ist 'ab'." % u)
                m["scan"].append("err:s:e:" + K("SYN_MALFORMED_LITERAL"))
            elif k == "fn":
                L.append(FN % dict(u=u))
                funcs.append(u)
            elif k == "call_ok":
                L.append("nimm%d 5." % rng.choice(funcs))
                E += ARG + ["cd"]
            elif k == "call_ty":
                L.append("nimm%d wahr." % rng.choice(funcs))
                E += ARG + ["cd", "err:c:e:" + K("TYP_TYPE_MISMATCH"), "sync"]
            elif k == "call_argerr":
                L.append("nimm%d (1 plus)." % rng.choice(funcs))
                E += ["ab", "err:p:e:" + K("SYN_UNEXPECTED_TOKEN"), "ae", "qb", "qe", "cd", "ab", "err:p:e:" + K("SYN_UNEXPECTED_TOKEN"), "ae", "cr", "bad", "err:c:e:" + K("TYP_TYPE_MISMATCH"), "sync"]
            elif k == "spec_keep":
                L.append("Speichere %d in %s 2 Mal." % (u, zahl))
                E += ["sb", "se"]
            elif k == "spec_disc":
                L.append("Speichere %d in %s )." % (u, zahl))
                E += ["sb", "err:p:e:" + K("SYN_UNEXPECTED_TOKEN"), "se", "err:p:e:" + K("SYN_UNEXPECTED_TOKEN"), "sync"]
            elif k == "spec_keep_err":
                L.append("Speichere %d in %s (1 plus) Mal." % (u, zahl))
                E += ["sb", "err:p:e:" + K("SYN_UNEXPECTED_TOKEN"), "se", "rr", "bad", "sync"]
            elif k == "fwd":
                L.append(FWD % dict(u=u))
                m["end"] += ["err:p:e:" + K("SEM_FORWARD_DECL_WITHOUT_DEF"), "sync"]
            elif k == "gdecl":
                if rng.random() < 0.5:
                    L.append(GB % dict(u=u))
                    g = ("GB", u)
                else:
                    L.append(GR % dict(u=u))
                    L.append(GV % dict(u=u))
                    g = ("PAIR", u)
                m["generics"].append(g)
                avail.append((g[0], g[1], idx))
            elif k == "gcall":
                imported = [x for x in avail if x[2] != idx]
                g = rng.choice(imported) if imported and rng.random() < 0.7 else rng.choice(avail)
                avail.remove(g)
                kind, gu, d = g
                if (kind, gu) in m["generics"]:
                    m["generics"].remove((kind, gu))     # called here: an importer must not call it again (instantiation cache)
                if rng.random() < 0.45:
                    L.append("Die Zahl zv%d ist 1." % u)
                    L.append("%s%d zv%d." % ("mach" if kind == "GB" else "tu", gu, u))
                    E += ARG + ["ib:%d" % d, "ie:1", "cd"]
                    self.kinds.add("gcall_ok_" + ("same" if d == idx else "imported"))
                else:
                    L.append('Der Text tx%d ist "h".' % u)
                    if kind == "GB":
                        L.append("mach%d tx%d." % (gu, u))
                        E += ARG + ["ib:%d" % d, "err:c:e:" + K("TYP_TYPE_MISMATCH"), "ie:1", "cw:" + K("SEM_ERROR_INSTANTIATING_GENERIC_FUNCTION"), "err:r:e:" + K("SEM_NAME_UNDEFINED"), "sync"]
                        self.kinds.add("gcall_fail_" + ("same" if d == idx else "imported"))
                    else:
                        L.append("tu%d tx%d." % (gu, u))
                        E += ARG + ["ib:%d" % d, "err:c:e:" + K("TYP_TYPE_MISMATCH"), "ie:1", "cd"] + ARG + ["ib:%d" % d, "ie:1", "cd"]
                        self.kinds.add("gcall_discarded_" + ("same" if d == idx else "imported"))
            after_dot = L[-1].rstrip().endswith(".") and L[-1] != "..."
        return m

    def trace(self):
        r = self.mods[0]
        return r["scan"] + r["ev"] + r["end"] + ["fin"]

    def write(self, d):
        os.makedirs(d, exist_ok=True)
        for m in self.mods:
            open(os.path.join(d, m["name"] + ".ddp"), "w", encoding="utf-8").write("\n".join(m["lines"]) + "\n")
        return os.path.join(d, "main.ddp")

    def sources(self):
        return {m["name"] + ".ddp": "\n".join(m["lines"]) + "\n" for m in self.mods}


class Fixed(Scenario):
    """hand-written scenario: modules = [(name, source)], trace = event list"""

    def __init__(self, name, modules, trace, kinds=()):
        self.mods = [dict(name=n, lines=src.rstrip("\n").split("\n")) for n, src in modules]
        self._trace = trace.split()
        self.kinds = set(kinds) | {"fixed:" + name}

    def trace(self):
        return self._trace


def fixed_scenarios():
    P = dict(u=1)
    out = []
    # the refutation witnesses of Props/C07.v
    out.append(Fixed("discarded-instantiation-of-imported-generic",
                     [("main", 'Binde "m1" ein.\nDer Text tx ist "h".\ntu1 tx.\n'), ("m1", GR % P + GV % P)],
                     "mb:1 fin ab ae qb qe ib:1 err:c:e:%(TYP_TYPE_MISMATCH)s ie:1 cd ab ae qb qe ib:1 ie:1 cd fin" % CODE))
    out.append(Fixed("root-scanner-error", [("main", "die Zahl x ist 1.\n")], "err:s:e:%(SYN_EXPECTED_CAPITAL)s fin" % CODE))
    out.append(Fixed("root-scanner-error-char", [("main", "Der Buchstabe c ist 'ab'.\n")], "err:s:e:%(SYN_MALFORMED_LITERAL)s fin" % CODE))
    out.append(Fixed("imported-scanner-error", [("main", 'Binde "m1" ein.\n'), ("m1", "die Zahl x ist 1.\n")], "mb:1 err:s:e:%(SYN_EXPECTED_CAPITAL)s fin fin" % CODE))
    out.append(Fixed("discarded-instantiation-same-module", [("main", GR % P + GV % P + 'Der Text tx ist "h".\ntu1 tx.\n')],
                     "ab ae qb qe ib:0 err:c:e:%(TYP_TYPE_MISMATCH)s ie:1 cd ab ae qb qe ib:0 ie:1 cd fin" % CODE))
    out.append(Fixed("failed-instantiation-of-imported-generic",
                     [("main", 'Binde "m1" ein.\nDer Text tx ist "h".\nmach1 tx.\nDie Zahl z ist wahr.\n'), ("m1", GB % P)],
                     "mb:1 fin ab ae qb qe ib:1 err:c:e:%(TYP_TYPE_MISMATCH)s ie:1 cw:%(SEM_ERROR_INSTANTIATING_GENERIC_FUNCTION)s err:r:e:%(SEM_NAME_UNDEFINED)s sync err:c:e:%(TYP_BAD_ASSIGNEMENT)s sync fin" % CODE))
    out.append(Fixed("warnings-only", [("main", '...\nBinde "m1" ein.\n...\n'), ("m1", "...\nDie Zahl a ist 1.\n")],
                     "dir:p:w:%(SEM_TODO_STMT_FOUND)s mb:1 dir:p:w:%(SEM_TODO_STMT_FOUND)s fin dir:p:w:%(SEM_TODO_STMT_FOUND)s fin" % CODE))
    out.append(Fixed("type-error-in-import-of-import",
                     [("main", 'Binde "m1" ein.\nDie Zahl a ist 1.\n'), ("m1", 'Binde "m2" ein.\n'), ("m2", "Die Zahl b ist wahr.\n")],
                     "mb:1 mb:2 err:c:e:%(TYP_BAD_ASSIGNEMENT)s sync fin fin fin" % CODE))
    out.append(Fixed("type-error-that-still-lowers", [("main", "Wir definieren eine Hausnummer als eine Zahl.\nDie Hausnummer h ist 1.\n")], "err:c:e:%(TYP_BAD_ASSIGNEMENT)s sync fin" % CODE))
    out.append(Fixed("error-at-first-token", [("main", ") Die Zahl a ist 1.\n")], "err:p:e:%(SYN_UNEXPECTED_TOKEN)s bad sync fin" % CODE))
    out.append(Fixed("error-at-last-token", [("main", "Die Zahl a ist 1.\nDie Zahl b ist 2")], "err:p:e:%(SYN_UNEXPECTED_TOKEN)s sync fin" % CODE))
    return out


def parse_model_flags(line):
    """'F done=1 faulty=0:1,1:0 delivered=e:0:3001;... stale=0 rootscan=0 out=RROC'"""
    if line.startswith("F rejected"):
        return dict(rejected=int(line.split()[2]))
    f = dict(x.split("=", 1) for x in line.split()[1:])
    return dict(done=f["done"] == "1",
                faulty={int(a.split(":")[0]): a.split(":")[1] == "1" for a in f["faulty"].split(",") if a},
                delivered=[(a.split(":")[0], int(a.split(":")[1]), int(a.split(":")[2])) for a in f["delivered"].split(";") if a],
                stale=f["stale"] == "1", rootscan=f["rootscan"] == "1", out=f["out"])


def observed_flags(resp, dirpath, nmods):
    """project a diagx answer to the model's observables; module index by file name"""
    def midx(path):
        b = os.path.basename(path)
        return 0 if b == "main.ddp" else int(b[1:-4])
    delivered = [("e" if d["level"] == 2 else "w", midx(d["file"]), d["code"]) for d in resp["diags"] if d["wrapped"] == 0]
    faulty = {0: resp["faulty"]}
    for m in resp["modules"]:
        faulty[midx(m["path"])] = m["faulty"]
    return delivered, faulty


# ------------------------------------------------------------------------------------------------
# leg D: mutants
# ------------------------------------------------------------------------------------------------
TOK = re.compile(r'"(?:[^"\\\n]|\\.)*"|\'(?:[^\'\\\n]|\\.)*\'|\[[^\]\n]*\]|\d+(?:,\d+)?|\w+|\s+|.', re.S | re.U)


def tokens(src):
    return TOK.findall(src)


def mutate(rng, src):
    """one token-level fault; returns (kind, new source)"""
    ts = tokens(src)
    idx = [i for i, t in enumerate(ts) if not t.isspace()]
    if not idx:
        return "append", src + " ."
    r = rng.random()
    if r < 0.06:
        kind, i = "del-first", idx[0]
    elif r < 0.12:
        kind, i = "del-last", idx[-1]
    elif r < 0.16:
        return "append-garbage", src + rng.choice([" Die", " (", " \"", " 'a", " plus", " ist", " :", " Und kann so benutzt werden:\n\t\"x <a>\"", " wahr", " ..."])
    elif r < 0.20:
        return "prepend-garbage", rng.choice([") ", "ist ", "plus ", "\"a\" ", ". ", "'", "Die Zahl ", "mal ", "Binde "]) + src
    elif r < 0.28:
        # inside an alias string / string literal
        strs = [i for i in idx if ts[i].startswith('"') and len(ts[i]) > 3]
        if strs:
            i = rng.choice(strs)
            s = ts[i]
            j = rng.randrange(1, len(s) - 1)
            op = rng.random()
            if op < 0.4:
                s2 = s[:j] + s[j + 1:]
            elif op < 0.7:
                s2 = s[:j] + rng.choice(["<", ">", "<x>", "\\", "\\q", " ", "<a>", "\n"]) + s[j:]
            else:
                s2 = s[:j] + s[j] + s[j:]
            ts[i] = s2
            return "in-string", "".join(ts)
        kind, i = "del", rng.choice(idx)
    else:
        kind = rng.choice(["del", "del", "dup", "swap", "swap-far", "replace"])
        i = rng.choice(idx)
    if kind.startswith("del"):
        ts[i] = ""
    elif kind == "dup":
        ts[i] = ts[i] + " " + ts[i]
    elif kind == "swap":
        js = [j for j in idx if j > i]
        if js:
            j = js[0]
            ts[i], ts[j] = ts[j], ts[i]
    elif kind == "swap-far":
        j = rng.choice(idx)
        ts[i], ts[j] = ts[j], ts[i]
    elif kind == "replace":
        ts[i] = rng.choice(["wahr", "1", "\"t\"", "'c'", "Zahl", "Text", "ist", ".", ",", "(", ")", "x", "plus", "Die", "der", "macht:", "2,5", "als", "Referenz", "Liste"])
    return kind, "".join(ts)


def golden_units():
    """(main file, [sibling .ddp files that may be mutated instead]) for every .ddp under the goldens"""
    units = []
    for top in sorted(os.listdir(TESTDATA)):
        tdir = os.path.join(TESTDATA, top)
        if not os.path.isdir(tdir):
            continue
        fs = sorted(glob.glob(os.path.join(tdir, "**", "*.ddp"), recursive=True))
        for f in fs:
            sib = [g for g in fs if g != f and os.path.dirname(g).startswith(os.path.dirname(f))]
            units.append((top, os.path.relpath(f, tdir), [os.path.relpath(g, tdir) for g in sib]))
    return units


def shrink_lines(files, target, still_bad, budget=40):
    """greedy line removal in files[target] while still_bad(files) holds"""
    cur = dict(files)
    lines = cur[target].split("\n")
    n = max(1, len(lines) // 2)
    while n >= 1 and budget > 0:
        i = 0
        changed = False
        while i < len(lines) and budget > 0:
            cand = lines[:i] + lines[i + n:]
            trial = dict(cur)
            trial[target] = "\n".join(cand)
            budget -= 1
            if cand and still_bad(trial):
                lines = cand
                cur = trial
                changed = True
            else:
                i += n
        if not changed:
            n //= 2
    return cur



# ------------------------------------------------------------------------------------------------
# leg H: the handler chain of cmd/kddp over multi-module arrangements x spellings of the main path
# ------------------------------------------------------------------------------------------------
LONGNAME = "sehr_langer_name_damit_die_spalte_hinter_jeder_kurzen_zeile_liegt"
EXC = re.compile(r"^ *(\d+) \|  (.*)$")


def chain_arrangements():
    """every (layout, spelling of the main path, module that raises the diagnostic, error|warning, far|near)"""
    layouts = {
        # name: (main file, natural cwd, [(module file, import text inside its importer)] chain main -> direct -> transitive)
        "sub-same": ("w/demo.ddp", "w", [("w/lib/demo.ddp", "lib/demo")]),
        "sub-other": ("w/demo.ddp", "w", [("w/lib/other.ddp", "lib/other")]),
        "nested-twice": ("w/demo.ddp", "w", [("w/lib/demo.ddp", "lib/demo"), ("w/lib/lib/demo.ddp", "lib/demo")]),
        "sibling": ("w/a/demo.ddp", "w/a", [("w/b/demo.ddp", "../b/demo")]),
        "dir-spelled": ("w/lib/demo.ddp", "w", [("w/lib/lib/demo.ddp", "lib/demo"), ("w/lib/lib/lib/demo.ddp", "lib/demo")]),
        "three-levels": ("w/demo.ddp", "w", [("w/x/mod.ddp", "x/mod"), ("w/x/y/demo.ddp", "y/demo")]),
    }
    out = []
    for lname, (mainf, cwd, chain) in sorted(layouts.items()):
        mods = [mainf] + [c[0] for c in chain]
        for where in range(len(mods)):
            for kind in ("e", "w"):
                for pos in ("far", "near"):
                    files = {}
                    for i, mf in enumerate(mods):
                        L = []
                        if i + 1 < len(mods):
                            L.append('Binde "%s" ein.' % chain[i][1])
                        if i == where:
                            if pos == "far":
                                L += ["Die Zahl p%d%d ist %d." % (i, k, k) for k in range(7)]
                                L.append("Die Zahl %s ist wahr." % LONGNAME if kind == "e" else "[ %s ] ..." % LONGNAME)
                            else:
                                L.append("Die Zahl q ist wahr." if kind == "e" else "...")
                        elif pos == "near":
                            L += ["Die Zahl p%d%d ist %d." % (i, k, k) for k in range(5)]
                        files[mf] = "\n".join(L) + "\n"
                    rel = os.path.relpath(mainf, cwd)
                    spell = [("relative", cwd, rel), ("dot", cwd, "./" + rel), ("absolute", cwd, None),
                             ("parent", os.path.dirname(cwd) or ".", os.path.join(os.path.basename(cwd), rel)),
                             ("dotdot", cwd, os.path.join("zz", "..", rel))]
                    for sname, scwd, sp in spell:
                        out.append(dict(layout=lname, spelling=sname, cwd=scwd, file=sp, main=mainf, files=files, where=where, kind=kind, pos=pos,
                                        diag_file=mods[where]))
    return out


def judge_chain(a, base, resp, texts):
    """the property on one run of the real handler chain: [(problem, what)]"""
    bad = []
    if resp is None or "crash" in resp or resp.get("panic") or resp.get("nil_module"):
        return [("frontend-crash", "the frontend crashed: %s" % (resp,))]
    top = [d for d in resp["diags"] if d["wrapped"] == 0]
    if not top:
        bad.append(("no-diagnostic", "the arrangement was built to raise a diagnostic in %s but none was delivered" % a["diag_file"]))
    for d in top:
        named = d["file"] if os.path.isabs(d["file"]) else os.path.normpath(os.path.join(base, a["cwd"], d["file"]))
        out = d.get("out", "")
        if d.get("panic_chain"):
            bad.append(("panic", "MakeAdvancedHandler(%r, text of the main file) panics on the diagnostic %d of %s range (%d,%d)-(%d,%d): %s; printed only %r"
                        % (a["file_spelled"], d["code"], os.path.relpath(named, base), d["sl"], d["sc"], d["el"], d["ec"], d["panic_chain"], out[:120])))
            continue
        if d["msg"].split("\n")[0][:60] not in out:
            bad.append(("message-missing", "the message of diagnostic %d is not in the handler's output %r" % (d["code"], out[:200])))
        try:
            lines = open(named, encoding="utf-8").read().split("\n")
        except OSError:
            lines = None
        for ol in out.split("\n"):
            m = EXC.match(ol)
            if not m:
                continue
            n = int(m.group(1))
            want = None if lines is None or not (1 <= n <= len(lines)) else lines[n - 1].replace("\t", "    ").rstrip("\r")
            if want is None or m.group(2).rstrip() != want.rstrip():
                bad.append(("foreign-excerpt", "diagnostic %d names %s range (%d,%d)-(%d,%d) but the excerpt shows line %d as %r, which is not that file's line (%r)"
                            % (d["code"], os.path.relpath(named, base), d["sl"], d["sc"], d["el"], d["ec"], n, m.group(2)[:80], want)))
                break
    return bad

# ------------------------------------------------------------------------------------------------
def main():
    ck = Check(PID, "proof")
    b = Build()
    ck.cov["trusted_base"] = vlib.TRUSTED_COMMON + [
        "Diag/Flags.v is a hand transcription of the flag handling in parser.go, expressions.go, statements.go, alias.go, resolver.go, typechecker.go, compiler.go, interface.go; "
        "the event traces of leg F are derived by reading the code (no trace hook: call sites cannot be inserted), validated only through the final flags and the delivered sequence",
        "the excess capacity of []rune(line) (Go runtime: 32-rune stack buffer / size classes) is a parameter of Diag/Render.v; its values are measured on the implementation",
        "range validity is judged against the file on disk split at LF, lengths in code points; End.Column is exclusive (one behind the last rune)",
        "the ~300 range construction sites are NOT modelled: ranges are validated on the generated inputs only (see diag_codes_validated)",
        "handler chain: filepath.Clean and 'the text a path names' are parameters of Diag/Render.v (instantiated by os.path.normpath and the files on disk); "
        "the file-selection rule (excerpt iff Clean(err.File) = Clean(file)) is tied by leg H on the listed layouts x spellings only",
        "kddp's own link step is not run (object output -o x.o); code generation and LLVM are outside the model (parameter codegen_ok)",
    ]
    ck.assumptions = [
        "C07_faulty_iff_delivered_partial / C07_exit_nonzero_iff_partial hold under no_stale_flag (no resolver/typechecker flags a module that is not being parsed) and "
        "no_root_scanner_error; both hypotheses are FALSE for the pinned code (C07_faulty_iff_delivered_refuted, C07_delivered_imp_faulty_refuted; replayed, see KNOWN_FINDINGS)",
        "C07_no_artifact_on_failure_partial additionally assumes the default --module-linken=true (refuted otherwise: C07_no_artifact_on_failure_refuted)",
        "exit status theorems take codegen_ok as a parameter: a code generator failure on a non-faulty module is outside the flag machine",
        "renderer theorems: Line/Column < 2^64 (Go uint) and line length + capacity slack + 1 < 2^64",
        "theorem status: FULL C07_warnings_never_fail, C07_no_artifact_when_faulty, C07_any_faulty_is_root_or_imported, C07_render_total_iff_in_text(_exact), C07_render_total_if_in_text, "
        "C07_render_degenerate_prints_nothing, C07_newrange_in_text, C07_handler_prints_every_in_text_diagnostic, C07_unhandled_file_header_only, C07_*_repaired; PARTIAL C07_faulty_iff_delivered_partial, C07_faulty_imp_delivered_partial, C07_delivered_imp_root_faulty_partial, "
        "C07_exit_nonzero_iff_partial, C07_no_artifact_on_failure_partial; REFUTED C07_faulty_iff_delivered_refuted, C07_delivered_imp_faulty_refuted, C07_exit_nonzero_iff_refuted, C07_no_artifact_on_failure_refuted",
    ]
    ck.coq()
    ok, lg = b.ensure_native()
    if not ok:
        ck.violation("build", "kddp/runtime do not build from the current tree", dict(log=lg[-3000:]), no_input=True)
        ck.finish()
    diagx, lg = b.ensure_go("diagx")
    if not diagx:
        ck.violation("harness-build", "diagx does not build against /repo: " + lg[-500:], dict(log=lg[-3000:]), no_input=True)
        ck.finish()
    model = vlib.model_bin("c07")
    if not os.path.exists(model):
        ck.broken_obligation("extracted model driver extract/_build/c07 missing (make setup)", "")
        ck.finish()
    env = dict(os.environ, DDPPATH=b.dir)
    CODE.update(read_codes())
    need = ["TYP_BAD_ASSIGNEMENT", "SEM_NAME_UNDEFINED", "SYN_UNEXPECTED_TOKEN", "SEM_TODO_STMT_FOUND", "TYP_TYPE_MISMATCH", "SYN_EXPECTED_CAPITAL",
            "SYN_MALFORMED_LITERAL", "SEM_FORWARD_DECL_WITHOUT_DEF", "SEM_ERROR_INSTANTIATING_GENERIC_FUNCTION"]
    if any(n not in CODE for n in need):
        ck.broken_obligation("translator: diagnostic codes %s not found in src/ddperror/codes.go" % [n for n in need if n not in CODE], "")
        ck.finish()
    sc = vlib.scratch()
    texts = Texts()
    rng = ck.rng
    codes = {}
    stats = dict(frontend_crash_or_panic=0, parse_error_return=0)

    def note_codes(resp):
        for d in resp.get("diags") or []:
            k = "%d%s" % (d["code"], "w" if d["level"] == 1 else "")
            codes[k] = codes.get(k, 0) + 1

    def run_model(lines):
        p = subprocess.run([model], input="\n".join(lines) + "\n", capture_output=True, text=True, timeout=600)
        if p.returncode != 0:
            raise RuntimeError("model driver failed: " + p.stderr[-500:])
        return p.stdout.splitlines()

    def observe_files(files, root="main.ddp", tag="x"):
        d = os.path.join(sc, "obs_%s_%d" % (tag, rng.randrange(10 ** 9)))
        os.makedirs(d)
        for n, s in files.items():
            os.makedirs(os.path.dirname(os.path.join(d, n)), exist_ok=True)
            open(os.path.join(d, n), "w", encoding="utf-8").write(s)
        r = _run_chunk(diagx, [dict(id="o", file=os.path.join(d, root))], env, 30)[0]
        return r, os.path.join(d, root)

    def report(key, what, files, root, resp, extra=None):
        rep = dict(files=files, root=root, observed=dict(faulty=resp.get("faulty"), modules=[(os.path.basename(m["path"]), m["faulty"]) for m in resp.get("modules") or []],
                                                         diags=[(d["code"], d["level"], os.path.basename(d["file"]), d["sl"], d["sc"], d["el"], d["ec"], d["wrapped"]) for d in resp.get("diags") or []]),
                   how="write the files into one directory; harness: echo '{\"id\":\"x\",\"file\":\"<dir>/%s\"}' | DDPPATH=.cache/<hash> .cache/<hash>/go-*/diagx ; or kddp kompiliere <dir>/%s -o x.o" % (root, root))
        if extra:
            rep.update(extra)
        if ck.violation(key, what, rep):
            os.makedirs(CORPUS, exist_ok=True)
            name = re.sub(r"[^A-Za-z0-9]+", "_", key)[:80]
            path = os.path.join(CORPUS, name + ".json")
            if not os.path.exists(path):
                json.dump(dict(key=key, files=files, root=root), open(path, "w"), indent=1, ensure_ascii=False)

    reported = set()

    def minimize(files, root_rel, key, target=None):
        """drop files the violation does not need, then shrink the mutated file and the root line-wise"""
        def still(trial):
            rr, ra = observe_files(trial, root_rel, "shr")
            return any(k == key for k, _ in judge(rr, ra, texts))
        try:
            if not still(files):
                return files, None
            for n in sorted(files):
                if n != root_rel and n != target and len(files) > 1:
                    trial = {k: v for k, v in files.items() if k != n}
                    if still(trial):
                        files = trial
            for tgt in ([target] if target and target != root_rel else []) + [root_rel]:
                if tgt in files and len(files[tgt].split("\n")) > 2:
                    files = shrink_lines(files, tgt, still, budget=45)
            rr, ra = observe_files(files, root_rel, "shr")
            w = [w for k, w in judge(rr, ra, texts) if k == key]
            return files, (rr, w[0] if w else None)
        except Exception as e:      # the shrinker is best effort
            log("[shrink] %s" % e)
            return files, None

    def judge_and_report(resp, files, root_rel, root_abs, shrink=True, target=None, extra=None):
        bad = judge(resp, root_abs, texts)
        for key, what in bad:
            if key in reported:
                continue
            reported.add(key)
            f2, r2 = files, resp
            if shrink:
                f2, res = minimize(files, root_rel, key, target)
                if res:
                    r2, what = res[0], (res[1] or what)
            report(key, what, f2, root_rel, r2, extra)
        return bad

    # ---- 0. corpus first ------------------------------------------------------------------------
    for cf in sorted(glob.glob(os.path.join(CORPUS, "*.json"))):
        try:
            c = json.load(open(cf))
        except ValueError:
            continue
        resp, ra = observe_files(c["files"], c["root"], "corpus")
        ck.count()
        note_codes(resp)
        judge_and_report(resp, c["files"], c["root"], ra, shrink=False)

    log('[c07] %.1fs corpus done' % (time.time()-ck.t0))
    # ---- R. renderer ----------------------------------------------------------------------------
    rtexts = ["ab\ncde", "", "x", "a\tb\r\nzß€😀\n", "\n\nabc", "q" * 33 + "\nrs", "w" * 31 + "\n" + "v" * 32 + "\n\n", "é" * 40]
    if not ck.quick:
        rtexts += ["a" * 64 + "\n" + "b" * 65, "\r\n\r\n", "abc\n" * 5, "x" * 100 + "\ny"]
    greqs = []
    for t in rtexts:
        lens = [len(l) for l in t.split("\n")]
        # capacity probe: how far behind the end of each line may End.Column run before the slice panics
        probes = []
        for i, n in enumerate(lens):
            for ec in range(n + 1, n + 140):
                probes.append([1, 1, i + 1, ec] if i > 0 else [1, 1, 1, ec])
        greqs.append(dict(id="probe", text=t, ranges=probes))
    presp = _run_chunk(diagx, greqs, env, 60)
    gm_lines = []
    gi_reqs = []
    grids = []
    for t, pr in zip(rtexts, presp):
        lens = [len(l) for l in t.split("\n")]
        bits = pr["bits"]
        slack = {}
        pos = 0
        for i, n in enumerate(lens):
            seg = bits[pos:pos + 139]
            pos += 139
            ok_n = len(seg) - len(seg.lstrip("1"))
            s = max(0, ok_n - 1)
            if n in slack and slack[n] != s:
                ck.broken_obligation("capacity of []rune(line) is not a function of the line length (%d: %d vs %d)" % (n, slack[n], s), "")
            slack[n] = s
        L = min(len(lens) + 1, 4)
        C = min(max(lens) + 3, 12 if ck.quick else 36) if max(lens) <= 36 else (5 if ck.quick else 8)
        # long lines: columns around the end are covered by explicit ranges below
        lens_s = ",".join(map(str, lens)) if lens else "-"
        slack_s = ",".join("%d:%d" % kv for kv in sorted(slack.items())) or "-"
        gm_lines.append("G %d %d %s %s" % (L, C, lens_s, slack_s))
        gi_reqs.append(dict(id="grid", text=t, grid=[L, C]))
        ext = []
        for n_i, n in enumerate(lens):
            for ec in (n, n + 1, n + 2, n + slack[n], n + slack[n] + 1, n + slack[n] + 2):
                for scol in (1, n, n + 1, n + 2):
                    ext.append([n_i + 1, scol, n_i + 1, ec])
                    ext.append([1, 1, n_i + 1, ec])
        ext += [[0, 0, 0, 0], [U64, U64, U64, U64], [1, 1, 1, U64], [1, U64, 1, 1], [U64, 1, U64, 1], [0, 5, 0, 5], [2, 1, 1, 1], [1, 1, U64, 1], [1, 0, 1, 1], [1, 1, 1, 0]]
        grids.append((t, lens, slack, L, C, lens_s, slack_s, ext))
        gi_reqs.append(dict(id="ext", text=t, ranges=ext))
        gi_reqs.append(dict(id="other", text=t, ranges=ext, other_file=True))
        for q in ext:
            gm_lines.append("R 1 %s %s %d %d %d %d" % (lens_s, slack_s, q[0], q[1], q[2], q[3]))
        for q in ext:
            gm_lines.append("R 0 %s %s %d %d %d %d" % (lens_s, slack_s, q[0], q[1], q[2], q[3]))
    gi = run_diagx(diagx, gi_reqs, env, jobs=8)
    gm = iter(run_model(gm_lines))
    n_render = 0
    n_intext = 0
    render_mismatch = None
    for k, (t, lens, slack, L, C, lens_s, slack_s, ext) in enumerate(grids):
        ibits = gi[3 * k]["bits"]
        mbits = next(gm).split()[1]
        cells = [(a, bb, c, d) for a in range(L + 1) for bb in range(C + 1) for c in range(L + 1) for d in range(C + 1)]
        e_impl = gi[3 * k + 1]["bits"]
        o_impl = gi[3 * k + 2]["bits"]
        e_mod = "".join(next(gm).split()[1] for _ in ext)
        o_mod = "".join(next(gm).split()[1] for _ in ext)
        allc = list(zip(cells, ibits, mbits)) + list(zip([tuple(q) for q in ext], e_impl, e_mod))
        n_render += len(allc) + len(ext)
        for (q, ib, mb) in allc:
            it = in_text(lens, *q)
            if it:
                n_intext += 1
                ck.nontrivial(("render", t, q))
            if it and ib != "1":
                ck.violation("render-panic text-range-in-text", "MakeAdvancedHandler panics on the in-text range %s of text %r" % (q, t),
                             dict(text=t, range=q, how="diagx {\"text\":..,\"ranges\":[[sl,sc,el,ec]]}"))
            if ib != mb and render_mismatch is None:
                render_mismatch = (t, q, ib, mb, slack)
        if o_impl != o_mod or "0" in o_impl:
            if "0" in o_impl:
                ck.violation("render-panic other-file", "MakeAdvancedHandler panics on a diagnostic of another file (basic handler path)", dict(text=t, ranges=ext, bits=o_impl))
            elif render_mismatch is None:
                render_mismatch = (t, "other-file", o_impl, o_mod, slack)
    ck.count(n_render)
    if render_mismatch and not ck.violations:
        ck.broken_obligation("correspondence Render.render_ok vs MakeAdvancedHandler fails: text %r range %s impl=%s model=%s (measured slack %s)" % render_mismatch, "")
    ck.cov["render"] = dict(texts=len(rtexts), ranges=n_render, in_text_ranges=n_intext, exhaustive_grids=[(len(g[1]), g[3], g[4]) for g in grids],
                            measured_slack={repr(g[0][:12]): g[2] for g in grids})

    log('[c07] %.1fs renderer done' % (time.time()-ck.t0))
    # ---- H. the handler chain as cmd/kddp wires it: multi-module arrangements x path spellings -------
    hbase = os.path.join(sc, "H")
    arr = chain_arrangements()
    hreqs = []
    for i, a in enumerate(arr):
        base = os.path.join(hbase, str(i))
        for f, t in a["files"].items():
            os.makedirs(os.path.dirname(os.path.join(base, f)), exist_ok=True)
            open(os.path.join(base, f), "w", encoding="utf-8").write(t)
        os.makedirs(os.path.join(base, a["cwd"], "zz"), exist_ok=True)
        a["base"] = base
        a["file_spelled"] = a["file"] if a["file"] is not None else os.path.join(base, a["main"])
        hreqs.append(dict(id=str(i), file=a["file_spelled"], cwd=os.path.join(base, a["cwd"]), chain=True))
    hres = run_diagx(diagx, hreqs, env)
    ck.count(len(hreqs))
    hm_lines = []
    hm_meta = []
    hstat = dict(arrangements=len(arr), layouts=sorted({a["layout"] for a in arr}), spellings=sorted({a["spelling"] for a in arr}),
                 diagnostics=0, with_excerpt=0, header_only=0)
    for a, resp in zip(arr, hres):
        bad = judge_chain(a, a["base"], resp, texts)
        same_base = int(os.path.basename(a["diag_file"]) == os.path.basename(a["main"]))
        for prob, what in bad:
            key = "handler-chain problem=%s main-path=%s diag-in=%s same-basename=%d" % (
                prob, "absolute" if a["spelling"] == "absolute" else "relative", "main" if a["where"] == 0 else "imported", same_base)
            if key in reported:
                continue
            reported.add(key)
            ck.violation(key, what, dict(files=a["files"], cwd=a["cwd"], main_as_given=a["file_spelled"] if a["file"] is None else a["file"], layout=a["layout"], spelling=a["spelling"],
                                         how="write the files below a directory B; cd B/<cwd>; kddp kompiliere <main_as_given> -o out.o -O 0   "
                                             "(or diagx {\"file\":<main_as_given>,\"cwd\":\"B/<cwd>\",\"chain\":true})"))
        if bad or resp is None or "diags" not in resp:
            continue
        note_codes(resp)
        mainabs = os.path.join(a["base"], a["main"])
        mlens = texts.lines(mainabs)
        for d in resp["diags"]:
            if d["wrapped"]:
                continue
            hstat["diagnostics"] += 1
            shown = sum(1 for ol in d.get("out", "").split("\n") if EXC.match(ol))
            hstat["with_excerpt" if shown else "header_only"] += 1
            ck.nontrivial(("H", a["layout"], a["spelling"], a["where"], a["kind"], a["pos"]))
            hm_lines.append("H %s %s %s - %d %d %d %d" % (os.path.normpath(a["file_spelled"]), os.path.normpath(d["file"]), ",".join(map(str, mlens)) or "-", d["sl"], d["sc"], d["el"], d["ec"]))
            hm_meta.append((a, d, shown))
    hmis = None
    for (a, d, shown), ml in zip(hm_meta, run_model(hm_lines) if hm_lines else []):
        f = ml.split()
        if f[1] == "1" and int(f[2]) != shown and hmis is None:
            hmis = (a["layout"], a["spelling"], d["file"], (d["sl"], d["sc"], d["el"], d["ec"]), shown, int(f[2]))
    if hmis and not ck.violations:
        ck.broken_obligation("correspondence Render.handled/shown_lines vs MakeAdvancedHandler's file selection fails: layout %s spelling %s diagnostic of %s range %s: %d excerpt lines printed, model %d" % hmis, "")
    # the kddp binary itself on one arrangement per layout x {error, warning}
    ksel = [a for a in arr if a["spelling"] == "relative" and a["pos"] == "far" and a["where"] == len(a["files"]) - 1]

    def kddp_chain(a):
        cwd = os.path.join(a["base"], a["cwd"])
        obj = os.path.join(a["base"], "out.o")
        try:
            p = subprocess.run([b.kddp, "kompiliere", a["file_spelled"], "-o", obj, "-O", "0"], capture_output=True, text=True, env=env, cwd=cwd, timeout=120)
            return p.returncode, p.stderr
        except subprocess.TimeoutExpired:
            return -9, "timeout"
    for a, (rc, err) in zip(ksel, vlib.pmap(kddp_chain, ksel)):
        ck.count()
        rep = dict(files=a["files"], cwd=a["cwd"], command="kddp kompiliere %s -o out.o -O 0" % a["file_spelled"], exit=rc, stderr=err[-1500:])
        if "goroutine " in err or "runtime error" in err or "Unerwarteter Fehler" in err:
            ck.violation("handler-chain kddp problem=crash main-path=relative same-basename=%d" % int(os.path.basename(a["diag_file"]) == os.path.basename(a["main"])),
                         "kddp dies with a Go runtime error while printing the diagnostic of %s" % a["diag_file"], rep)
        elif ("wahr" not in err and "Wahrheitswert" not in err) if a["kind"] == "e" else ("Implementierung" not in err):
            ck.violation("handler-chain kddp problem=message-missing kind=%s" % a["kind"], "kddp does not print the diagnostic's message", rep)
        elif (rc != 0) != (a["kind"] == "e"):
            ck.violation("handler-chain kddp problem=exit-status kind=%s exit=%d" % (a["kind"], rc), "exit status %d for a run whose only diagnostic is %s" % (rc, "an error" if a["kind"] == "e" else "a warning"), rep)
    hstat["kddp_runs"] = len(ksel)
    ck.cov["handler_chain"] = hstat
    log('[c07] %.1fs handler chain done' % (time.time()-ck.t0))

    # ---- configuration: which of the three repairs does the tree under test contain? --------------
    fx = fixed_scenarios()
    byname = {next(k for k in f.kinds if k.startswith("fixed:"))[6:]: f for f in fx}
    cdir = os.path.join(sc, "cfg")
    w1 = byname["discarded-instantiation-of-imported-generic"].write(os.path.join(cdir, "a"))
    w2 = byname["root-scanner-error"].write(os.path.join(cdir, "b"))
    w3 = byname["type-error-that-still-lowers"].write(os.path.join(cdir, "c"))
    r1, r2 = _run_chunk(diagx, [dict(id="a", file=w1), dict(id="b", file=w2)], env, 60)
    p3 = subprocess.run([b.kddp, "kompiliere", w3, "-o", os.path.join(cdir, "c", "o.o"), "-O", "0", "--module-linken=false"], capture_output=True, text=True, env=env, cwd=os.path.join(cdir, "c"), timeout=120)
    cfg = "%d%d%d" % (int(not any(m["faulty"] for m in (r1.get("modules") or []))), int(bool(r2.get("faulty"))),
                      int(p3.returncode != 0 and "Fehlerhafter Quellcode" in p3.stderr))
    ck.cov["configuration"] = dict(bits=cfg, meaning="(instantiation restores the declaring module's Faulty, scanner errors mark the module, --module-linken=false refuses a faulty module)",
                                   theorems="pinned: *_refuted + *_partial" if cfg == "000" else ("repaired: *_repaired (full)" if cfg == "111" else "NONE for this mix"))
    log("[c07] configuration of the tree under test: %s" % cfg)
    if cfg not in ("000", "111"):
        ck.broken_obligation("the tree contains some but not all of the three repairs (configuration %s): Props/C07.v has theorems for the pinned (000) and the repaired (111) machine only" % cfg, "")

    # ---- F. flags: constructed programs -> model -> real frontend ----------------------------------
    nF = 260 if ck.quick else 4000
    scen = []
    for i in range(nF + len(fx)):
        s = fx[i] if i < len(fx) else Scenario(rng, maxmods=rng.choice([1, 2, 3, 4, 5]))
        d = os.path.join(sc, "F", str(i))
        root = s.write(d)
        scen.append((s, d, root))
    mres = run_model(["F " + cfg + " " + " ".join(s.trace()) for s, _, _ in scen])
    fres = run_diagx(diagx, [dict(id=str(i), file=root) for i, (_, _, root) in enumerate(scen)], env)
    ck.count(len(scen))
    kinds = {}
    flag_mismatch = None
    n_stale = n_rootscan = 0
    scen_obs = []
    for (s, d, root), ml, resp in zip(scen, mres, fres):
        for k in s.kinds:
            kinds[k] = kinds.get(k, 0) + 1
        m = parse_model_flags(ml)
        if resp is None or "crash" in resp or resp.get("panic") or resp.get("nil_module"):
            stats["frontend_crash_or_panic"] += 1
            ck.violation("scenario-crash", "the frontend crashed on a constructed scenario program: %s" % (resp,), dict(files=s.sources()))
            scen_obs.append(None)
            continue
        note_codes(resp)
        if "rejected" in m or not m["done"]:
            judge_and_report(resp, s.sources(), "main.ddp", root)
            ck.broken_obligation("a constructed trace is not admissible for the model: %s -> %s" % (" ".join(s.trace()), ml), "")
            scen_obs.append(None)
            continue
        n_stale += m["stale"]
        n_rootscan += m["rootscan"]
        delivered, faulty = observed_flags(resp, d, len(s.mods))
        want_f = {k: v for k, v in m["faulty"].items()}
        got_f = {k: faulty.get(k, False) for k in want_f}
        if delivered or any(faulty.values()):
            ck.nontrivial(("F", tuple(s.trace())))
        scen_obs.append((m, delivered, faulty))
        differs = delivered != m["delivered"] or got_f != want_f
        bad = judge(resp, root, texts)
        if bad and differs:
            # the property fails here by a mechanism the model does not have (the model mirrors the recorded defects only)
            for key, what in bad:
                k2 = key + " [not the modelled mechanism]"
                if k2 not in reported:
                    reported.add(k2)
                    report(k2, what + "; model: delivered %s Faulty %s" % (m["delivered"], want_f), s.sources(), "main.ddp", resp, dict(trace=" ".join(s.trace())))
        elif bad:
            judge_and_report(resp, s.sources(), "main.ddp", root)
        elif differs and (flag_mismatch is None or len(s.trace()) < len(flag_mismatch[1].split())):
            flag_mismatch = (s.sources(), " ".join(s.trace()), m["delivered"], delivered, want_f, got_f)
    if flag_mismatch:
        # the implementation satisfied the property on this input but not the model: neighbours were all judged above
        ck.broken_obligation("correspondence Flags model vs frontend fails (model no longer covers the code): trace %s: delivered model %s impl %s; Faulty model %s impl %s; sources %s"
                             % (flag_mismatch[1], flag_mismatch[2], flag_mismatch[3], flag_mismatch[4], flag_mismatch[5], json.dumps(flag_mismatch[0], ensure_ascii=False)), "")
    ck.cov["flags"] = dict(programs=len(scen), item_kinds=kinds, model_says_stale=n_stale, model_says_root_scanner_error=n_rootscan, agree=flag_mismatch is None)

    log('[c07] %.1fs flags done' % (time.time()-ck.t0))
    # ---- D. direct judgement on goldens and mutants ----------------------------------------------
    mirror = os.path.join(sc, "golden")
    shutil.copytree(TESTDATA, mirror, ignore=shutil.ignore_patterns("*.txt", "*.c", "*.o"))
    units = golden_units()
    dreqs = []
    dmeta = []
    for top, rel, sib in units:
        dreqs.append(dict(id="g", file=os.path.join(mirror, top, rel)))
        dmeta.append(("golden", top, rel, None, None))
    nD = 2600 if ck.quick else 24000
    gen_roots = [s for s, _, _ in scen if not any(x in s.kinds for x in ("ty", "un", "syn", "dbl", "cap", "chr"))][:40]
    mutkinds = {}
    for i in range(nD):
        r = rng.random()
        if r < 0.18 and gen_roots:
            s = rng.choice(gen_roots)
            srcs = s.sources()
            tgt = rng.choice(sorted(srcs))
            kind, new = mutate(rng, srcs[tgt])
            d = os.path.join(sc, "Dg", str(i))
            os.makedirs(d)
            for n, t in srcs.items():
                open(os.path.join(d, n), "w", encoding="utf-8").write(new if n == tgt else t)
            files = dict(srcs)
            files[tgt] = new
            dreqs.append(dict(id="m", file=os.path.join(d, "main.ddp")))
            dmeta.append(("gen:" + kind + (":imported" if tgt != "main.ddp" else ""), None, "main.ddp", files, None))
            mutkinds[kind] = mutkinds.get(kind, 0) + 1
            continue
        top, rel, sib = rng.choice(units)
        src_main = open(os.path.join(TESTDATA, top, rel), encoding="utf-8").read()
        if sib and rng.random() < 0.25:
            # fault inside an imported module: private copy of the golden directory
            tgt = rng.choice(sib)
            kind, new = mutate(rng, open(os.path.join(TESTDATA, top, tgt), encoding="utf-8").read())
            d = os.path.join(sc, "Dm", str(i))
            shutil.copytree(os.path.join(TESTDATA, top), d, ignore=shutil.ignore_patterns("*.txt", "*.c", "*.o"))
            open(os.path.join(d, tgt), "w", encoding="utf-8").write(new)
            dreqs.append(dict(id="m", file=os.path.join(d, rel)))
            dmeta.append((kind + ":imported", top, rel, None, (tgt, new)))
        else:
            kind, new = mutate(rng, src_main)
            mf = os.path.join(mirror, top, os.path.dirname(rel), "zzmut%d.ddp" % i)
            open(mf, "w", encoding="utf-8").write(new)
            dreqs.append(dict(id="m", file=mf))
            dmeta.append((kind, top, rel, None, ("", new)))
        mutkinds[kind] = mutkinds.get(kind, 0) + 1
    dres = run_diagx(diagx, dreqs, env, timeout=90)
    ck.count(len(dreqs))
    n_err_runs = n_warn_only = n_clean = 0
    for req, meta, resp in zip(dreqs, dmeta, dres):
        if resp is None or "crash" in resp or resp.get("panic"):
            stats["frontend_crash_or_panic"] += 1      # totality of the frontend is C03's property
            continue
        if resp.get("nil_module"):
            stats["parse_error_return"] += 1
            continue
        note_codes(resp)
        top_d = [d for d in resp["diags"] if d["wrapped"] == 0]
        if any(d["level"] == 2 for d in top_d):
            n_err_runs += 1
            ck.nontrivial(("D", tuple((d["code"], d["sl"], d["sc"], d["el"], d["ec"]) for d in resp["diags"]), meta[0]))
        elif top_d:
            n_warn_only += 1
        else:
            n_clean += 1
        bad = judge(resp, req["file"], texts)
        if any(key not in reported for key, _ in bad):
            kind, top, rel, files, mut = meta
            target = None
            if files is None:
                base = os.path.join(TESTDATA, top)
                files = {}
                for g in glob.glob(os.path.join(base, "**", "*.ddp"), recursive=True):
                    files[os.path.relpath(g, base)] = open(g, encoding="utf-8").read()
                if mut:
                    if mut[0]:
                        files[mut[0]] = mut[1]
                        target = mut[0]
                    else:
                        rel = os.path.join(os.path.dirname(rel), "zzmut.ddp")
                        files[rel] = mut[1]
            judge_and_report(resp, files, rel, req["file"], shrink=True, target=target, extra=dict(mutation=kind))
    ck.cov["direct"] = dict(goldens=len(units), mutants=nD, mutation_kinds=mutkinds, runs_with_error=n_err_runs, runs_warning_only=n_warn_only,
                            runs_clean=n_clean, **stats)

    log('[c07] %.1fs direct done' % (time.time()-ck.t0))
    # ---- K. kddp on a sample ----------------------------------------------------------------------
    nK = 36 if ck.quick else 200
    pool = [(s, d, root, o) for (s, d, root), o in zip(scen, scen_obs) if o is not None]
    rng.shuffle(pool)
    # make sure the interesting classes are present
    def cls(o):
        m = o[0]
        return ("stale" if m["stale"] else "") + ("scan" if m["rootscan"] else "") + ("err" if any(x[0] == "e" for x in m["delivered"]) else "") + ("warn" if m["delivered"] and all(x[0] == "w" for x in m["delivered"]) else "")
    byc = {}
    for p in pool:
        byc.setdefault(cls(p[3]), []).append(p)
    sample = []
    while len(sample) < nK and any(byc.values()):
        for c in sorted(byc):
            if byc[c] and len(sample) < nK:
                sample.append(byc[c].pop())

    def kddp_one(job):
        (s, d, root, o), lm = job
        obj = os.path.join(d, "out_lm%d.o" % lm)
        if os.path.exists(obj):
            os.remove(obj)
        cmd = [b.kddp, "kompiliere", root, "-o", obj, "-O", "0"] + ([] if lm else ["--module-linken=false"])
        try:
            p = subprocess.run(cmd, capture_output=True, text=True, env=env, cwd=d, timeout=120)
            rc, err = p.returncode, p.stderr
        except subprocess.TimeoutExpired:
            rc, err = -9, "timeout"
        size = os.path.getsize(obj) if os.path.exists(obj) else -1
        return rc, size, err
    kjobs = [(p, 1) for p in sample] + [(p, 0) for p in sample[: max(6, nK // 4)]]
    kres = vlib.pmap(kddp_one, kjobs)
    ck.count(len(kjobs))
    kstat = dict(runs=len(kjobs), exit0=0, exit_nonzero=0, by_class={})
    for ((s, d, root, o), lm), (rc, size, err) in zip(kjobs, kres):
        m, delivered, faulty = o
        had_err = any(x[0] == "e" for x in delivered)
        c = cls(o)
        kstat["by_class"][c or "clean"] = kstat["by_class"].get(c or "clean", 0) + 1
        kstat["exit0" if rc == 0 else "exit_nonzero"] += 1
        opt = "default" if lm else "--module-linken=false"
        errs = [x for x in delivered if x[0] == "e"]
        desc = "files=%s codes=%s" % ("+".join(sorted({"root" if x[1] == 0 else "imported" for x in errs})) or "-", ",".join(str(c_) for c_ in sorted({x[2] for x in errs})) or "-")
        files = s.sources()
        rep = dict(files=files, root="main.ddp", command="kddp kompiliere main.ddp -o out.o -O 0" + ("" if lm else " --module-linken=false"), exit=rc, object_bytes=size, stderr=err[-1500:],
                   delivered=delivered, faulty=faulty)
        if (rc != 0) != had_err:
            if rc == 0:
                ck.violation("exit-status exit=0 error-delivered=1 option=%s %s" % (opt, desc),
                             "kddp exits 0 although error-level diagnostics %s were delivered" % errs, rep)
            else:
                refused = "Fehlerhafter Quellcode im Modul" in err
                ck.violation("exit-status exit=nonzero error-delivered=0 option=%s refused-faulty-module=%d root_faulty=%d" % (opt, refused, faulty.get(0, False)),
                             "kddp exits %d although no error-level diagnostic was delivered: %s" % (rc, err.strip()[-200:]), rep)
        if had_err and size > 0:
            ck.violation("artifact-on-failure option=%s exit=%d %s" % (opt, rc, desc), "kddp wrote an object file of %d bytes although error-level diagnostics %s were delivered" % (size, errs), rep)
        if rc != 0 and size > 0:
            ck.violation("artifact-on-nonzero-exit option=%s" % opt, "kddp exits %d but leaves a non-empty object file" % rc, rep)
        # model: outcome under (link_modules, codegen_ok = true)
        want = m["out"][0] if lm else m["out"][2]
        got = "O" if (rc == 0 and size > 0) else "R"
        if not lm and any(faulty.values()) and cfg[2] == "0":
            continue        # --module-linken=false hands a faulty AST to the code generator: codegen_ok is not known
        if want != got and not ck.violations:
            ck.broken_obligation("correspondence Flags.compile vs kddp fails: option %s model %s kddp exit=%d object=%d trace %s" % (opt, want, rc, size, " ".join(s.trace())), err[-800:])
    log('[c07] %.1fs kddp done' % (time.time()-ck.t0))
    ck.cov["kddp"] = kstat

    ck.cov["diag_codes_validated"] = dict(sorted(codes.items()))
    ck.cov["exhaustive"] = "renderer: every (Start.Line, Start.Column, End.Line, End.Column) in the listed grids over %d texts; everything else is sampled" % len(rtexts)
    ck.cov["rule"] = ("non-trivial = a frontend run that delivered at least one diagnostic or set a flag (distinct by diagnostic tuple / trace), or an in-text render range; "
                      "inputs: %d constructed multi-module programs (items: %s), %d goldens, %d mutants (token deletion/duplication/transposition/replacement, first/last token, "
                      "inside alias strings, inside imported modules), %d kddp runs" % (len(scen), ", ".join(sorted(kinds)), len(units), nD, len(kjobs)))
    for (s, d, root), o in list(zip(scen, scen_obs))[:3]:
        if o:
            ck.sample(dict(sources=s.sources(), trace=" ".join(s.trace()), model=dict(delivered=o[0]["delivered"], faulty=o[0]["faulty"], out=o[0]["out"]), implementation=dict(delivered=o[1], faulty=o[2])))
    ck.finish("flags: proof over all well-bracketed traces, refuted in both directions for the pinned code (known findings), partial theorems under the negated defects; "
              "ranges: renderer proved total iff in text, range construction sites validated on generated inputs only")


if __name__ == "__main__":
    main()
