#!/usr/bin/env python3
"""C08 — values are copied; only Referenz parameters alias.
Proof: coq/Props/C08.v over the model coq/Lower/Opt2.v (copy mode: separation invariant, frame property, Referenz
binding; the -O2 elision: refuted with witnesses, sound under a decidable no-aliasing condition).
Tie: generated DDP programs (the construct x mutation x type matrix, the aliasing shapes, random programs) are compiled at
-O 0/1/2 and run; the expected output is computed by a VALUE-SEMANTICS reference interpreter in Python (the property
itself); programs inside the model's fragment are also run through the extracted model (copy and elide mode) and the
model's predictions are compared with the executables. A failure is attributed to a known defect only if a
value-semantics-neutral rewrite that removes exactly that mechanism makes it disappear."""
import json
import os
import random
import subprocess
import sys

sys.path.insert(0, os.path.dirname(os.path.abspath(__file__)))
import vlib
import c08gen
from vlib import Check, Build, log

PID = "C08"
SHAPE_NAME = {"A": "value+Referenz same variable", "G": "by-value argument is a global the callee writes",
              "P": "value parameter passed on by Referenz and written by the callee", "L": "by-value argument is a variable the callee writes"}


def observed(rc, out, err):
    o = out.decode("utf-8", "replace")
    e = err.decode("utf-8", "replace")
    if b"AddressSanitizer" in err or rc == 97:
        return ("asan", o, e[-600:])
    if rc == 0:
        return ("ok", o, "")
    if rc == 1 and "Laufzeitfehler" in e and "Segmentation" not in e:
        return ("err", o, e[-300:])
    return ("crash", o, "exit %d %s" % (rc, e[-300:]))


def agrees(ref, obs):
    if ref[0] == "ok":
        return obs[0] == "ok" and obs[1] == ref[1]
    if ref[0] == "err":
        return obs[0] == "err" and obs[1] == ref[1]
    return True


class Runner:
    def __init__(self, b, sc):
        self.b, self.sc, self.n = b, sc, 0

    def run(self, prog, opt, asan=False, tag="p"):
        self.n += 1
        base = os.path.join(self.sc, "%s%d_O%d%s" % (tag, self.n, opt, "a" if asan else ""))
        src = c08gen.render(prog)
        extra = []
        if prog.get("files"):
            # an imported module of its own (unique name per run)
            mod = os.path.basename(base) + "_m"
            src = src.replace("@MOD@", mod)
            for k, v in prog["files"].items():
                f = os.path.join(self.sc, k.replace("@MOD@", mod) + ".ddp")
                open(f, "w").write(v)
                extra.append(f)
        open(base + ".ddp", "w").write(src)
        r = self.b.compile(base + ".ddp", base, opt=opt, asan=asan, timeout=600, cwd=self.sc)
        for f in extra:
            try:
                os.remove(f)
            except OSError:
                pass
        if r["stage"] != "ok":
            return ("compile", "", r["out"][-1500:])
        rc, out, err = self.b.run(base, timeout=60 if asan else 30)
        if rc == -9:   # a loaded machine: once more, patiently
            rc, out, err = self.b.run(base, timeout=300)
        for ext in ("", ".o"):
            try:
                os.remove(base + ext)
            except OSError:
                pass
        return observed(rc, out, err)


def level_name(levels):
    levels = sorted(levels)
    return "all levels" if 0 in levels and (2 in levels or levels == [0]) else "O" + "".join(map(str, levels))


def attribute(rn, prog, ref, fails):
    """fails: {opt: observed}. Returns the canonical keys of the defects that explain the failure: each value-neutral
    rewrite that removes one mechanism is applied in turn and the failing levels are re-run; whatever no rewrite
    explains is 'unclassified'."""
    shapes = ref[2]
    keys = []
    cur = prog
    left = dict(fails)
    if "raw" in prog:
        return ["%s: hand-written program: %s" % (level_name(left), prog.get("name", "?"))]

    def rerun(p, levels):
        out = {}
        for o in levels:
            obs = rn.run(p, o, asan=(left[o][0] == "asan"), tag="at")
            if not agrees(ref, obs):
                out[o] = obs
        return out
    if "S" in shapes:
        t = c08gen.detemp(cur)
        l2 = rerun(t, sorted(left))
        if len(l2) < len(left):
            keys.append("%s: assignment whose source is the target's own storage" % level_name(set(left) - set(l2)))
            cur, left = t, l2
    if left and set(left) <= {2}:
        t = c08gen.deelide(cur)
        l2 = rerun(t, [2])
        if not l2:
            names = sorted(SHAPE_NAME[s] for s in shapes if s in ("A", "G", "P"))
            keys.append("O2 parameter-copy elision: " + (", ".join(names) if names else "unclassified aliasing"))
            cur, left = t, l2
    if left and "D" in shapes:
        keys.append("%s: Referenz to a part of a variable whose container the callee replaces" % level_name(left))
        left = {}
    if left:
        keys.append("%s: unclassified" % level_name(left))
    return keys


def shrink(rn, prog, ref_key, budget=30):
    """greedy statement deletion keeping the violation (same key); used only for violations that are not known"""
    def variants(p):
        for where in ["main"] + list(range(len(p["funs"]))):
            ss = p["main"] if where == "main" else p["funs"][where]["body"]
            for i in range(len(ss)):
                q = json.loads(json.dumps(p))
                q = retuple(q)
                tgt = q["main"] if where == "main" else q["funs"][where]["body"]
                del tgt[i]
                yield q
    cur = prog
    changed = True
    while changed and budget > 0:
        changed = False
        for q in variants(cur):
            if budget <= 0:
                break
            try:
                ref = c08gen.reference(q)
            except Exception:
                continue
            if ref[0] == "fuel":
                continue
            budget -= 1
            fails = {}
            for o in (0, 2):
                try:
                    obs = rn.run(q, o, tag="sh")
                except Exception:
                    obs = ("compile", "", "")
                if obs[0] == "compile":
                    fails = None
                    break
                if not agrees(ref, obs):
                    fails[o] = obs
            if fails:
                try:
                    if ref_key in attribute(rn, q, ref, fails):
                        cur = q
                        changed = True
                        break
                except Exception:
                    pass
    return cur


def retuple(x):
    """json round trip turns tuples into lists; the AST wants tuples (statement lists stay lists)"""
    if isinstance(x, dict):
        return {k: (retuple_list(v) if k in ("globals", "funs", "main", "body", "params") else retuple(v)) for k, v in x.items()}
    if isinstance(x, list):
        return tuple(retuple(v) for v in x)
    return x


def retuple_list(v):
    out = []
    for s in v:
        if isinstance(s, dict):
            out.append(retuple(s))
        else:
            out.append(retuple_stmt(s))
    return out


def retuple_stmt(s):
    s = list(s)
    k = s[0]
    if k == "if":
        return ("if", retuple(s[1]), retuple_list(s[2]), retuple_list(s[3]))
    if k == "for":
        return ("for", s[1], s[2], retuple(s[3]), retuple_list(s[4]))
    if k == "call":
        return ("call", retuple(s[1]) if s[1] is not None else None, s[2], [retuple(a) for a in s[3]])
    return tuple(retuple(v) for v in s)


def fix_prog(p):
    p = retuple(p)
    for f in p["funs"]:
        f["params"] = [tuple(x) for x in f["params"]]
        if f.get("ret") is not None:
            f["ret"] = tuple(f["ret"])
    return p


def main():
    # 16 parallel kddp processes with 16 GC threads each only fight for the cores
    os.environ.setdefault("GOMAXPROCS", "2")
    ck = Check(PID, "proof")
    b = Build()
    ck.cov["trusted_base"] = vlib.TRUSTED_COMMON + [
        "coq/Lower/Opt2.v is a hand transcription of compiler.go claimOrCopy, VisitAssignStmt (copy a non-temporary, free the old value, claim), VisitFuncCall + defineFuncBody (parameter passing), exitFuncScope, VisitForRangeStmt (for-each holder) and const_func_param.go; one level of non-primitive values (Text / Zahlen Liste as sequences), locals freed at function exit, calls as statements",
        "the expected output of every generated program comes from a value-semantics interpreter written for this check (checks/c08gen.py: immutable values, Referenz = caller lvalue path), not from the model",
        "LLVM 14, gcc, glibc malloc (a read of freed memory is only visible as garbage/crash or through the ASan flavour) are outside the model",
        "harness/go/cmd/constx prints the ConstFuncParamMeta the real annotator attaches (compared with the model's `analyse` for every program of the model's fragment)",
        "attribution of a failure to a listed defect uses value-neutral rewrites (deelide: write every non-primitive value parameter once; detemp: assign temporaries) and the aliasing facts observed by the reference interpreter",
    ]
    import time as _t
    T0 = _t.time()
    ck.coq()
    log("[c08] coq %.0fs" % (_t.time() - T0))
    ok, lg = b.ensure_native()
    if not ok:
        ck.violation("build", "kddp/runtime do not build from the current tree", dict(log=lg[-3000:]), no_input=True)
        ck.finish()
    sc = vlib.scratch()
    rn = Runner(b, sc)
    rng = ck.rng
    # ---- programs: corpus first, then matrix, shapes, random
    progs = []
    cdir = os.path.join(vlib.VERIF, "corpus", PID)
    os.makedirs(cdir, exist_ok=True)
    for fn in sorted(os.listdir(cdir)):
        if fn.endswith(".json"):
            try:
                d = json.load(open(os.path.join(cdir, fn)))
                progs.append((dict(kind="corpus", file=fn), fix_prog(d["program"])))
            except Exception as ex:
                log("[corpus] unreadable %s: %s" % (fn, ex))
    ncorpus = len(progs)
    reps = 1 if ck.quick else 4
    progs += c08gen.raw_programs()
    # value parameters of generic / monomorphic callees (same module / imported module, called directly / from inside
    # another function) with a LOCAL variable as argument; quick: every same-module generic program and a sample
    gp = c08gen.generic_param_programs()
    if ck.quick:
        must = [it for it in gp if it[0]["gp"][1] in ("generic", "forward") and it[0]["gp"][2] == "same"]
        rest = [it for it in gp if it not in must]
        rng.shuffle(rest)
        gp = must + rest[:5]
    progs += gp
    # callees that are no plain call of a function with a body: overloaded operators with Referenz parameters, a sibling
    # argument that changes the variable while the arguments are evaluated, an operand changed by a later operand
    progs += c08gen.callee_kind_programs()
    for _ in range(reps):
        # quick: a seed-chosen sample: 40 matrix cells (one holder each) and 46 aliasing shapes (at least one program of
        # every shape); thorough: every cell with both holders and every shape program, four value sets
        mx = c08gen.matrix(rng, one_holder=ck.quick)
        sh = c08gen.shape_programs(rng)
        if ck.quick:
            rng.shuffle(mx)
            mx = mx[:40]
            rng.shuffle(sh)
            first, rest, seen_shapes = [], [], set()
            for it in sh:
                (first if it[0]["shape"] not in seen_shapes else rest).append(it)
                seen_shapes.add(it[0]["shape"])
            sh = first + rest[:max(0, 46 - len(first))]
        progs += mx + sh
    nrand = 16 if ck.quick else 3900
    g_all = c08gen.RandGen(rng)
    g_mod = c08gen.RandGen(rng, True)
    dropped = dict(fuel=0, ub_quota=0)
    ub_kept = 0
    made = 0
    while made < nrand:
        g = g_mod if made % 2 else g_all
        p = g.program()
        r = c08gen.reference(p)
        if r[0] == "fuel":
            dropped["fuel"] += 1
            continue
        if r[2] & {"D"}:
            # the all-level dangling-part-reference defect has dedicated shape programs; keep only a few random ones
            if ub_kept >= (2 if ck.quick else 40):
                dropped["ub_quota"] += 1
                continue
            ub_kept += 1
        progs.append((dict(kind="random", model_only=bool(made % 2), n=made), p))
        made += 1
    # -O 1 = -O 0 plus the LLVM passes (C11's subject); quick compares -O 0 with -O 2 only
    opts = [0, 2] if ck.quick else [0, 1, 2]
    if os.environ.get("VERIF_C08_STRIDE"):   # development aid only: a slice of the programs
        k = int(os.environ["VERIF_C08_STRIDE"])
        progs = progs[:ncorpus] + progs[ncorpus::k]
    # ---- expected results
    items = []
    for meta, p in progs:
        ref = c08gen.reference(p)
        if ref[0] == "fuel":
            continue
        items.append((meta, p, ref, c08gen.to_model(p)))
    # ---- model predictions (one batch)
    mlines = [m for (_, _, _, m) in items if m]
    model_out = {}
    analysis_checked = analysis_bad = 0
    if mlines:
        def big_stack():
            import resource
            resource.setrlimit(resource.RLIMIT_STACK, (resource.RLIM_INFINITY, resource.RLIM_INFINITY))
        mp = subprocess.run([vlib.model_bin("c08")], input="\n".join(mlines) + "\n", capture_output=True, text=True, timeout=900, preexec_fn=big_stack)
        outs = mp.stdout.splitlines()
        if len(outs) != len(mlines):
            ck.broken_obligation("the extracted model driver answered %d of %d programs" % (len(outs), len(mlines)), mp.stderr[-1000:])
        else:
            model_out = dict(zip(mlines, outs))
        # ---- the analysis table itself: the real ConstFuncParamAnnotator against the model's `analyse`
        cx, lgx = b.ensure_go("constx")
        if cx is None:
            ck.broken_obligation("harness constx does not build", lgx[-1500:])
        elif model_out:
            paths = []
            mitems = [it for it in items if it[3]]
            for n, it in enumerate(mitems):
                f = os.path.join(sc, "cx%d.ddp" % n)
                open(f, "w").write(c08gen.render(it[1]))
                paths.append(f)
            cp = subprocess.run([cx], input="\n".join(paths) + "\n", capture_output=True, text=True, timeout=900, env=dict(os.environ, DDPPATH=b.dir))
            couts = cp.stdout.splitlines()
            if len(couts) != len(paths):
                ck.broken_obligation("constx answered %d of %d programs" % (len(couts), len(paths)), cp.stderr[-1000:])
            else:
                for it, co in zip(mitems, couts):
                    nf = len(it[1]["funs"])
                    want = [w[1:] for w in model_out[it[3]].split(" ; ")[2].split()] if nf else []
                    if not co.startswith("OK"):
                        ck.violation("harness: generated program rejected by the frontend", co[:300], dict(source=c08gen.render(it[1]), meta=it[0]))
                        continue
                    got = [w.split(":")[1] for w in co.split()[1:]][-nf:] if nf else []
                    analysis_checked += 1
                    if got != want:
                        analysis_bad += 1
                        if analysis_bad == 1:
                            ck.broken_obligation("the constant-parameter table of the model (`analyse`) differs from ConstFuncParamAnnotator: model %s, annotator %s" % (want, got), c08gen.render(it[1]))
            for f in paths:
                try:
                    os.remove(f)
                except OSError:
                    pass
            # ---- generic instantiations: the annotator analyses the body of an instantiation made in the declaring
            # module like the body of its monomorphic twin (model: an instantiation is a function at the position of
            # the generic declaration); an instantiation made from another module gets no table at all (model:
            # fnometa, never elided).  Tables dumped by constx exactly as compiler.VisitFuncCall looks them up.
            gpaths, gmeta = [], []
            for ty in c08gen.GP_TYPES:
                for flav, place in (("generic", "same"), ("mono", "same"), ("generic", "module"), ("forward", "same")):
                    d, gprog = c08gen.generic_param_program(ty, flav, place, "direct")
                    n = "gx_%s_%s_%s" % (ty, flav, place)
                    f = os.path.join(sc, n + ".ddp")
                    open(f, "w").write(gprog["raw"].replace("@MOD@", n + "_m"))
                    for k, v in gprog["files"].items():
                        open(os.path.join(sc, k.replace("@MOD@", n + "_m") + ".ddp"), "w").write(v)
                    gpaths.append(f)
                    gmeta.append((ty, flav, place, gprog))
            gp_ = subprocess.run([cx], input="\n".join(gpaths) + "\n", capture_output=True, text=True, timeout=900, env=dict(os.environ, DDPPATH=b.dir))
            gouts = gp_.stdout.splitlines()
            if len(gouts) != len(gpaths) or not all(o.startswith("OK") for o in gouts):
                ck.broken_obligation("constx failed on the generic-parameter programs", (gp_.stdout + gp_.stderr)[-1500:])
            else:
                tabs = {}
                for (ty, flav, place, gprog), o in zip(gmeta, gouts):
                    tabs[(ty, flav, place)] = {w.split(":")[0].replace("@", "").replace("import.", ""): w.split(":")[1] for w in o.split()[1:]}
                for ty in c08gen.GP_TYPES:
                    g, m_, x = tabs[(ty, "generic", "same")], tabs[(ty, "mono", "same")], tabs[(ty, "generic", "module")]
                    analysis_checked += 1
                    # a forward declared function ('wird später definiert' + 'Die Funktion f macht:') has the table of
                    # the same function declared with its body (model: a function at the position of the declaration)
                    fw = tabs[(ty, "forward", "same")]
                    bad_fw = {k: (fw.get(k), m_[k]) for k in m_ if k.startswith(("kern_", "schreiber", "huelle_")) and fw.get(k) != m_[k]}
                    if bad_fw:
                        analysis_bad += 1
                        ck.broken_obligation("constant-parameter tables of forward declared functions (%s) differ from the tables of the same functions declared with their body: %s" % (ty, bad_fw), "")
                    bad_same = {k: (g.get(k), m_[k]) for k in m_ if k.startswith(("kern_", "schreiber")) and g.get(k) != m_[k]}
                    bad_x = {k: x[k] for k in x if k.startswith(("kern_", "schreiber")) and x[k] != "?"}
                    if bad_same or bad_x:
                        analysis_bad += 1
                        ck.broken_obligation("constant-parameter tables of generic instantiations (%s): same-module instantiations differing from their monomorphic twins %s; cross-module instantiations that carry a table %s (the model analyses a same-module instantiation like a function and gives a cross-module one no table)" % (ty, bad_same, bad_x),
                                             gmeta[0][3]["raw"][:1500])
            # ---- operator overloads / sibling arguments: the tables the model's reading of the annotator requires
            # (an overloaded operator is a call of the overloading function)
            kpaths, kmeta = [], []
            for d, kprog in c08gen.callee_kind_programs():
                if not d.get("tables"):
                    continue
                f = os.path.join(sc, "kx_%d.ddp" % len(kpaths))
                open(f, "w").write(kprog["raw"])
                kpaths.append(f)
                kmeta.append(d)
            kp_ = subprocess.run([cx], input="\n".join(kpaths) + "\n", capture_output=True, text=True, timeout=900, env=dict(os.environ, DDPPATH=b.dir))
            kouts = kp_.stdout.splitlines()
            if len(kouts) != len(kpaths) or not all(o.startswith("OK") for o in kouts):
                ck.broken_obligation("constx failed on the operator / sibling-argument programs", (kp_.stdout + kp_.stderr)[-1500:])
            else:
                for d, o in zip(kmeta, kouts):
                    got = {w.split(":")[0]: w.split(":")[1] for w in o.split()[1:]}
                    analysis_checked += 1
                    badk = {k: (got.get(k), v) for k, v in d["tables"].items() if got.get(k) != v}
                    if badk:
                        analysis_bad += 1
                        ck.broken_obligation("constant-parameter tables (annotator, expected) of '%s': %s" % (d["name"], badk), "")
    log("[c08] generation+model+constx done at %.0fs" % (_t.time() - T0))
    # ---- run
    jobs = [(i, o) for i in range(len(items)) for o in opts]

    def job(io):
        i, o = io
        try:
            return rn.run(items[i][1], o)
        except Exception as ex:   # harness error, reported below
            return ("harness", "", repr(ex))
    results = vlib.pmap(job, jobs)
    ck.count(len(jobs))
    log("[c08] %d runs done at %.0fs" % (len(jobs), _t.time() - T0))
    by_prog = {}
    for (i, o), obs in zip(jobs, results):
        by_prog.setdefault(i, {})[o] = obs
    dist = dict(matrix=0, shape=0, random=0, corpus=0, raw=0)
    stats = dict(expected_ok=0, expected_err=0, model_programs=0, model_elide_differs=0, model_elide_differs_confirmed=0, failing_programs=0)
    model_bad = []
    seen_keys = {}
    for i, (meta, p, ref, mline) in enumerate(items):
        dist[meta["kind"]] = dist.get(meta["kind"], 0) + 1
        stats["expected_ok" if ref[0] == "ok" else "expected_err"] += 1
        if ref[1]:
            ck.nontrivial(c08gen.render(p))
        obs = by_prog[i]
        bad = [o for o in opts if obs[o][0] in ("compile", "harness")]
        if bad:
            ck.violation("harness: generated program rejected (%s)" % meta.get("kind"), "a well-formed generated program does not compile at -O %s: %s" % (bad, obs[bad[0]][2][-400:]),
                         dict(source=c08gen.render(p), meta=meta, output=obs[bad[0]][2]))
            continue
        fails = {o: obs[o] for o in opts if not agrees(ref, obs[o])}
        # ---- model correspondence
        if mline and mline in model_out:
            stats["model_programs"] += 1
            parts = model_out[mline].split(" ; ")
            mc = c08gen.model_render(parts[0], ref[3])
            me = c08gen.model_render(parts[1], ref[3])
            # copy mode = the language rule = the reference
            if mc[0] == "ok":
                good = (ref[0] == "ok" and mc[1] == ref[1])
            elif mc[0] == "er":
                good = (mc[1] == "bounds" and ref[0] == "err") or mc[1] == "fuel"
            else:
                good = False
            if not good:
                model_bad.append(("copy mode of the model vs. value semantics", meta, parts[0][:200], ref[:2], c08gen.render(p)))
            # elide mode = what -O2 does
            if parts[0] != parts[1]:
                stats["model_elide_differs"] += 1
                if me[0] == "ok":
                    # the shared cell changes under the reader: a definite prediction
                    if obs[2][0] == "ok" and obs[2][1] == me[1]:
                        stats["model_elide_differs_confirmed"] += 1
                    elif 2 not in fails:
                        model_bad.append(("elide mode predicts a changed output, the -O2 executable prints the value-semantics output", meta, parts[1][:200], obs[2][:2], c08gen.render(p)))
                else:
                    # freed storage is read: undefined for the executable; the ASan flavour must see it
                    if 2 in fails:
                        stats["model_elide_differs_confirmed"] += 1
                    elif not ck.quick or stats["model_elide_differs"] % 4 == 0:
                        a = rn.run(p, 2, asan=True, tag="ma")
                        ck.count()
                        if a[0] == "asan":
                            stats["model_elide_differs_confirmed"] += 1
                            fails[2] = a
                        else:
                            model_bad.append(("elide mode predicts a read of freed storage, the -O2 ASan executable reports none", meta, parts[1][:200], a[:2], c08gen.render(p)))
            elif 2 in fails and 0 not in fails and me[0] == "ok":
                model_bad.append(("the model predicts no effect of the elision, the -O2 executable differs", meta, parts[1][:200], obs[2][:2], c08gen.render(p)))
        if not fails:
            continue
        stats["failing_programs"] += 1
        keys = attribute(rn, p, ref, fails)
        o = min(fails)
        replay = dict(source=c08gen.render(p), opt=o, failing_levels=sorted(fails), expected=[ref[0], ref[1]], observed=list(fails[o]), meta=meta,
                      aliasing_facts=sorted(ref[2]), explained_by=keys, how="kddp kompiliere prog.ddp -o prog.o -O %d; link; ./prog" % o, program=p)
        for key in keys:
            is_new = ck.violation(key, "expected %r, -O %d executable gave %r" % (ref[:2], o, fails[o][:2]), replay)
            if is_new and key not in seen_keys and meta["kind"] not in ("corpus", "raw"):
                # unknown violation: shrink and persist
                small = shrink(rn, p, key)
                replay = dict(replay, source=c08gen.render(small), program=small, expected=list(c08gen.reference(small)[:2]))
                ck.violations[-1] = (key, ck.violations[-1][1], replay, False)
                cf = os.path.join(cdir, "v_%08d.json" % (abs(hash(key)) % 10**8))
                json.dump(dict(key=key, program=small, source=c08gen.render(small)), open(cf, "w"), ensure_ascii=False, indent=1)
            if key not in seen_keys:
                seen_keys[key] = 0
                # persist one small example per key (the dedicated shape programs are already minimal)
                cf = os.path.join(cdir, "k_%s.json" % "".join(ch if ch.isalnum() else "_" for ch in key)[:80])
                if not os.path.exists(cf) and meta["kind"] in ("shape", "matrix"):
                    json.dump(dict(key=key, program=p, source=c08gen.render(p), expected=ref[:2]), open(cf, "w"), ensure_ascii=False, indent=1)
            seen_keys[key] += 1
    log("[c08] triage done at %.0fs" % (_t.time() - T0))
    # ---- ASan flavour on a sample: the aliasing shapes and a slice of the rest, at -O 0 and -O 2
    sample = [i for i, it in enumerate(items) if it[0]["kind"] == "raw"]
    sample += [i for i, it in enumerate(items) if it[0]["kind"] == "shape"][:: (6 if ck.quick else 1)][: (8 if ck.quick else 250)]
    sample += [i for i, it in enumerate(items) if it[0]["kind"] not in ("shape", "raw")][:: (30 if ck.quick else 12)]
    ajobs = [(i, o) for i in sample for o in ((2,) if ck.quick else (0, 2))]

    def ajob(io):
        i, o = io
        try:
            return rn.run(items[i][1], o, asan=True, tag="as")
        except Exception as ex:
            return ("harness", "", repr(ex))
    ares = vlib.pmap(ajob, ajobs)
    ck.count(len(ajobs))
    log("[c08] %d ASan runs done at %.0fs" % (len(ajobs), _t.time() - T0))
    n_asan = 0
    for (i, o), a in zip(ajobs, ares):
        meta, p, ref, _ = items[i]
        if a[0] == "asan" or (a[0] not in ("compile", "harness") and not agrees(ref, a)):
            n_asan += 1
            if o in {oo for oo in by_prog[i] if not agrees(ref, by_prog[i][oo])}:
                continue   # already reported from the plain run
            for key in attribute(rn, p, ref, {o: a}):
                ck.violation(key, "sanitizer flavour at -O %d: %s" % (o, a[2][:300]),
                             dict(source=c08gen.render(p), opt=o, asan=True, expected=[ref[0], ref[1]], observed=list(a), meta=meta, aliasing_facts=sorted(ref[2])))
                seen_keys[key] = seen_keys.get(key, 0) + 1
    if model_bad and not ck.violations:
        what, meta, mres, got, src = model_bad[0]
        ck.broken_obligation("model/implementation correspondence: %s (%d cases); first: model %s, other side %s" % (what, len(model_bad), mres, got), src)
    ck.cov.update(dict(
        programs=len(items), corpus_programs=ncorpus, by_kind=dist, opt_levels=opts, asan_runs=len(ajobs), asan_reports_or_diffs=n_asan, dropped=dropped,
        keys=seen_keys, model_mismatches=len(model_bad), analysis_tables_compared=analysis_checked, analysis_tables_differing=analysis_bad, **stats,
        matrix="types (Text, Zahlen Liste, Text Liste, Datensatz) x constructs %s x mutations %s x mutated holder (A|B): every combination that exists in the language" % (list(c08gen.CONSTRUCTS), list(c08gen.MUTATIONS)),
        rule="evaluations = executable runs (program x -O level, plus ASan runs, plus attribution re-runs not counted); distinct_nontrivial = distinct generated sources whose expected output is non-empty (every program shows both holders before and after the mutation)",
        distribution="random programs: 2-4 globals, 1-3 functions with 1-3 parameters (45%% Referenz; value+Referenz of one type forced in 60%%), calls reuse the root variable of an earlier argument with probability 0.5-0.6; half of them restricted to the model's fragment"))
    ck.sample(dict(kind="shape", shape="value+Referenz same variable", expected="value-semantics output at -O 0/1/2", observed_on_pinned_tree="-O 2 reads freed/changed storage"))
    ck.sample(dict(kind="matrix", example=items[ncorpus][0] if len(items) > ncorpus else None))
    ck.finish()


if __name__ == "__main__":
    main()
