"""Shared by C08 and C11: a small DDP fragment (Text, Zahlen Liste, Text Liste, one Kombination; variables,
globals, functions with value and Referenz parameters; assignment, element/character/field assignment,
compound assignment, for-each, if, calls with results) with
  * a renderer to DDP source,
  * a VALUE-SEMANTICS reference interpreter (values are immutable Python objects, a Referenz parameter is the
    caller's lvalue path) — this is property C08 itself, not a copy of the code generator,
  * a serialiser of the sub-fragment the Coq model coq/Lower/Opt2.v covers,
  * generators: the systematic construct x mutation x type matrix, the aliasing shapes, random programs.

AST (plain tuples):
  types      'Z' Zahl, 'B' Buchstabe, 'T' Text, 'ZL' Zahlen Liste, 'TL' Text Liste, 'D' Datensatz{name:T, werte:ZL, anzahl:Z}
  expr       ('int',z) ('chr',c) ('lit',ty,val) ('lv',lvalue) ('cat',a,b) ('idx',a,i) ('len',a) ('mk',name,werte,anzahl)
             ('sub',a,b) ('add',a,b)
  lvalue     ('var',x) | ('el',lv,iexpr) | ('fld',lv,fname)
  stmt       ('decl',ty,x,e) ('asg',lv,e) ('chr_asg',lv,i,e) ('print',e,style) ('call',dst_lv|None,f,args)
             ('if',c,th,el) ('for',ty,x,e,body) ('append',lv,e)   [Duden: Füge e an lv an]
  arg        ('val',e) | ('ref',lv)
  function   dict(name, params=[(pname,ty,isref)], body=[stmt], ret=(ty,expr)|None)
  program    dict(globals=[('decl',..)], funs=[function], main=[stmt])
"""
import re
import random

FIELDS = (("name", "T"), ("werte", "ZL"), ("anzahl", "Z"))
FTY = dict(FIELDS)
NONPRIM = ("T", "ZL", "TL", "D")

DECL = {"Z": "Die Zahl", "B": "Der Buchstabe", "T": "Der Text", "ZL": "Die Zahlen Liste", "TL": "Die Text Liste", "D": "Der Datensatz"}
PTYPE = {"Z": "Zahl", "B": "Buchstabe", "T": "Text", "ZL": "Zahlen Liste", "TL": "Text Liste", "D": "Datensatz"}
PREF = {"Z": "Zahlen Referenz", "B": "Buchstaben Referenz", "T": "Text Referenz", "ZL": "Zahlen Listen Referenz", "TL": "Text Listen Referenz", "D": "Datensatz Referenz"}
RETT = {"Z": "eine Zahl", "B": "einen Buchstaben", "T": "einen Text", "ZL": "eine Zahlen Liste", "TL": "eine Text Liste", "D": "einen Datensatz"}
FOREACH = {"Z": "jede Zahl", "B": "jeden Buchstaben", "T": "jeden Text"}
SHOW = {"Z": "zeige die Zahl", "B": "zeige den Buchstaben", "T": "zeige den Text", "ZL": "zeige die Zahlen Liste", "TL": "zeige die Text Liste", "D": "zeige den Datensatz"}
ELEM = {"T": "B", "ZL": "Z", "TL": "T"}

PRELUDE = '''Binde "Duden/Ausgabe" ein.

Wir nennen die Kombination aus
	dem Text name mit Standardwert "",
	der Zahlen Liste werte mit Standardwert eine leere Zahlen Liste,
	der Zahl anzahl mit Standardwert 0,
einen Datensatz, und erstellen sie so:
	"ein Datensatz mit name <name> und werten <werte> und anzahl <anzahl>"

Die Funktion zeigeZ mit dem Parameter x vom Typ Zahl, gibt nichts zurück, macht:
	Schreibe x.
	Schreibe '|'.
Und kann so benutzt werden:
	"zeige die Zahl <x>"

Die Funktion zeigeB mit dem Parameter x vom Typ Buchstabe, gibt nichts zurück, macht:
	Schreibe x.
	Schreibe '|'.
Und kann so benutzt werden:
	"zeige den Buchstaben <x>"

Die Funktion zeigeT mit dem Parameter x vom Typ Text, gibt nichts zurück, macht:
	Schreibe x.
	Schreibe '|'.
Und kann so benutzt werden:
	"zeige den Text <x>"

Die Funktion zeigeZL mit dem Parameter x vom Typ Zahlen Liste, gibt nichts zurück, macht:
	Schreibe '['.
	Für jede Zahl z in x, mache:
		Schreibe z.
		Schreibe ' '.
	Schreibe ']'.
	Schreibe '|'.
Und kann so benutzt werden:
	"zeige die Zahlen Liste <x>"

Die Funktion zeigeTL mit dem Parameter x vom Typ Text Liste, gibt nichts zurück, macht:
	Schreibe '['.
	Für jeden Text z in x, mache:
		Schreibe z.
		Schreibe ','.
	Schreibe ']'.
	Schreibe '|'.
Und kann so benutzt werden:
	"zeige die Text Liste <x>"

Die Funktion zeigeD mit dem Parameter x vom Typ Datensatz, gibt nichts zurück, macht:
	Schreibe '{'.
	Schreibe (name von x).
	Schreibe ';'.
	Für jede Zahl z in (werte von x), mache:
		Schreibe z.
		Schreibe ' '.
	Schreibe ';'.
	Schreibe (anzahl von x).
	Schreibe '}'.
	Schreibe '|'.
Und kann so benutzt werden:
	"zeige den Datensatz <x>"

'''


# ------------------------------------------------------------------------------------------------
# values (immutable) and their printed form
# ------------------------------------------------------------------------------------------------
def show(ty, v):
    if ty == "Z":
        return "%d|" % v
    if ty in ("B", "T"):
        return v + "|"
    if ty == "ZL":
        return "[" + "".join("%d " % z for z in v) + "]|"
    if ty == "TL":
        return "[" + "".join(t + "," for t in v) + "]|"
    if ty == "D":
        return "{" + v[0] + ";" + "".join("%d " % z for z in v[1]) + ";" + "%d" % v[2] + "}|"
    raise ValueError(ty)


def default(ty):
    return {"Z": 0, "B": "a", "T": "", "ZL": (), "TL": (), "D": ("", (), 0)}[ty]


# ------------------------------------------------------------------------------------------------
# static types
# ------------------------------------------------------------------------------------------------
class TypeEnv:
    def __init__(self, prog):
        self.prog = prog
        self.funs = {f["name"]: f for f in prog["funs"]}


def lv_type(lv, vt):
    k = lv[0]
    if k == "var":
        return vt[lv[1]]
    if k == "el":
        return ELEM[lv_type(lv[1], vt)]
    if k == "fld":
        return FTY[lv[2]]
    raise ValueError(lv)


def ex_type(e, vt):
    k = e[0]
    if k in ("int", "len", "sub", "add"):
        return "Z"
    if k == "chr":
        return "B"
    if k == "lit":
        return e[1]
    if k == "lv":
        return lv_type(e[1], vt)
    if k == "cat":
        return ex_type(e[1], vt)
    if k == "idx":
        return ELEM[ex_type(e[1], vt)]
    if k == "mk":
        return "D"
    raise ValueError(e)


def lv_root(lv):
    while lv[0] != "var":
        lv = lv[1]
    return lv[1]


# ------------------------------------------------------------------------------------------------
# renderer
# ------------------------------------------------------------------------------------------------
def esc_text(s):
    return '"' + s.replace("\\", "\\\\").replace('"', '\\"') + '"'


def r_lit(ty, v):
    if ty == "T":
        return esc_text(v)
    if ty == "ZL":
        return "eine leere Zahlen Liste" if not v else "eine Liste, die aus " + ", ".join(str(z) if z >= 0 else "(%d)" % z for z in v) + " besteht"
    if ty == "TL":
        return "eine leere Text Liste" if not v else "eine Liste, die aus " + ", ".join(esc_text(t) for t in v) + " besteht"
    if ty == "D":
        return "ein Datensatz mit name %s und werten (%s) und anzahl %d" % (esc_text(v[0]), r_lit("ZL", v[1]), v[2])
    if ty == "Z":
        return str(v)
    if ty == "B":
        return "'%s'" % v
    raise ValueError(ty)


def r_lv(lv):
    """an assignable, unparenthesised (statement position)"""
    k = lv[0]
    if k == "var":
        return lv[1]
    if k == "fld":
        # <feld> von <ident>
        assert lv[1][0] == "var", lv
        return "%s von %s" % (lv[2], lv[1][1])
    if k == "el":
        inner = lv[1]
        if inner[0] == "el":
            return "%s, an der Stelle %s" % (r_lv(inner), r_ex(lv[2]))
        return "%s an der Stelle %s" % (r_lv(inner), r_ex(lv[2]))
    raise ValueError(lv)


def r_ex(e):
    """an expression, parenthesised unless atomic"""
    k = e[0]
    if k == "int":
        return str(e[1]) if e[1] >= 0 else "(%d)" % e[1]
    if k == "chr":
        return "'%s'" % e[1]
    if k == "lit":
        s = r_lit(e[1], e[2])
        return s if e[1] in ("T",) else "(" + s + ")"
    if k == "lv":
        return r_lv(e[1]) if e[1][0] == "var" else "(" + r_lv(e[1]) + ")"
    if k == "cat":
        return "(%s verkettet mit %s)" % (r_ex(e[1]), r_ex(e[2]))
    if k == "idx":
        return "(%s an der Stelle %s)" % (r_ex(e[1]), r_ex(e[2]))
    if k == "len":
        return "(die Länge von %s)" % r_ex(e[1])
    if k == "sub":
        return "(%s minus %s)" % (r_ex(e[1]), r_ex(e[2]))
    if k == "add":
        return "(%s plus %s)" % (r_ex(e[1]), r_ex(e[2]))
    if k == "mk":
        return "(ein Datensatz mit name %s und werten %s und anzahl %s)" % (r_ex(e[1]), r_ex(e[2]), r_ex(e[3]))
    raise ValueError(e)


def r_arg(a):
    if a[0] == "val":
        return r_ex(a[1])
    lv = a[1]
    return r_lv(lv) if lv[0] == "var" else "(" + r_lv(lv) + ")"


def wrap_temp(e, ty):
    """an expression with the same value that is NOT an assignable (so that showing a parameter does not make the
    constant-parameter analysis give up on it)"""
    if e[0] != "lv":
        return e
    if ty == "T":
        return ("cat", e, ("lit", "T", ""))
    if ty == "ZL":
        return ("cat", e, ("lit", "ZL", ()))
    if ty == "TL":
        return ("cat", e, ("lit", "TL", ()))
    if ty == "Z":
        return ("add", e, ("int", 0))
    return e


def r_stmts(ss, vt, ind):
    out = []
    t = "\t" * ind
    for s in ss:
        k = s[0]
        if k == "decl":
            out.append("%s%s %s ist %s." % (t, DECL[s[1]], s[2], r_ex(s[3]).strip() if s[3][0] != "lit" else r_lit(s[3][1], s[3][2])))
            vt[s[2]] = s[1]
        elif k == "asg":
            out.append("%sSpeichere %s in %s." % (t, r_ex(s[2]), r_lv(s[1])))
        elif k == "chr_asg":
            out.append("%sSpeichere %s in %s an der Stelle %s." % (t, r_ex(s[3]), r_lv(s[1]) if s[1][0] != "el" else r_lv(s[1]) + ",", r_ex(s[2])))
        elif k == "append":
            out.append("%sFüge %s an %s an." % (t, r_ex(s[2]), r_arg(("ref", s[1]))))
        elif k == "print":
            ty = ex_type(s[1], vt)
            e = s[1]
            if s[2] == "wrapped":
                if ty == "D" and e[0] == "lv":
                    # field by field, each through a temporary
                    d = e
                    e = ("mk", wrap_temp(("lv", ("fld", d[1], "name")), "T"), wrap_temp(("lv", ("fld", d[1], "werte")), "ZL"), wrap_temp(("lv", ("fld", d[1], "anzahl")), "Z"))
                else:
                    e = wrap_temp(e, ty)
            out.append("%s%s %s." % (t, SHOW[ty], r_ex(e)))
        elif k == "call":
            call = "%s %s" % (s[2], " ".join(r_arg(a) for a in s[3]))
            if s[1] is None:
                out.append("%s%s." % (t, call))
            else:
                out.append("%sSpeichere (%s) in %s." % (t, call, r_lv(s[1])))
        elif k == "if":
            out.append("%sWenn %s ungleich 0 ist, dann:" % (t, r_ex(s[1])))
            out += r_stmts(s[2], dict(vt), ind + 1) or ['%s\tSchreibe "".' % t]
            if s[3]:
                out.append("%sSonst:" % t)
                out += r_stmts(s[3], dict(vt), ind + 1)
        elif k == "for":
            out.append("%sFür %s %s in %s, mache:" % (t, FOREACH[s[1]], s[2], r_ex(s[3])))
            vt2 = dict(vt)
            vt2[s[2]] = s[1]
            out += r_stmts(s[4], vt2, ind + 1)
        else:
            raise ValueError(s)
    return out


def render(prog):
    if "raw" in prog:
        return prog["raw"]
    vt = {}
    lines = r_stmts(prog["globals"], vt, 0)
    pre = PRELUDE
    if "'append'" in repr(prog):
        pre = pre.replace('Binde "Duden/Ausgabe" ein.\n', 'Binde "Duden/Ausgabe" ein.\nBinde "Duden/Listen" ein.\n', 1)
    out = pre + "\n".join(lines) + "\n\n"
    for f in prog["funs"]:
        ps = f["params"]
        names = [p[0] for p in ps]
        types = [(PREF if p[2] else PTYPE)[p[1]] for p in ps]
        if len(ps) == 1:
            head = "mit dem Parameter %s vom Typ %s" % (names[0], types[0])
        else:
            head = "mit den Parametern %s und %s vom Typ %s und %s" % (", ".join(names[:-1]), names[-1], ", ".join(types[:-1]), types[-1])
        ret = "gibt nichts zurück" if f["ret"] is None else "gibt %s zurück" % RETT[f["ret"][0]]
        fvt = dict(vt)
        for p in ps:
            fvt[p[0]] = p[1]
        body = r_stmts(f["body"], fvt, 1)
        if f["ret"] is not None:
            body.append("\tGib %s zurück." % r_ex(f["ret"][1]))
        if not body:
            body = ['\tSchreibe "".']
        out += "Die Funktion %s %s, %s, macht:\n%s\nUnd kann so benutzt werden:\n\t\"%s %s\"\n\n" % (
            f["name"], head, ret, "\n".join(body), f["name"], " ".join("<%s>" % n for n in names))
    out += "\n".join(r_stmts(prog["main"], vt, 0)) + "\n"
    return out


# ------------------------------------------------------------------------------------------------
# reference interpreter: value semantics
# ------------------------------------------------------------------------------------------------
def ex_type_dyn(v):
    """non-primitive value?"""
    return not isinstance(v, int) and not (isinstance(v, str) and len(v) == 1 and False)


def vsize(v):
    if isinstance(v, int):
        return 1
    if isinstance(v, str):
        return len(v) + 1
    return 1 + sum(vsize(x) for x in v)


class RuntimeErr(Exception):
    pass


class OutOfFuel(Exception):
    pass


class Ref:
    """a Referenz parameter: the caller's scope and a fully evaluated lvalue path"""
    def __init__(self, scope, root, steps):
        self.scope, self.root, self.steps = scope, root, steps


class Interp:
    def __init__(self, prog, fuel=4000):
        self.prog = prog
        self.funs = {f["name"]: f for f in prog["funs"]}
        self.out = []
        self.out_types = []
        self.outlen = 0
        self.fuel = fuel
        self.globals = {}
        # facts about aliasing met during the run (used to attribute failures to a known shape)
        self.shapes = set()
        self.active = []   # per active call: list of (canonical storage of a by-value lvalue argument)

    # --- lvalues: resolve to (owning scope, root, steps, via_referenz) with every index evaluated
    def resolve(self, lv, sc):
        k = lv[0]
        if k == "var":
            x = lv[1]
            if x in sc:
                v = sc[x]
                if isinstance(v, Ref):
                    return v.scope, v.root, list(v.steps), True
                while isinstance(sc, Chain) and not dict.__contains__(sc, x):
                    sc = sc.parent
                return sc, x, [], False
            if x in self.globals:
                return self.globals, x, [], False
            raise KeyError(x)
        if k == "el":
            s, r, st, vr = self.resolve(lv[1], sc)
            i = self.ev(lv[2], sc)
            return s, r, st + [("i", i)], vr
        if k == "fld":
            s, r, st, vr = self.resolve(lv[1], sc)
            return s, r, st + [("f", lv[2])], vr
        raise ValueError(lv)

    @staticmethod
    def get_path(v, steps):
        for kind, x in steps:
            if kind == "i":
                if not (1 <= x <= len(v)):
                    raise RuntimeErr("index")
                v = v[x - 1]
            else:
                v = v[[f for f, _ in FIELDS].index(x)]
        return v

    @staticmethod
    def set_path(v, steps, new):
        if not steps:
            return new
        (kind, x), rest = steps[0], steps[1:]
        if kind == "i":
            if not (1 <= x <= len(v)):
                raise RuntimeErr("index")
            inner = Interp.set_path(v[x - 1], rest, new)
            if isinstance(v, str):
                return v[:x - 1] + inner + v[x:]
            return v[:x - 1] + (inner,) + v[x:]
        i = [f for f, _ in FIELDS].index(x)
        return v[:i] + (Interp.set_path(v[i], rest, new),) + v[i + 1:]

    def read_lv(self, lv, sc):
        s, r, st, _ = self.resolve(lv, sc)
        return self.get_path(s[r], st)

    def write_lv(self, lv, sc, new):
        s, r, st, vr = self.resolve(lv, sc)
        self.note_write(s, r, vr, st)
        dict.__setitem__(s, r, self.set_path(s[r], st, new))

    def note_write(self, scope, root, via_ref, steps):
        for frame in self.active:
            for ent in frame:
                ascope, aroot, kind = ent[0], ent[1], ent[2]
                if not (ascope is scope and aroot == root):
                    continue
                if kind == "R":
                    # a Referenz to a PART of this variable is alive while the part's container is replaced
                    rsteps = ent[3]
                    if len(steps) < len(rsteps) and rsteps[:len(steps)] == steps:
                        self.shapes.add("D")
                elif kind != "P" or via_ref:
                    self.shapes.add(kind)

    # --- expressions
    def ev(self, e, sc):
        k = e[0]
        if k == "int" or k == "chr":
            return e[1]
        if k == "lit":
            return e[2]
        if k == "lv":
            return self.read_lv(e[1], sc)
        if k == "cat":
            a, b = self.ev(e[1], sc), self.ev(e[2], sc)
            if vsize(a) + vsize(b) > 400:
                raise OutOfFuel()     # generated programs whose values explode are discarded
            if isinstance(a, str):
                return a + b
            if isinstance(b, tuple):
                return a + b
            return a + (b,)
        if k == "idx":
            a, i = self.ev(e[1], sc), self.ev(e[2], sc)
            if not (1 <= i <= len(a)):
                raise RuntimeErr("index")
            return a[i - 1]
        if k == "len":
            return len(self.ev(e[1], sc))
        if k == "sub":
            return self.ev(e[1], sc) - self.ev(e[2], sc)
        if k == "add":
            return self.ev(e[1], sc) + self.ev(e[2], sc)
        if k == "mk":
            return (self.ev(e[1], sc), self.ev(e[2], sc), self.ev(e[3], sc))
        raise ValueError(e)

    def tick(self):
        self.fuel -= 1
        if self.fuel <= 0:
            raise OutOfFuel()

    def call(self, f, args, sc):
        fd = self.funs[f]
        new = {}
        frame = []
        refroots = []
        for (pn, pt, isref), a in zip(fd["params"], args):
            if isref:
                s, r, st, _ = self.resolve(a[1], sc)
                self.get_path(s[r], st)    # binding a Referenz to an element checks the index (Laufzeitfehler)
                new[pn] = Ref(s, r, st)
                refroots.append((s, r))
                if st:
                    frame.append((s, r, "R", list(st)))
            else:
                new[pn] = self.ev(a[1], sc)
                if a[1][0] == "lv" and pt in NONPRIM:
                    s, r, st, _ = self.resolve(a[1][1], sc)
                    frame.append((s, r, "G" if s is self.globals else "L"))
        # same variable by value and by Referenz in one call
        for ent in frame:
            if ent[2] != "R" and any(ent[0] is s2 and ent[1] == r2 for (s2, r2) in refroots):
                self.shapes.add("A")
        # a value parameter of this activation handed on by Referenz (written later => recursion-order shape)
        frame2 = [(new, pn, "P") for (pn, pt, isref) in fd["params"] if not isref and pt in NONPRIM]
        self.active.append(frame + frame2)
        try:
            self.run(fd["body"], new)
            res = self.ev(fd["ret"][1], new) if fd["ret"] is not None else None
        finally:
            self.active.pop()
        return res

    def run(self, ss, sc):
        for s in ss:
            self.tick()
            k = s[0]
            if k == "decl":
                v = self.ev(s[3], sc)
                if isinstance(sc, Chain):
                    sc.declare(s[2], v)
                else:
                    sc[s[2]] = v
            elif k == "asg":
                if s[2][0] == "lv":
                    a = self.resolve(s[2][1], sc)
                    b = self.resolve(s[1], sc)
                    if a[0] is b[0] and a[1] == b[1] and a[2] == b[2] and ex_type_dyn(self.get_path(a[0][a[1]], a[2])):
                        self.shapes.add("S")
                self.write_lv(s[1], sc, self.ev(s[2], sc))
            elif k == "chr_asg":
                v = self.ev(s[3], sc)
                i = self.ev(s[2], sc)
                self.write_lv(("el", s[1], ("int", i)), sc, v)
            elif k == "append":
                v = self.ev(s[2], sc)
                self.write_lv(s[1], sc, self.read_lv(s[1], sc) + (v,))
            elif k == "print":
                self.out.append(show(s[3], self.ev(s[1], sc)))
                self.out_types.append(s[3])
                self.outlen += len(self.out[-1])
                if self.outlen > 20000:
                    raise OutOfFuel()
            elif k == "call":
                r = self.call(s[2], s[3], sc)
                if s[1] is not None:
                    self.write_lv(s[1], sc, r)
            elif k == "if":
                self.run(s[2] if self.ev(s[1], sc) != 0 else s[3], sc)
            elif k == "for":
                for el in self.ev(s[3], sc):
                    # loop variable shadows; other names resolve outwards
                    ch = Chain(sc)
                    ch.declare(s[2], el)
                    self.run(s[4], ch)
            else:
                raise ValueError(s)


class Chain(dict):
    """block scope: own names first, then the enclosing scope (writes go to whoever owns the name)"""
    def __init__(self, parent):
        super().__init__()
        self.parent = parent

    def __contains__(self, k):
        return dict.__contains__(self, k) or k in self.parent

    def __getitem__(self, k):
        if dict.__contains__(self, k):
            return dict.__getitem__(self, k)
        return self.parent[k]

    def __setitem__(self, k, v):
        if dict.__contains__(self, k) or k not in self.parent:
            dict.__setitem__(self, k, v)
        else:
            self.parent[k] = v

    def declare(self, k, v):
        dict.__setitem__(self, k, v)


def annotate_prints(prog):
    """give every print statement its static type (ZL and TL values can both be empty tuples)"""
    def go(ss, vt):
        out = []
        for s in ss:
            if s[0] == "decl":
                vt[s[2]] = s[1]
                out.append(s)
            elif s[0] == "print":
                out.append(("print", s[1], s[2], ex_type(s[1], vt)))
            elif s[0] == "if":
                out.append(("if", s[1], go(s[2], dict(vt)), go(s[3], dict(vt))))
            elif s[0] == "for":
                vt2 = dict(vt)
                vt2[s[2]] = s[1]
                out.append(("for", s[1], s[2], s[3], go(s[4], vt2)))
            else:
                out.append(s)
        return out
    vt = {}
    g = go(prog["globals"], vt)
    funs = []
    for f in prog["funs"]:
        fvt = dict(vt)
        for p in f["params"]:
            fvt[p[0]] = p[1]
        f2 = dict(f)
        f2["body"] = go(f["body"], fvt)
        funs.append(f2)
    return dict(globals=g, funs=funs, main=go(prog["main"], vt))


def reference(prog):
    """('ok', stdout, shapes, print-types) | ('err', stdout-so-far, shapes, print-types) | ('fuel',)"""
    if "raw" in prog:
        return ("ok", prog["expected"], set(), [])
    p = annotate_prints(prog)
    it = Interp(p)
    try:
        it.run(p["globals"], it.globals)
        it.run(p["main"], it.globals)
        return ("ok", "".join(it.out), it.shapes, it.out_types)
    except RuntimeErr:
        return ("err", "".join(it.out), it.shapes, it.out_types)
    except OutOfFuel:
        return ("fuel",)


# ------------------------------------------------------------------------------------------------
# the Coq model's fragment: T and ZL only, plain variables as lvalues
# ------------------------------------------------------------------------------------------------
class NotInFragment(Exception):
    pass


def expr_vars(e):
    if not isinstance(e, tuple) or not e:
        return []
    if e[0] == "var":
        return [e[1]]
    out = []
    for x in e[1:]:
        out += expr_vars(x)
    return out


def declared_names(ss):
    out = []
    for s in ss:
        if s[0] == "decl":
            out.append(s[2])
        elif s[0] == "if":
            out += declared_names(s[2]) + declared_names(s[3])
        elif s[0] == "for":
            out += [s[2]] + declared_names(s[4])
    return out


def model_render(line, types):
    """one result of the model driver ('OK i:5 s:1,2' | 'ER class') -> ('ok', stdout) | ('er', class) | ('shape',) when
    the number/kind of outputs does not fit the print types of the reference run"""
    line = line.strip()
    if line.startswith("ER"):
        return ("er", line.split()[1])
    items = line.split()[1:]
    if len(items) > len(types):
        return ("shape",)
    out = []
    for it, ty in zip(items, types):
        kind, _, body = it.partition(":")
        if kind == "i":
            if ty == "Z":
                out.append("%d|" % int(body))
            elif ty == "B":
                out.append(chr(int(body)) + "|")
            else:
                return ("shape",)
        else:
            zs = [int(x) for x in body.split(",")] if body else []
            if ty == "T":
                out.append("".join(chr(z) for z in zs) + "|")
            elif ty == "ZL":
                out.append("[" + "".join("%d " % z for z in zs) + "]|")
            else:
                return ("shape",)
    return ("ok", "".join(out), len(items))


def to_model(prog):
    """one line for extract/_build/c08 (prefix notation), or None when outside the model's fragment"""
    if "raw" in prog:
        return None
    names = {}

    def nm(x):
        if x not in names:
            names[x] = len(names)
        return str(names[x])

    def var(lv):
        if lv[0] != "var":
            raise NotInFragment()
        return nm(lv[1])

    def ex(e):
        k = e[0]
        if k == "int":
            return "i %d" % e[1]
        if k == "chr":
            return "i %d" % ord(e[1])
        if k == "lit":
            if e[1] == "T":
                return "l %d %s" % (len(e[2]), " ".join(str(ord(c)) for c in e[2]))
            if e[1] == "ZL":
                return "l %d %s" % (len(e[2]), " ".join(str(z) for z in e[2]))
            raise NotInFragment()
        if k == "lv":
            return "v " + var(e[1])
        if k == "cat":
            return "c %s %s" % (ex(e[1]), ex(e[2]))
        if k == "idx":
            return "x %s %s" % (ex(e[1]), ex(e[2]))
        if k == "len":
            return "n " + ex(e[1])
        raise NotInFragment()

    def stmts(ss, vt, params=()):
        out = ["%d" % len(ss)]
        for s in ss:
            k = s[0]
            if k == "decl":
                if s[1] not in ("Z", "B", "T", "ZL"):
                    raise NotInFragment()
                vt[s[2]] = s[1]
                out.append("D %s %s" % (nm(s[2]), ex(s[3])))
            elif k == "asg" and s[1][0] == "el" and s[1][1][0] == "var" and vt.get(s[1][1][1]) == "ZL":
                out.append("I %s %s %s" % (var(s[1][1]), ex(s[1][2]), ex(s[2])))
            elif k == "asg":
                out.append("A %s %s" % (var(s[1]), ex(s[2])))
            elif k == "chr_asg":
                out.append("I %s %s %s" % (var(s[1]), ex(s[2]), ex(s[3])))
            elif k == "print":
                # showing a parameter directly hands it to an extern function: the annotator then gives up on it,
                # which the model's print does not express
                if s[2] != "wrapped" and set(expr_vars(s[1])) & set(params):
                    raise NotInFragment()
                if ex_type(s[1], vt) not in ("Z", "B", "T", "ZL"):
                    raise NotInFragment()
                out.append("W " + ex(s[1]))
            elif k == "call":
                args = " ".join(("V " + ex(a[1])) if a[0] == "val" else ("X " + var(a[1])) for a in s[3])
                out.append("C %s %s %d %s" % ("0" if s[1] is None else "1 " + var(s[1]), fidx[s[2]], len(s[3]), args))
            elif k == "if":
                out.append("Y %s %s %s" % (ex(s[1]), stmts(s[2], dict(vt), params), stmts(s[3], dict(vt), params)))
            elif k == "for":
                if s[1] not in ("Z", "B"):
                    raise NotInFragment()
                vt2 = dict(vt)
                vt2[s[2]] = s[1]
                out.append("R %s %s %s" % (nm(s[2]), ex(s[3]), stmts(s[4], vt2, params)))
            else:
                raise NotInFragment()
        return " ".join(out)

    fidx = {f["name"]: str(i) for i, f in enumerate(prog["funs"])}
    try:
        vt = {}
        g = ["%d" % len(prog["globals"])]
        for s in prog["globals"]:
            if s[1] not in ("Z", "T", "ZL"):
                raise NotInFragment()
            vt[s[2]] = s[1]
            g.append("%s %s" % (nm(s[2]), ex(s[3])))
        fs = ["%d" % len(prog["funs"])]
        for f in prog["funs"]:
            fvt = dict(vt)
            ps = []
            for (pn, pt, isref) in f["params"]:
                if pt not in ("Z", "T", "ZL"):
                    raise NotInFragment()
                fvt[pn] = pt
                ps.append("%s %d" % (nm(pn), 1 if isref else 0))
            body = stmts(f["body"], fvt, [pp[0] for pp in f["params"]])
            if f["ret"] is None:
                r = "0"
            else:
                if f["ret"][0] not in ("Z", "T", "ZL"):
                    raise NotInFragment()
                # the model evaluates the returned expression over parameters and globals only
                if set(expr_vars(f["ret"][1])) & set(declared_names(f["body"])):
                    raise NotInFragment()
                r = "1 " + ex(f["ret"][1])
            fs.append("F %d %s %s %s" % (len(ps), " ".join(ps), body, r))
        m = stmts(prog["main"], vt)
        return "P %s %s %s" % (" ".join(g), " ".join(fs), m)
    except NotInFragment:
        return None


# ------------------------------------------------------------------------------------------------
# generators
# ------------------------------------------------------------------------------------------------
def V(x):
    return ("lv", ("var", x))


def rnd_val(rng, ty, big=False):
    if ty == "Z":
        return rng.randint(0, 99)
    if ty == "B":
        return rng.choice("abcxyzuvw")
    if ty == "T":
        n = rng.choice([0, 1, 3, 5, 20]) if not big else rng.choice([12, 20, 33])
        # ASCII only: replacing a multi-byte Buchstabe by a shorter one is a defect of another property (C12/C01)
        return "".join(rng.choice("abcdefghijkxyz ") for _ in range(n)).strip() or ("t" if n else "")
    if ty == "ZL":
        n = rng.choice([0, 1, 3, 4, 9]) if not big else rng.choice([5, 9, 17])
        return tuple(rng.randint(0, 99) for _ in range(n))
    if ty == "TL":
        n = rng.choice([0, 1, 2, 3]) if not big else rng.choice([3, 4])
        return tuple(rnd_val(rng, "T", big) for _ in range(n))
    if ty == "D":
        return (rnd_val(rng, "T", big), rnd_val(rng, "ZL", big), rng.randint(0, 9))
    raise ValueError(ty)


def lit(ty, v):
    if ty == "Z":
        return ("int", v)
    if ty == "B":
        return ("chr", v)
    if ty == "D":
        return ("mk", ("lit", "T", v[0]), ("lit", "ZL", v[1]), ("int", v[2]))
    return ("lit", ty, v)


FRESH = {"T": "neu", "ZL": (7, 7), "TL": ("n1", "n2"), "D": ("nd", (5,), 1)}
EXTRA = {"T": ("lit", "T", "+X"), "ZL": ("int", 55), "TL": ("lit", "T", "zz"), "D": None}

# the five mutation forms, applied to an lvalue of type ty
MUTATIONS = ("assign", "index", "field", "compound", "refcall")
# the copy-introducing constructs
CONSTRUCTS = ("init", "assign", "valuearg", "listelem", "field", "foreach", "return")


def mutation_stmts(ty, lv, form, helper_funs):
    """statements that change the holder lv (of type ty) through `form`; may add helper functions. None if n/a."""
    if form == "assign":
        return [("asg", lv, lit(ty, FRESH[ty]))]
    if form == "index":
        if ty == "T":
            return [("chr_asg", lv, ("int", 1), ("chr", "Q"))]
        if ty == "ZL":
            return [("asg", ("el", lv, ("int", 1)), ("int", 42))]
        if ty == "TL":
            return [("asg", ("el", lv, ("int", 1)), ("lit", "T", "ersetzt"))]
        if ty == "D":
            if lv[0] != "var":
                return None
            return [("asg", ("el", ("fld", lv, "werte"), ("int", 1)), ("int", 42))]
    if form == "field":
        if ty != "D" or lv[0] != "var":
            return None
        return [("asg", ("fld", lv, "name"), ("lit", "T", "feld"))]
    if form == "compound":
        if ty == "D":
            if lv[0] != "var":
                return None
            f = ("fld", lv, "werte")
            return [("asg", f, ("cat", ("lv", f), ("int", 55)))]
        return [("asg", lv, ("cat", ("lv", lv), EXTRA[ty]))]
    if form == "refcall":
        name = "aendere" + ty
        if name not in helper_funs:
            body = mutation_stmts(ty, ("var", "r"), "compound", helper_funs) + mutation_stmts(ty, ("var", "r"), "index", helper_funs)
            helper_funs[name] = dict(name=name, params=[("r", ty, True)], body=body, ret=None)
        return [("call", None, name, [("ref", lv)])]
    raise ValueError(form)


def nonempty(ty, v):
    """values used by the matrix must admit an index-1 mutation"""
    if ty == "D":
        return (v[0] or "d", v[1] or (3,), v[2])
    if ty == "TL":
        return v or ("e1",)
    if ty == "ZL":
        return v or (1,)
    return v or "t"


def matrix_program(rng, ty, construct, mutation, who):
    """two holders A and B of one value of type ty, B made from A by `construct`; then the holder `who` ('A'|'B') is
    mutated by `mutation`; both are shown before and after. Returns prog or None when the combination does not exist."""
    v = nonempty(ty, rnd_val(rng, ty, big=rng.random() < 0.5))
    helpers = {}
    g = [("decl", ty, "A", lit(ty, v))]
    main = []
    A = ("var", "A")
    B = ("var", "B")
    showB = [("print", ("lv", B), "direct")]
    if construct == "init":
        main.append(("decl", ty, "B", ("lv", A)))
    elif construct == "assign":
        main.append(("decl", ty, "B", lit(ty, default(ty) if ty != "D" else ("", (), 0))))
        main.append(("asg", B, ("lv", A)))
    elif construct == "valuearg":
        # B is the callee's parameter: the mutation happens inside the callee (who == 'B') or to the global A while the
        # callee holds its parameter (who == 'A')
        body = []
        tgt = ("var", "B") if who == "B" else ("var", "A")
        m = mutation_stmts(ty, tgt, mutation, helpers)
        if m is None:
            return None
        body += [("print", ("lv", ("var", "B")), "wrapped")] + m + [("print", ("lv", ("var", "B")), "wrapped"), ("print", ("lv", ("var", "A")), "wrapped")]
        f = dict(name="halte", params=[("B", ty, False)], body=body, ret=None)
        prog = dict(globals=g, funs=list(helpers.values()) + [f], main=[("print", ("lv", A), "direct"), ("call", None, "halte", [("val", ("lv", A))]), ("print", ("lv", A), "direct")])
        return prog
    elif construct == "listelem":
        if ty != "T":
            return None
        main.append(("decl", "TL", "L", ("lit", "TL", ("x", "y"))))
        main.append(("asg", ("el", ("var", "L"), ("int", 2)), ("lv", A)))
        B = ("el", ("var", "L"), ("int", 2))
        showB = [("print", ("lv", ("var", "L")), "direct")]
    elif construct == "field":
        if ty not in ("T", "ZL"):
            return None
        main.append(("decl", "D", "K", lit("D", ("k", (1, 2), 3))))
        fld = "name" if ty == "T" else "werte"
        main.append(("asg", ("fld", ("var", "K"), fld), ("lv", A)))
        B = ("fld", ("var", "K"), fld)
        showB = [("print", ("lv", ("var", "K")), "direct")]
    elif construct == "foreach":
        # the loop variable (and the loop's own holder of the iterated value) against the iterated variable
        if ty == "TL":
            tgt = ("var", "e") if who == "B" else A
            m = mutation_stmts("T" if who == "B" else "TL", tgt, mutation, helpers)
            if m is None:
                return None
            body = m + [("print", ("lv", ("var", "e")), "direct"), ("print", ("lv", A), "direct")]
            main = [("print", ("lv", A), "direct"), ("for", "T", "e", ("lv", A), body), ("print", ("lv", A), "direct")]
        elif ty in ("T", "ZL"):
            if who == "B":
                return None   # a primitive loop variable is not a holder of a non-primitive value
            m = mutation_stmts(ty, A, mutation, helpers)
            if m is None:
                return None
            ety = ELEM[ty]
            body = m + [("print", ("lv", ("var", "e")), "direct"), ("print", ("lv", A), "direct")]
            main = [("print", ("lv", A), "direct"), ("for", ety, "e", ("lv", A), body), ("print", ("lv", A), "direct")]
        else:
            return None
        return dict(globals=g, funs=list(helpers.values()), main=main)
    elif construct == "return":
        f = dict(name="gibzurueck", params=[("p", ty, False)], body=[], ret=(ty, ("lv", ("var", "p"))))
        main.append(("decl", ty, "B", lit(ty, default(ty) if ty != "D" else ("", (), 0))))
        main.append(("call", B, "gibzurueck", [("val", ("lv", A))]))
        helpers["gibzurueck"] = f
    tgt = A if who == "A" else B
    m = mutation_stmts(ty, tgt, mutation, helpers)
    if m is None:
        return None
    main = main + [("print", ("lv", A), "direct")] + showB + m + [("print", ("lv", A), "direct")] + showB
    return dict(globals=g, funs=list(helpers.values()), main=main)


def matrix(rng, one_holder=False):
    """every (type, construct, mutation, mutated holder) combination that exists; with one_holder only one of the
    two holders (chosen at random) is mutated per cell"""
    out = []
    for ty in NONPRIM:
        for c in CONSTRUCTS:
            for m in MUTATIONS:
                cell = []
                for who in ("A", "B"):
                    p = matrix_program(rng, ty, c, m, who)
                    if p is not None:
                        cell.append((dict(kind="matrix", ty=ty, construct=c, mutation=m, who=who), p))
                if one_holder and cell:
                    cell = [rng.choice(cell)]
                out += cell
    return out


# ---- aliasing shapes ------------------------------------------------------------------------------
def observe(ty, x, style="wrapped"):
    return ("print", ("lv", ("var", x)), style)


def shape_programs(rng):
    """the shapes the property text names, over every non-primitive type and mutation form"""
    out = []
    for ty in NONPRIM:
        for mut in MUTATIONS:
            v = nonempty(ty, rnd_val(rng, ty, big=True))
            # (1) same variable by value and by Referenz; the callee mutates through the Referenz and reads the value parameter
            helpers = {}
            m = mutation_stmts(ty, ("var", "r"), mut, helpers)
            if m is not None:
                f = dict(name="beides", params=[("p", ty, False), ("r", ty, True)], body=[observe(ty, "p")] + m + [observe(ty, "p"), observe(ty, "r")], ret=None)
                prog = dict(globals=[("decl", ty, "A", lit(ty, v))], funs=list(helpers.values()) + [f],
                            main=[("call", None, "beides", [("val", V("A")), ("ref", ("var", "A"))]), ("print", V("A"), "direct")])
                out.append((dict(kind="shape", shape="value+Referenz same variable", ty=ty, mutation=mut), prog))
                # control: different variables
                prog2 = dict(globals=[("decl", ty, "A", lit(ty, v)), ("decl", ty, "C", lit(ty, v))], funs=list(helpers.values()) + [f],
                             main=[("call", None, "beides", [("val", V("A")), ("ref", ("var", "C"))]), ("print", V("A"), "direct"), ("print", V("C"), "direct")])
                out.append((dict(kind="shape", shape="value+Referenz different variables", ty=ty, mutation=mut), prog2))
            # (2) a global received by value and written by the callee
            helpers = {}
            m = mutation_stmts(ty, ("var", "A"), mut, helpers)
            if m is not None:
                f = dict(name="globalzugriff", params=[("p", ty, False)], body=[observe(ty, "p")] + m + [observe(ty, "p"), observe(ty, "A")], ret=None)
                prog = dict(globals=[("decl", ty, "A", lit(ty, v))], funs=list(helpers.values()) + [f],
                            main=[("call", None, "globalzugriff", [("val", V("A"))]), ("print", V("A"), "direct")])
                out.append((dict(kind="shape", shape="global by value, written by callee", ty=ty, mutation=mut), prog))
            # (3) same variable twice by Referenz
            helpers = {}
            m = mutation_stmts(ty, ("var", "r"), mut, helpers)
            if m is not None:
                f = dict(name="zweimal", params=[("r", ty, True), ("s", ty, True)], body=m + [observe(ty, "s"), observe(ty, "r")], ret=None)
                prog = dict(globals=[("decl", ty, "A", lit(ty, v))], funs=list(helpers.values()) + [f],
                            main=[("call", None, "zweimal", [("ref", ("var", "A")), ("ref", ("var", "A"))]), ("print", V("A"), "direct")])
                out.append((dict(kind="shape", shape="same variable twice by Referenz", ty=ty, mutation=mut), prog))
            # (4) a global by Referenz, the callee also touches the global directly
            helpers = {}
            m = mutation_stmts(ty, ("var", "r"), mut, helpers)
            m2 = mutation_stmts(ty, ("var", "A"), "compound", helpers)
            if m is not None and m2 is not None:
                f = dict(name="globalref", params=[("r", ty, True)], body=m + [observe(ty, "A")] + m2 + [observe(ty, "r")], ret=None)
                prog = dict(globals=[("decl", ty, "A", lit(ty, v))], funs=list(helpers.values()) + [f],
                            main=[("call", None, "globalref", [("ref", ("var", "A"))]), ("print", V("A"), "direct")])
                out.append((dict(kind="shape", shape="global by Referenz and directly", ty=ty, mutation=mut), prog))
        v = nonempty(ty, rnd_val(rng, ty, big=True))
        # (5) copying one alias into the other
        f = dict(name="kopiere", params=[("a", ty, True), ("b", ty, True)], body=[("asg", ("var", "b"), V("a"))], ret=None)
        prog = dict(globals=[("decl", ty, "A", lit(ty, v))], funs=[f],
                    main=[("call", None, "kopiere", [("ref", ("var", "A")), ("ref", ("var", "A"))]), ("print", V("A"), "direct")])
        out.append((dict(kind="shape", shape="Referenz aliases copied into each other", ty=ty, mutation="assign"), prog))
        prog = dict(globals=[("decl", ty, "A", lit(ty, v))], funs=[], main=[("asg", ("var", "A"), V("A")), ("print", V("A"), "direct")])
        out.append((dict(kind="shape", shape="plain self assignment", ty=ty, mutation="assign"), prog))
        # (6) a value parameter handed on by Referenz in a recursive call that is written later in the body
        helpers = {}
        m = mutation_stmts(ty, ("var", "r"), "assign", helpers)
        f = dict(name="selbstruf", params=[("p", ty, False), ("r", ty, True), ("n", "Z", False)],
                 body=[("if", V("n"), [("decl", ty, "lokal", lit(ty, FRESH[ty])), ("call", None, "selbstruf", [("val", V("lokal")), ("ref", ("var", "p")), ("val", ("sub", V("n"), ("int", 1)))])], [])] + m, ret=None)
        prog = dict(globals=[("decl", ty, "A", lit(ty, v)), ("decl", ty, "C", lit(ty, v))], funs=[f],
                    main=[("call", None, "selbstruf", [("val", V("A")), ("ref", ("var", "C")), ("val", ("int", 1))]), ("print", V("A"), "direct"), ("print", V("C"), "direct")])
        out.append((dict(kind="shape", shape="value parameter passed on by Referenz in a recursive call", ty=ty, mutation="assign"), prog))
    # (7) a part of the variable by Referenz, the whole by value
    f = dict(name="teil", params=[("p", "D", False), ("r", "ZL", True)],
             body=[observe("D", "p"), ("asg", ("var", "r"), ("cat", V("r"), ("int", 7))), ("asg", ("el", ("var", "r"), ("int", 1)), ("int", 9)), observe("D", "p")], ret=None)
    prog = dict(globals=[("decl", "D", "A", lit("D", ("satz", (1, 2, 3, 4, 5, 6, 7, 8), 2)))], funs=[f],
                main=[("call", None, "teil", [("val", V("A")), ("ref", ("fld", ("var", "A"), "werte"))]), ("print", V("A"), "direct")])
    out.append((dict(kind="shape", shape="value+Referenz same variable", ty="D", mutation="field-part"), prog))
    f = dict(name="element", params=[("p", "TL", False), ("r", "T", True)],
             body=[observe("TL", "p"), ("asg", ("var", "r"), ("cat", V("r"), ("lit", "T", "-angehängt-und-lang-genug"))), observe("TL", "p")], ret=None)
    prog = dict(globals=[("decl", "TL", "A", lit("TL", ("erstes element", "zweites element")))], funs=[f],
                main=[("call", None, "element", [("val", V("A")), ("ref", ("el", ("var", "A"), ("int", 1)))]), ("print", V("A"), "direct")])
    out.append((dict(kind="shape", shape="value+Referenz same variable", ty="TL", mutation="element-part"), prog))
    # (9) for-each over a GLOBAL while a callee (not the loop body itself) changes the global: the loop walks over the
    #     value the global had when the loop started; directly and through a Referenz parameter bound to the global
    for ty, ety, newel in (("TL", "T", ("lit", "T", "X")), ("ZL", "Z", ("int", 77)), ("T", "B", ("chr", "Z"))):
        v = {"TL": ("a", "b", "c", "d"), "ZL": (1, 2, 3, 4), "T": "abcd"}[ty]
        for pos in (2, 4):
            tgt = ("var", "A")
            mark = dict(name="markiere", params=[("i", "Z", False)],
                        body=[("chr_asg", tgt, V("i"), newel) if ty == "T" else ("asg", ("el", tgt, V("i")), newel)], ret=None)
            loop = ("for", ety, "e", V("A"), [("call", None, "markiere", [("val", ("int", pos))]), ("print", V("e"), "direct")])
            prog = dict(globals=[("decl", ty, "A", lit(ty, v))], funs=[mark], main=[loop, ("print", V("A"), "direct")])
            out.append((dict(kind="shape", shape="for-each over a global changed by a callee", ty=ty, mutation="index %d" % pos), prog))
            loop2 = ("for", ety, "e", V("l"), [("call", None, "markiere", [("val", ("int", pos))]), ("print", V("e"), "wrapped" if ety == "T" else "direct")])
            zeige = dict(name="laufe", params=[("l", ty, True)], body=[loop2], ret=None)
            prog = dict(globals=[("decl", ty, "A", lit(ty, v))], funs=[mark, zeige],
                        main=[("call", None, "laufe", [("ref", ("var", "A"))]), ("print", V("A"), "direct")])
            out.append((dict(kind="shape", shape="for-each over a Referenz to a global changed by a callee", ty=ty, mutation="index %d" % pos), prog))
        # the callee replaces / grows the whole global while it is iterated
        grow = dict(name="wachse2", params=[("i", "Z", False)], body=[("asg", ("var", "A"), ("cat", V("A"), V("A")))], ret=None)
        loop = ("for", ety, "e", V("A"), [("call", None, "wachse2", [("val", ("int", 1))]), ("print", V("e"), "direct")])
        prog = dict(globals=[("decl", ty, "A", lit(ty, v))], funs=[grow], main=[loop, ("print", V("A"), "direct")])
        out.append((dict(kind="shape", shape="for-each over a global replaced by a callee", ty=ty, mutation="compound"), prog))
    # (8) a Referenz to a part of a variable while the callee replaces / grows the container
    f = dict(name="ersetze", params=[("r", "T", True)],
             body=[("asg", ("var", "A"), ("lit", "TL", ("ganz", "neue", "liste"))), ("asg", ("var", "r"), ("lit", "T", "in das element geschrieben"))], ret=None)
    prog = dict(globals=[("decl", "TL", "A", lit("TL", ("erstes element", "zweites element")))], funs=[f],
                main=[("call", None, "ersetze", [("ref", ("el", ("var", "A"), ("int", 2)))]), ("print", V("A"), "direct")])
    out.append((dict(kind="shape", shape="Referenz to a part, container replaced", ty="TL", mutation="assign"), prog))
    f = dict(name="wachse", params=[("r", "T", True), ("l", "TL", True)],
             body=[("asg", ("var", "l"), ("cat", V("l"), ("lit", "TL", ("noch eins", "und noch eins", "und ein drittes")))), ("asg", ("var", "r"), ("lit", "T", "in das element geschrieben"))], ret=None)
    prog = dict(globals=[("decl", "TL", "A", lit("TL", ("erstes element", "zweites element")))], funs=[f],
                main=[("call", None, "wachse", [("ref", ("el", ("var", "A"), ("int", 1))), ("ref", ("var", "A"))]), ("print", V("A"), "direct")])
    out.append((dict(kind="shape", shape="Referenz to a part, container replaced", ty="TL", mutation="compound"), prog))
    return out


# ---- random programs -------------------------------------------------------------------------------
class RandGen:
    def __init__(self, rng, model_only=False):
        self.rng = rng
        self.model_only = model_only
        self.types = ("T", "ZL") if model_only else NONPRIM
        self.n = 0

    def fresh(self, pfx):
        self.n += 1
        return "%s%d" % (pfx, self.n)

    def pick_var(self, vt, ty, pool=None):
        c = [x for x in (pool if pool is not None else vt) if vt.get(x) == ty]
        return self.rng.choice(c) if c else None

    def expr(self, vt, ty, depth=0, temp_ok=True):
        """an expression of type ty over the variables vt"""
        r = self.rng
        x = self.pick_var(vt, ty)
        if ty == "Z":
            ch = r.random()
            if x and ch < 0.4:
                return V(x)
            s = self.pick_var(vt, r.choice(["T", "ZL"]))
            if s and ch < 0.7:
                return ("len", V(s))
            return ("int", r.randint(0, 9))
        if x and (r.random() < 0.6 or depth > 1 or not temp_ok):
            return V(x)
        if r.random() < 0.5 or depth > 1:
            return lit(ty, rnd_val(r, ty, big=r.random() < 0.4))
        if ty == "D":
            return ("mk", self.expr(vt, "T", depth + 1), self.expr(vt, "ZL", depth + 1), ("int", r.randint(0, 9)))
        if ty == "TL":
            return ("cat", self.expr(vt, "TL", depth + 1), self.expr(vt, r.choice(["T", "TL"]), depth + 1))
        if ty == "ZL":
            return ("cat", self.expr(vt, "ZL", depth + 1), self.expr(vt, r.choice(["Z", "ZL"]), depth + 1))
        return ("cat", self.expr(vt, "T", depth + 1), self.expr(vt, "T", depth + 1))

    def lvalue(self, vt, ty, writable):
        """an lvalue of type ty rooted at a variable of `writable`"""
        r = self.rng
        c = []
        for x in writable:
            t = vt.get(x)
            if t == ty:
                c += [("var", x)] * 3
            if self.model_only:
                continue
            if t == "TL" and ty == "T":
                c.append(("el", ("var", x), ("int", r.randint(1, 2))))
            if t == "ZL" and ty == "Z":
                c.append(("el", ("var", x), ("int", r.randint(1, 3))))
            if t == "D" and ty in ("T", "ZL", "Z"):
                c.append(("fld", ("var", x), {"T": "name", "ZL": "werte", "Z": "anzahl"}[ty]))
        return r.choice(c) if c else None

    def mutate(self, vt, writable, funs):
        """one mutation statement on something rooted in `writable`"""
        r = self.rng
        for _ in range(8):
            ty = r.choice(self.types)
            lv = self.lvalue(vt, ty, writable)
            if lv is None:
                continue
            form = r.choice(["assign", "assign", "index", "compound", "field", "refcall"])
            if form == "assign":
                e = self.expr(vt, ty)
                if e == ("lv", lv) and r.random() < 0.95:
                    e = lit(ty, rnd_val(r, ty))
                return [("asg", lv, e)]
            if form == "index":
                i = ("int", r.randint(1, 2))
                if ty == "T":
                    return [("chr_asg", lv, i, ("chr", r.choice("QRS")))]
                if ty == "ZL":
                    return [("asg", ("el", lv, i), self.expr(vt, "Z"))] if not self.model_only else [("chr_asg", lv, i, self.expr(vt, "Z"))]
                if ty == "TL" and lv[0] == "var":
                    return [("asg", ("el", lv, i), self.expr(vt, "T"))]
                continue
            if form == "compound":
                if ty == "D":
                    continue
                return [("asg", lv, ("cat", ("lv", lv), self.expr(vt, ty if r.random() < 0.5 or ty == "T" else ELEM[ty])))]
            if form == "field":
                if ty == "D" and lv[0] == "var":
                    return [("asg", ("fld", lv, "name"), self.expr(vt, "T"))]
                continue
            if form == "refcall":
                cands = [f for f in funs if any(p[2] and p[1] == ty for p in f["params"])]
                if not cands:
                    continue
                f = r.choice(cands)
                c = self.call(vt, writable, f, force_ref=(ty, lv))
                if c:
                    return [c]
        return []

    def call(self, vt, writable, f, force_ref=None, bias_alias=0.5, dst_ok=True):
        r = self.rng
        args = []
        used_roots = []
        forced = False
        for (pn, pt, isref) in f["params"]:
            if isref:
                if force_ref and not forced and force_ref[0] == pt:
                    lv = force_ref[1]
                    forced = True
                else:
                    lv = None
                    if used_roots and r.random() < bias_alias:
                        same = [x for x in used_roots if x in writable]
                        if same:
                            lv = self.lvalue(vt, pt, [r.choice(same)])
                    if lv is None:
                        lv = self.lvalue(vt, pt, writable)
                if lv is None:
                    return None
                args.append(("ref", lv))
                used_roots.append(lv_root(lv))
            else:
                e = None
                if pt in NONPRIM and used_roots and r.random() < bias_alias:
                    x = r.choice(used_roots)
                    if vt.get(x) == pt:
                        e = V(x)
                if e is None:
                    e = self.expr(vt, pt)
                args.append(("val", e))
                if e[0] == "lv":
                    used_roots.append(lv_root(e[1]))
        dst = None
        if f["ret"] is not None and dst_ok:
            dst = self.lvalue(vt, f["ret"][0], writable)
            if dst is not None and self.model_only and dst[0] != "var":
                dst = None
        if f["ret"] is not None and dst is None:
            return ("call", None, f["name"], args)
        return ("call", dst, f["name"], args)

    def function(self, gvt, funs, idx):
        r = self.rng
        name = "fn%d" % idx
        nparams = r.choice([1, 2, 2, 3])
        params = []
        for i in range(nparams):
            ty = r.choice(self.types + ("Z",)) if i else r.choice(self.types)
            params.append(("p%d%s" % (idx, "abc"[i]), ty, r.random() < 0.45))
        # make a value and a Referenz parameter of one type likely
        if nparams >= 2 and r.random() < 0.6:
            ty = params[0][1]
            params[0] = (params[0][0], ty, False)
            params[1] = (params[1][0], ty, True)
        vt = dict(gvt)
        for p in params:
            vt[p[0]] = p[1]
        body = []
        refs = [p[0] for p in params if p[2]]
        vals = [p[0] for p in params if not p[2]]
        glob = list(gvt)
        local = []
        style = "wrapped"
        nst = r.randint(2, 6)
        for _ in range(nst):
            ch = r.random()
            if ch < 0.35:
                # write through a Referenz parameter, a global, a local, rarely an own value parameter
                pool = refs * 3 + glob * 2 + local + (vals if r.random() < 0.25 else [])
                if pool:
                    body += self.mutate(vt, [r.choice(pool)], funs)
            elif ch < 0.6:
                x = r.choice(vals + refs + glob + local)
                if vt[x] in NONPRIM or not self.model_only:
                    body.append(("print", V(x), style if (self.model_only or r.random() < 0.8) else "direct"))
            elif ch < 0.75:
                ty = r.choice(self.types)
                x = self.fresh("lok")
                body.append(("decl", ty, x, self.expr(vt, ty)))
                vt[x] = ty
                local.append(x)
            elif ch < 0.9 and funs:
                f = r.choice(funs)
                c = self.call(vt, refs + glob + local + vals, f)
                if c:
                    body.append(c)
            else:
                s = self.pick_var(vt, r.choice(["T", "ZL"] if self.model_only else ["T", "ZL", "TL"]))
                if s:
                    ety = ELEM[vt[s]]
                    lvn = self.fresh("el")
                    vt2 = dict(vt)
                    vt2[lvn] = ety
                    inner = self.mutate(vt2, refs + glob + local, funs) + [("print", V(lvn), "wrapped" if self.model_only else "direct")]
                    body.append(("for", ety, lvn, V(s), inner))
        ret = None
        if r.random() < 0.4:
            ty = r.choice(self.types)
            ret = (ty, self.expr(vt, ty))
        return dict(name=name, params=params, body=body, ret=ret)

    def program(self):
        r = self.rng
        self.n = 0
        gvt = {}
        g = []
        for i in range(r.randint(2, 4)):
            ty = r.choice(self.types)
            x = "g%d" % i
            g.append(("decl", ty, x, lit(ty, nonempty(ty, rnd_val(r, ty, big=r.random() < 0.6)))))
            gvt[x] = ty
        funs = []
        for i in range(r.randint(1, 3)):
            funs.append(self.function(gvt, funs, i))
        vt = dict(gvt)
        main = []
        names = list(gvt)
        for _ in range(r.randint(3, 8)):
            ch = r.random()
            if ch < 0.2:
                ty = r.choice(self.types)
                x = self.fresh("m")
                main.append(("decl", ty, x, self.expr(vt, ty)))
                vt[x] = ty
                names.append(x)
            elif ch < 0.4:
                main += self.mutate(vt, names, funs)
            else:
                c = self.call(vt, names, r.choice(funs), bias_alias=0.6)
                if c:
                    main.append(c)
            if r.random() < 0.6:
                x = r.choice(names)
                main.append(("print", V(x), "wrapped" if self.model_only else "direct"))
        for x in names:
            main.append(("print", V(x), "wrapped" if self.model_only else "direct"))
        return dict(globals=g, funs=funs, main=main)


def _map_prog(prog, fbody=None, fstmt=None):
    def go(ss, vt):
        out = []
        for s in ss:
            if s[0] == "decl":
                vt[s[2]] = s[1]
            if s[0] == "if":
                s = ("if", s[1], go(s[2], dict(vt)), go(s[3], dict(vt)))
            elif s[0] == "for":
                vt2 = dict(vt)
                vt2[s[2]] = s[1]
                s = ("for", s[1], s[2], s[3], go(s[4], vt2))
            out.append(fstmt(s, vt) if fstmt else s)
        return out
    vt = {}
    g = go(prog["globals"], vt)
    funs = []
    for f in prog["funs"]:
        fvt = dict(vt)
        for p in f["params"]:
            fvt[p[0]] = p[1]
        f2 = dict(f)
        f2["body"] = go(f["body"], fvt)
        if fbody:
            f2["body"] = fbody(f2) + f2["body"]
        funs.append(f2)
    return dict(globals=g, funs=funs, main=go(prog["main"], vt))


def neutral_write(ty, x):
    """a statement that writes the variable x without changing its value"""
    lv = ("var", x)
    if ty == "D":
        f = ("fld", lv, "name")
        return ("asg", f, ("cat", ("lv", f), ("lit", "T", "")))
    return ("asg", lv, ("cat", ("lv", lv), ("lit", ty, "" if ty == "T" else ())))


def deelide(prog):
    """the same program, but every non-primitive value parameter is written once (with its own value) at the start of
    its function: by value semantics the output is unchanged; the compiler's constant-parameter analysis then judges
    no such parameter constant, so no parameter copy is elided at -O 2"""
    return _map_prog(prog, fbody=lambda f: [neutral_write(pt, pn) for (pn, pt, isref) in f["params"] if not isref and pt in NONPRIM])


def detemp(prog):
    """the same program, but every assignment whose right side is a bare variable/element/field assigns a temporary
    with the same value instead"""
    def fs(s, vt):
        if s[0] == "asg" and s[2][0] == "lv":
            ty = ex_type(s[2], vt)
            if ty in ("T", "ZL", "TL"):
                return ("asg", s[1], wrap_temp(s[2], ty))
            if ty == "D":
                d = s[2][1]
                return ("asg", s[1], ("mk", ("lv", ("fld", d, "name")), ("lv", ("fld", d, "werte")), ("lv", ("fld", d, "anzahl"))))
        return s
    return _map_prog(prog, fstmt=fs)


# ---- hand-written programs for constructs the AST does not have (deeply nested Kombinationen, calls as arguments) ---
NESTED = '''Binde "Duden/Ausgabe" ein.

Wir nennen die Kombination aus
	der Zahlen Liste zahlen mit Standardwert eine Liste, die aus 1, 2, 3 besteht,
	dem Text wort mit Standardwert "abc",
einen Punkt, und erstellen sie so:
	"ein neuer Punkt"

Wir nennen die Kombination aus
	dem Punkt punkt mit Standardwert ein neuer Punkt,
eine Huelle, und erstellen sie so:
	"eine neue Huelle"

Wir nennen die Kombination aus
	der Huelle huelle mit Standardwert eine neue Huelle,
	der Zahl nr mit Standardwert 7,
eine Truhe, und erstellen sie so:
	"eine neue Truhe"

Die Funktion zeigeZ mit dem Parameter x vom Typ Zahl, gibt nichts zurück, macht:
	Schreibe x.
	Schreibe '|'.
Und kann so benutzt werden:
	"zeige <x>"

Die Funktion wandle mit dem Parameter k vom Typ Truhe, gibt eine Zahl zurück, macht:
	Speichere 55 in zahlen von punkt von huelle von k an der Stelle 2.
	Gib (zahlen von punkt von huelle von k) an der Stelle 1 zurück.
Und kann so benutzt werden:
	"wandle <k>"

Die Funktion abbild mit dem Parameter k vom Typ Truhe Referenz, gibt eine Truhe zurück, macht:
	Gib k zurück.
Und kann so benutzt werden:
	"abbild von <k>"

Die Truhe a ist eine neue Truhe.
Die Truhe b ist a.
Speichere 99 in zahlen von punkt von huelle von a an der Stelle 1.
zeige ((zahlen von punkt von huelle von a) an der Stelle 1).
zeige ((zahlen von punkt von huelle von b) an der Stelle 1).
Die Truhe c ist eine neue Truhe.
Speichere a in c.
Speichere 98 in zahlen von punkt von huelle von a an der Stelle 1.
zeige ((zahlen von punkt von huelle von c) an der Stelle 1).
Speichere 'Z' in wort von punkt von huelle von a an der Stelle 1.
Schreibe (wort von punkt von huelle von b).
Schreibe '|'.
Schreibe (wort von punkt von huelle von a).
Schreibe '|'.
zeige (wandle a).
zeige ((zahlen von punkt von huelle von a) an der Stelle 2).
Die Truhe Liste truhen ist eine Liste, die aus a besteht.
Speichere 97 in zahlen von punkt von huelle von a an der Stelle 1.
zeige ((zahlen von punkt von huelle von (truhen an der Stelle 1)) an der Stelle 1).
Die Truhe d ist (abbild von a).
Speichere 96 in zahlen von punkt von huelle von a an der Stelle 1.
zeige ((zahlen von punkt von huelle von d) an der Stelle 1).
Speichere 5 in zahlen von punkt von huelle von b an der Stelle 3.
zeige ((zahlen von punkt von huelle von a) an der Stelle 3).
zeige ((zahlen von punkt von huelle von b) an der Stelle 3).
zeige (nr von d).
'''
NESTED_EXPECTED = "99|1|99|abc|Zbc|98|2|98|97|3|5|7|"

NESTED_CALL = '''Binde "Duden/Ausgabe" ein.

Die Funktion ueberschreibe mit dem Parameter t vom Typ Text Referenz, gibt eine Zahl zurück, macht:
	Speichere "vom aufgerufenen ersetzt, lang genug" in t.
	Gib 1 zurück.
Und kann so benutzt werden:
	"ueberschreibe <t>"

Die Funktion verlaengere mit dem Parameter l vom Typ Zahlen Listen Referenz, gibt eine Zahl zurück, macht:
	Speichere l verkettet mit (eine Liste, die aus 7, 8, 9, 10, 11, 12, 13, 14, 15, 16 besteht) in l.
	Speichere 0 in l an der Stelle 1.
	Gib 2 zurück.
Und kann so benutzt werden:
	"verlaengere <l>"

Die Funktion verdopple mit dem Parameter n vom Typ Zahl, gibt eine Zahl zurück, macht:
	Gib n mal 2 zurück.
Und kann so benutzt werden:
	"verdopple <n>"

Die Funktion aussenT mit dem Parameter t vom Typ Text, gibt eine Zahl zurück, macht:
	Gib verdopple (ueberschreibe t) zurück.
Und kann so benutzt werden:
	"aussenT <t>"

Die Funktion aussenL mit dem Parameter l vom Typ Zahlen Liste, gibt eine Zahl zurück, macht:
	Gib verdopple (verdopple (verlaengere l)) zurück.
Und kann so benutzt werden:
	"aussenL <l>"

Die Funktion lauf mit dem Parameter x vom Typ Zahl, gibt nichts zurück, macht:
	Der Text lokal ist "ein lokaler Text, der lang genug ist".
	Die Zahlen Liste liste ist eine Liste, die aus 1, 2, 3 besteht.
	Die Zahl n ist aussenT lokal.
	Schreibe n.
	Schreibe '|'.
	Schreibe lokal.
	Schreibe '|'.
	Die Zahl m ist aussenL liste.
	Schreibe m.
	Schreibe '|'.
	Für jede Zahl z in liste, mache:
		Schreibe z.
		Schreibe ' '.
	Schreibe '|'.
Und kann so benutzt werden:
	"lauf <x>"

lauf 1.
'''
NESTED_CALL_EXPECTED = "2|ein lokaler Text, der lang genug ist|8|1 2 3 |"


# 'Speichere a in b' where a and b are the same storage under two names that share no syntactic root: two Referenz
# parameters bound to one variable, a Referenz parameter bound to the global the callee reads (Text and list)
ALIAS_ASSIGN = 'Binde "Duden/Ausgabe" ein.\n\nDer Text gt ist "globaler Text mit mehr als sechzehn Zeichen".\nDie Text Liste gl ist eine Liste, die aus "eins", "zwei", "drei" besteht.\n\nDie Funktion uebertrage mit den Parametern a und b vom Typ Text Referenz und Text Referenz, gibt nichts zurück, macht:\n\tSpeichere a in b.\nUnd kann so benutzt werden:\n\t"Übertrage <a> nach <b>"\n\nDie Funktion setze_text mit dem Parameter r vom Typ Text Referenz, gibt nichts zurück, macht:\n\tSpeichere gt in r.\nUnd kann so benutzt werden:\n\t"Setze <r> auf den globalen Text"\n\nDie Funktion setze_liste mit dem Parameter r vom Typ Text Listen Referenz, gibt nichts zurück, macht:\n\tSpeichere gl in r.\nUnd kann so benutzt werden:\n\t"Setze <r> auf die globale Liste"\n\nDer Text x ist "Hallo Welt, das ist ein ziemlich langer Text".\nDer Text y ist "ein anderer Text".\nÜbertrage x nach y.\nSchreibe y.\nSchreibe \'|\'.\nÜbertrage x nach x.\nDer Text z ist "ZZZZZZZZZZZZZZZZZZZZZZZZZZZZZZZZZZZZZZZZZZZZ".\nSchreibe x.\nSchreibe \'|\'.\nSchreibe z.\nSchreibe \'|\'.\nSetze gt auf den globalen Text.\nDer Text w ist "WWWWWWWWWWWWWWWWWWWWWWWWWWWWWWWWWWWWWWWWWWW".\nSchreibe gt.\nSchreibe \'|\'.\nSchreibe w.\nSchreibe \'|\'.\nSetze gl auf die globale Liste.\nDie Text Liste neu ist eine Liste, die aus "NNNN", "MMMM", "OOOO" besteht.\nSchreibe (gl an der Stelle 1).\nSchreibe \'|\'.\nSchreibe (gl an der Stelle 3).\nSchreibe \'|\'.\nSchreibe (die Länge von gl).\nSchreibe \'|\'.\n'
ALIAS_ASSIGN_EXPECTED = 'Hallo Welt, das ist ein ziemlich langer Text|Hallo Welt, das ist ein ziemlich langer Text|ZZZZZZZZZZZZZZZZZZZZZZZZZZZZZZZZZZZZZZZZZZZZ|globaler Text mit mehr als sechzehn Zeichen|WWWWWWWWWWWWWWWWWWWWWWWWWWWWWWWWWWWWWWWWWWW|eins|drei|3|'


def raw_programs():
    return [
        (dict(kind="raw", name="assignment between two names of one storage (two Referenz parameters / Referenz parameter and the global the callee reads)"),
         dict(raw=ALIAS_ASSIGN, expected=ALIAS_ASSIGN_EXPECTED, name="assignment between two names of one storage")),
        (dict(kind="raw", name="Kombination nested three levels deep: copies of the outermost value, then in-place changes"),
         dict(raw=NESTED, expected=NESTED_EXPECTED, name="Kombination nested three levels deep")),
        (dict(kind="raw", name="value parameter handed on by Referenz inside the argument of another call"),
         dict(raw=NESTED_CALL, expected=NESTED_CALL_EXPECTED, name="value parameter handed on by Referenz inside a nested call")),
    ]


# ---- value parameters of generic / monomorphic callees, in the same / an imported module, called directly / from inside
# ---- another (generic) function; the caller always passes a LOCAL variable (only those are lent at -O 2) -------------
GP_TYPES = {
    "ZL": dict(mono=("Zahlen Liste", "Zahlen Listen Referenz", "Zahl", "eine Zahlen Liste"), gen=("T Liste", "T Listen Referenz", "T", "eine T Liste"),
               decl="Die Zahlen Liste", lit="eine Liste, die aus 1, 2, 3 besteht", x="9", val=[1, 2, 3], xv=9),
    "TL": dict(mono=("Text Liste", "Text Listen Referenz", "Text", "eine Text Liste"), gen=("T Liste", "T Listen Referenz", "T", "eine T Liste"),
               decl="Die Text Liste", lit='eine Liste, die aus "a", "b", "c" besteht', x='"X"', val=["a", "b", "c"], xv="X"),
    "TX": dict(mono=("Text", "Text Referenz", "Text", "einen Text"), gen=("T", "T Referenz", "T", "ein T"),
               decl="Der Text", lit='"abc"', x='"X"', val="abc", xv="X"),
    "KP": dict(mono=("ZPaar", "ZPaar Referenz", "Zahl", "ein ZPaar"), gen=("T-Paar", "T-Paar Referenz", "T", "ein T-Paar"),
               decl=None, lit=None, x="9", val=(1, [1, 2, 3]), xv=9),
}
GP_FORMS = {"ZL": ("assign", "index", "compound", "refcall", "ret"), "TL": ("assign", "index", "compound", "refcall", "ret"),
            "TX": ("assign", "compound", "refcall", "ret"), "KP": ("field", "index", "compound", "refcall", "ret")}


def gp_mutate(ty, form, v, x):
    """value semantics of the mutation forms"""
    if ty == "KP":
        e, r = v
        return {"field": (x, r), "index": (e, [x] + r[1:]), "compound": (e, r + [x]), "refcall": (x, r), "ret": (x, r)}[form]
    if ty == "TX":
        return {"assign": x, "compound": v + x, "refcall": v + x, "ret": v + x}[form]
    return {"assign": [x], "index": [x] + v[1:], "compound": v + [x], "refcall": v + [x], "ret": [x] + v[1:]}[form]


def gp_show(ty, v):
    if ty == "ZL":
        return "".join("%d " % z for z in v) + "|"
    if ty == "TL":
        return "".join(t + "," for t in v) + "|"
    if ty == "TX":
        return v + "|"
    return "%d;" % v[0] + "".join("%d " % z for z in v[1]) + "|"


def generic_param_program(ty, flavour, placement, path):
    """one program: every mutation form of GP_FORMS[ty] as its own callee. Returns (meta, raw program) or None."""
    if ty == "KP" and path == "via":
        return None
    t = GP_TYPES[ty]
    LT, LR, ET, RET = t["gen" if flavour == "generic" else "mono"]
    pub = "öffentliche " if placement == "module" else ""
    gen = "generische " if flavour == "generic" else ""
    lib = []
    defs = []       # flavour "forward": the definitions ('Die Funktion f macht:') that follow at the end of the file
    if ty == "KP":
        if flavour == "generic":
            lib.append('Wir nennen die %sgenerische Kombination aus\n\tdem %sT erstes,\n\tder %sT Liste rest,\nein Paar, und erstellen sie so:\n\t"Paar(<erstes>, <rest>)"\n'
                       % (pub, "öffentlichen " if pub else "", "öffentlichen " if pub else ""))
        else:
            lib.append('Wir nennen die %sKombination aus\n\tder %sZahl erstes mit Standardwert 0,\n\tder %sZahlen Liste rest mit Standardwert eine leere Zahlen Liste,\nein ZPaar, und erstellen sie so:\n\t"Paar(<erstes>, <rest>)"\n'
                       % (pub, "öffentlichen " if pub else "", "öffentlichen " if pub else ""))
    # the writer: changes its Referenz parameter
    if ty == "KP":
        wbody = "\tSpeichere x in erstes von r."
    else:
        wbody = "\tSpeichere r verkettet mit x in r."
    lib.append('Die %s%sFunktion schreiber mit den Parametern r und x vom Typ %s und %s, gibt nichts zurück, macht:\n%s\nUnd kann so benutzt werden:\n\t"lass <x> in <r> schreiben"\n'
               % (pub, gen, LR, ET, wbody))
    for form in GP_FORMS[ty]:
        if form == "assign":
            body = "\tSpeichere x in p." if ty == "TX" else "\tSpeichere (eine Liste, die aus x besteht) in p."
        elif form == "index":
            body = "\tSpeichere x in rest von p an der Stelle 1." if ty == "KP" else "\tSpeichere x in p an der Stelle 1."
        elif form == "field":
            body = "\tSpeichere x in erstes von p."
        elif form == "compound":
            body = "\tSpeichere (rest von p) verkettet mit x in rest von p." if ty == "KP" else "\tSpeichere p verkettet mit x in p."
        elif form == "refcall":
            body = "\tlass x in p schreiben."
        else:
            body = None
        lib.append('Die %s%sFunktion kern_%s mit den Parametern p und x vom Typ %s und %s, gibt %s zurück, macht:\n%s\tGib p zurück.\nUnd kann so benutzt werden:\n\t"kern_%s <p> <x>"\n'
                   % (pub, gen, form, LT, ET, RET, (body + "\n") if body else "", form))
        if path == "via":
            decl = ("Die %s" % LT) if ty != "TX" else ("Das T" if flavour == "generic" else "Der Text")
            after = ""
            if form == "ret":
                after = "\tSpeichere erg verkettet mit x in erg.\n" if ty == "TX" else "\tSpeichere x in erg an der Stelle 1.\n"
            lib.append('Die %s%sFunktion huelle_%s mit den Parametern q und x vom Typ %s und %s, gibt %s zurück, macht:\n\t%s lokal ist q.\n\t%s erg ist kern_%s lokal x.\n%s\tGib erg verkettet mit lokal zurück.\nUnd kann so benutzt werden:\n\t"huelle_%s <q> <x>"\n'
                       % (pub, gen, form, LT, ET, RET, decl, decl, form, after, form))
    show = {
        "ZL": 'Die Funktion zeigeW mit dem Parameter l vom Typ Zahlen Liste, gibt nichts zurück, macht:\n\tFür jede Zahl z in l, mache:\n\t\tSchreibe z.\n\t\tSchreibe \' \'.\n\tSchreibe \'|\'.\nUnd kann so benutzt werden:\n\t"zeige <l>"\n',
        "TL": 'Die Funktion zeigeW mit dem Parameter l vom Typ Text Liste, gibt nichts zurück, macht:\n\tFür jeden Text z in l, mache:\n\t\tSchreibe z.\n\t\tSchreibe \',\'.\n\tSchreibe \'|\'.\nUnd kann so benutzt werden:\n\t"zeige <l>"\n',
        "TX": 'Die Funktion zeigeW mit dem Parameter l vom Typ Text, gibt nichts zurück, macht:\n\tSchreibe l.\n\tSchreibe \'|\'.\nUnd kann so benutzt werden:\n\t"zeige <l>"\n',
        "KP": 'Die Funktion zeigeW mit dem Parameter l vom Typ %s, gibt nichts zurück, macht:\n\tSchreibe (erstes von l).\n\tSchreibe \';\'.\n\tFür jede Zahl z in (rest von l), mache:\n\t\tSchreibe z.\n\t\tSchreibe \' \'.\n\tSchreibe \'|\'.\nUnd kann so benutzt werden:\n\t"zeige <l>"\n' % ("Zahl-Paar" if flavour == "generic" else "ZPaar"),
    }[ty]
    if flavour == "forward":
        # schreiber and every kern_* except kern_refcall are declared with 'wird später definiert' and defined at the
        # very end of the file, after other functions with bodies; kern_refcall and huelle_* (ordinary functions)
        # hand their parameter on to the forward declared schreiber
        new = []
        for f in lib:
            m = re.match(r"(Die (?:öffentliche )?Funktion (\w+) mit .*?, gibt .*? zurück), macht:\n(.*)\nUnd kann so benutzt werden:\n(.*)$", f, re.S)
            if m and (m.group(2) == "schreiber" or (m.group(2).startswith("kern_") and m.group(2) != "kern_refcall")):
                new.append("%s,\nwird später definiert\nund kann so benutzt werden:\n%s" % (m.group(1), m.group(4)))
                defs.append("Die Funktion %s macht:\n%s\n" % (m.group(2), m.group(3)))
            else:
                new.append(f)
        assert defs
        lib = new
    # the caller: a function with local variables
    sz = []
    exp = []
    n = 0
    for form in GP_FORMS[ty]:
        n += 1
        a, bvar = "a%d" % n, "b%d" % n
        if ty == "KP":
            kt = "Das Zahl-Paar" if flavour == "generic" else "Das ZPaar"
            sz.append("\tDie Zahlen Liste r%d ist eine Liste, die aus 1, 2, 3 besteht." % n)
            sz.append("\t%s %s ist Paar(1, r%d)." % (kt, a, n))
            dl = kt
        else:
            dl = t["decl"]
            sz.append("\t%s %s ist %s." % (dl, a, t["lit"]))
        v = t["val"]
        mv = gp_mutate(ty, form, v, t["xv"])
        if path == "direct":
            sz.append("\t%s %s ist kern_%s %s %s." % (dl, bvar, form, a, t["x"]))
            if form == "ret":
                if ty == "TX":
                    sz.append("\tSpeichere %s verkettet mit %s in %s." % (bvar, t["x"], bvar))
                elif ty == "KP":
                    sz.append("\tSpeichere %s in erstes von %s." % (t["x"], bvar))
                else:
                    sz.append("\tSpeichere %s in %s an der Stelle 1." % (t["x"], bvar))
            exp_b = mv
        else:
            sz.append("\t%s %s ist huelle_%s %s %s." % (dl, bvar, form, a, t["x"]))
            exp_b = mv + v
        sz.append("\tzeige %s." % a)
        sz.append("\tzeige %s." % bvar)
        exp.append(gp_show(ty, v) + gp_show(ty, exp_b))
    szene = 'Die Funktion szene mit dem Parameter n vom Typ Zahl, gibt nichts zurück, macht:\n%s\nUnd kann so benutzt werden:\n\t"szene <n>"\n' % "\n".join(sz)
    head = 'Binde "Duden/Ausgabe" ein.\n'
    files = {}
    if placement == "module":
        files["@MOD@"] = "\n".join(lib + defs)
        src = head + 'Binde "@MOD@" ein.\n\n' + show + "\n" + szene + "\nszene 1.\n"
    else:
        src = head + "\n" + "\n".join(lib) + "\n" + show + "\n" + szene + "\nszene 1.\n" + ("\n" + "\n".join(defs) if defs else "")
    name = "value parameters of %s callees (%s), %s, called %s" % (
        {"forward": "forward declared"}.get(flavour, flavour), {"ZL": "T Liste = Zahlen Liste", "TL": "T Liste = Text Liste", "TX": "T = Text", "KP": "T-Paar = Zahl-Paar"}[ty] if flavour == "generic" else ty,
        "imported module" if placement == "module" else "same module", "directly" if path == "direct" else "from inside another function")
    return (dict(kind="raw", name=name, gp=(ty, flavour, placement, path)), dict(raw=src, expected="".join(exp), name=name, files=files))


def generic_param_programs():
    out = []
    for ty in ("ZL", "TL", "TX", "KP"):
        for flavour in ("generic", "mono", "forward"):
            for placement in ("same", "module"):
                for path in ("direct", "via"):
                    r = generic_param_program(ty, flavour, placement, path)
                    if r:
                        out.append(r)
    return out


# ---------------------------------------------------------------------------------------------------------------
# callee kinds the constant-parameter annotator has to see although they are no plain FuncDecl-with-body / FuncCall:
# operator overloads (the call only exists as OverloadedBy), sibling arguments that change the variable while the
# call's arguments are evaluated, operands changed by a later operand.  (Forward declared callees: flavour "forward"
# of generic_param_program.)  Hand-computed expectations: arguments and operands are evaluated left to right in
# PARAMETER order and a by-value argument / operand is the value at that moment.
# ---------------------------------------------------------------------------------------------------------------
CK_TY = {
    "ZL": dict(T="Zahlen Liste", R="Zahlen Listen Referenz", decl="Die Zahlen Liste", lit="eine Liste, die aus 1, 2, 3 besteht",
               w=lambda n: "Speichere %d in l an der Stelle 1." % n, shown="1 2 3 ", first="1", second="2",
               show='\tFür jede Zahl z in l, mache:\n\t\tSchreibe z.\n\t\tSchreibe \' \'.\n\tSchreibe \'|\'.'),
    "TX": dict(T="Text", R="Text Referenz", decl="Der Text", lit='"abc"',
               w=lambda n: "Speichere '%s' in l an der Stelle 1." % "QRSTUVWXYZ"[n % 10], shown="abc", first="a", second="b",
               show="\tSchreibe (l verkettet mit \"\").\n\tSchreibe '|'."),   # Schreibe is extern: printing l itself would make it non-constant
}


def ck_written(ty, n):
    return ("%d 2 3 " % n) if ty == "ZL" else ("QRSTUVWXYZ"[n % 10] + "bc")


def operator_program(ty):
    t = CK_TY[ty]
    T, R = t["T"], t["R"]
    cast_to, cast_ret, cast_val, cast_show = ("Text", "einen Text", '"T"', "T") if ty == "ZL" else ("Zahl", "eine Zahl", "6", "6")
    src = ['Binde "Duden/Ausgabe" ein.\n']
    src.append('Die Funktion op_neg mit dem Parameter l vom Typ %s, gibt eine Zahl zurück, macht:\n\t%s\n\tGib 5 zurück.\nUnd überlädt den "unäres minus" Operator.\n' % (R, t["w"](91)))
    src.append('Die Funktion op_plus mit den Parametern l und n vom Typ %s und Zahl, gibt eine Zahl zurück, macht:\n\t%s\n\tGib n zurück.\nUnd überlädt den "plus" Operator.\n' % (R, t["w"](92)))
    src.append('Die Funktion op_als mit dem Parameter l vom Typ %s, gibt %s zurück, macht:\n\t%s\n\tGib %s zurück.\nUnd überlädt den "als" Operator.\n' % (R, cast_ret, t["w"](93), cast_val))
    src.append('Die Funktion op_mal mit den Parametern l und n vom Typ %s und Zahl, gibt eine Zahl zurück, macht:\n\t%s\n\tGib n zurück.\nUnd überlädt den "mal" Operator.\n' % (T, t["w"](94)))
    kern = (("neg", "eine Zahl", "-p"), ("plus", "eine Zahl", "p plus 7"), ("als", cast_ret, "p als %s" % cast_to), ("mal", "eine Zahl", "p mal 8"))
    for k, ret, e in kern:
        src.append('Die Funktion kern_%s mit dem Parameter p vom Typ %s, gibt %s zurück, macht:\n\tGib (%s) zurück.\nUnd kann so benutzt werden:\n\t"kern_%s <p>"\n' % (k, T, ret, e, k))
    src.append('Die Funktion zeigeW mit dem Parameter l vom Typ %s, gibt nichts zurück, macht:\n%s\nUnd kann so benutzt werden:\n\t"zeige <l>"\n' % (T, t["show"]))
    sz, exp = [], []
    for i, (k, ret, e) in enumerate(kern, 1):
        sz.append("\t%s a%d ist %s." % (t["decl"], i, t["lit"]))
        sz.append("\tSchreibe (kern_%s a%d)." % (k, i))
        sz.append("\tSchreibe '|'.")
        sz.append("\tzeige a%d." % i)
        exp.append({"neg": "5", "plus": "7", "als": cast_show, "mal": "8"}[k] + "|" + t["shown"] + "|")
    # the operator applied directly to a local variable: the by-value operator function gets a copy, the Referenz one the variable
    sz.append("\t%s a9 ist %s." % (t["decl"], t["lit"]))
    sz.append("\tSchreibe (a9 mal 3).\n\tSchreibe '|'.\n\tzeige a9.\n\tSchreibe (a9 plus 4).\n\tSchreibe '|'.\n\tzeige a9.")
    exp.append("3|" + t["shown"] + "|4|" + ck_written(ty, 92) + "|")
    src.append('Die Funktion szene mit dem Parameter n vom Typ Zahl, gibt nichts zurück, macht:\n%s\nUnd kann so benutzt werden:\n\t"szene <n>"\n\nszene 1.\n' % "\n".join(sz))
    name = "value parameter handed to an overloaded operator (unary, binary, cast) by Referenz (%s)" % T
    # kern_mal: handing p to a by-value parameter the callee writes counts as a write of p for the annotator (VisitFuncCall
    # does not distinguish value from Referenz parameters), as in the model's `analyse`
    return (dict(kind="raw", name=name, ck=("operator", ty), tables={"kern_neg": "0", "kern_plus": "0", "kern_als": "0", "kern_mal": "0", "op_mal": "01"}),
            dict(raw="\n".join(src), expected="".join(exp), name=name))


def sibling_program(ty):
    t = CK_TY[ty]
    T, R = t["T"], t["R"]
    src = ['Binde "Duden/Ausgabe" ein.\n']
    src.append('Die Funktion anhaengen mit dem Parameter l vom Typ %s, gibt eine Zahl zurück, macht:\n\t%s\n\tGib 7 zurück.\nUnd kann so benutzt werden:\n\t"hänge an <l> an"\n' % (R, t["w"](99)))
    src.append('Die Funktion lesen mit dem Parameter l vom Typ %s, gibt eine Zahl zurück, macht:\n\tGib (die Länge von l) zurück.\nUnd kann so benutzt werden:\n\t"lies <l>"\n' % T)
    src.append('Die Funktion op_plus mit den Parametern l und n vom Typ %s und Zahl, gibt eine Zahl zurück, macht:\n\t%s\n\tGib n zurück.\nUnd überlädt den "plus" Operator.\n' % (R, t["w"](92)))
    src.append('Die Funktion drucke1 mit den Parametern l und n vom Typ %s und Zahl, gibt nichts zurück, macht:\n%s\n\tSchreibe n.\n\tSchreibe \'|\'.\nUnd kann so benutzt werden:\n\t"drucke <l> und <n>"\n' % (T, t["show"]))
    src.append('Die Funktion drucke2 mit den Parametern n und l vom Typ Zahl und %s, gibt nichts zurück, macht:\n\tSchreibe n.\n\tSchreibe \'|\'.\n%s\nUnd kann so benutzt werden:\n\t"drucke erst <n> dann <l>"\n' % (T, t["show"]))
    src.append('Die Funktion zeigeW mit dem Parameter l vom Typ %s, gibt nichts zurück, macht:\n%s\nUnd kann so benutzt werden:\n\t"zeige <l>"\n' % (T, t["show"]))
    old, new99, new92 = t["shown"], ck_written(ty, 99), ck_written(ty, 92)
    cases = (
        ("drucke a1 und (hänge an a1 an).", old + "|7|", new99),               # the nested call runs after the copy of a1 was taken
        ("drucke erst (hänge an a2 an) dann a2.", "7|" + new99 + "|", new99),  # ... before
        ("drucke a3 und ((hänge an a3 an) plus 1).", old + "|8|", new99),
        ("drucke a4 und (a4 plus 6).", old + "|6|", new92),                    # overloaded operator with a Referenz parameter as the later argument
        ("drucke a5 und (lies a5).", old + "|3|", old),
    )
    sz, exp = [], []
    for i, (stmt, out, after) in enumerate(cases, 1):
        sz.append("\t%s a%d ist %s." % (t["decl"], i, t["lit"]))
        sz.append("\t" + stmt)
        sz.append("\tzeige a%d." % i)
        exp.append(out + after + "|")
    src.append('Die Funktion szene mit dem Parameter n vom Typ Zahl, gibt nichts zurück, macht:\n%s\nUnd kann so benutzt werden:\n\t"szene <n>"\n\nszene 1.\n' % "\n".join(sz))
    name = "argument by value while a sibling argument hands the same variable to a nested call by Referenz (%s)" % T
    return (dict(kind="raw", name=name, ck=("sibling", ty), tables={"drucke1": "10", "drucke2": "01", "lesen": "1", "anhaengen": "0"}),
            dict(raw="\n".join(src), expected="".join(exp), name=name))


OPERAND_CASES = ("global", "local-ref", "element")


def operand_program(case):
    """the left operand of 'verkettet mit' is (part of) a variable that a call in the RIGHT operand changes"""
    lang = "a" * 40
    neu = "N" * 40
    src = ['Binde "Duden/Ausgabe" ein.\n']
    if case == "global":
        src.append('Der Text g ist "%s".\n' % lang)
        src.append('Die Funktion aendere_g gibt einen Text zurück, macht:\n\tSpeichere "%s" in g.\n\tGib "x" zurück.\nUnd kann so benutzt werden:\n\t"das Ergebnis vom Ändern"\n' % neu)
        src.append('Der Text t ist g verkettet mit (das Ergebnis vom Ändern).\nSchreibe t.\nSchreibe \'|\'.\nSchreibe g.\nSchreibe \'|\'.\n')
        exp = lang + "x|" + neu + "|"
        name = "left operand is a global variable that a call in the right operand assigns"
    elif case == "local-ref":
        src.append('Die Funktion aendere mit dem Parameter r vom Typ Text Referenz, gibt einen Text zurück, macht:\n\tSpeichere "%s" in r.\n\tGib "x" zurück.\nUnd kann so benutzt werden:\n\t"das Ergebnis von <r>"\n' % neu)
        src.append('Die Funktion szene mit dem Parameter n vom Typ Zahl, gibt nichts zurück, macht:\n\tDer Text lokal ist "%s".\n\tDer Text t ist lokal verkettet mit (das Ergebnis von lokal).\n\tSchreibe t.\n\tSchreibe \'|\'.\n\tSchreibe lokal.\n\tSchreibe \'|\'.\nUnd kann so benutzt werden:\n\t"szene <n>"\n\nszene 1.\n' % lang)
        exp = lang + "x|" + neu + "|"
        name = "left operand is a local variable that the right operand hands to a call by Referenz"
    else:
        src.append('Die Text Liste L ist eine Liste, die aus "%s", "b" besteht.\n' % lang)
        src.append('Die Funktion leere_L gibt einen Text zurück, macht:\n\tSpeichere eine leere Text Liste in L.\n\tDer Text neu ist "%s".\n\tGib "x" zurück.\nUnd kann so benutzt werden:\n\t"das Ergebnis vom Leeren"\n' % neu)
        src.append('Der Text t ist (L an der Stelle 1) verkettet mit (das Ergebnis vom Leeren).\nSchreibe t.\nSchreibe \'|\'.\nSchreibe (die Länge von L).\nSchreibe \'|\'.\n')
        exp = lang + "x|0|"
        name = "left operand is an element of a global list that a call in the right operand replaces"
    return (dict(kind="raw", name=name, ck=("operand", case)), dict(raw="\n".join(src), expected=exp, name=name))


def callee_kind_programs():
    out = []
    for ty in ("ZL", "TX"):
        out.append(operator_program(ty))
        out.append(sibling_program(ty))
    for case in OPERAND_CASES:
        out.append(operand_program(case))
    return out
