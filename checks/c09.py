#!/usr/bin/env python3
"""C09 — calls resolve to the longest type-matching alias; arguments bind by name; operator overloads by exact
type; negated aliases negate.
Proof: coq/Props/C09.v over coq/Alias/Select.v + Overload.v (trie and keys are C20's).
Tie: generated alias populations + call sites are parsed by the real parser (harness callx: FuncCall.Func, Args,
logical-NOT wrapper, OverloadedBy), the same call sites are resolved by the extracted model (extract/c09_driver.ml,
tokens come from the real scanner) and by a small Python oracle written from the property statement. Thorough (and a
sample in quick): the programs are compiled and run, every function body prints its own tag and arguments."""
import json
import os
import re
import subprocess
import sys

sys.path.insert(0, os.path.dirname(os.path.abspath(__file__)))
import vlib
from vlib import Check, Build, log

PID = "C09"

# =================================================================================================
# the little DDP world of the generator
# =================================================================================================
# types: ('B', name) | ('L', t) | ('G', name)
Z, T, K, W, B = ('B', 'Zahl'), ('B', 'Text'), ('B', 'Kommazahl'), ('B', 'Wahrheitswert'), ('B', 'Buchstabe')
KENNUNG, PUNKT, KREIS = ('B', 'Kennung'), ('B', 'Punkt'), ('B', 'Kreis')
VOID = ('B', 'nichts')


def L(t):
    return ('L', t)


def G(n):
    return ('G', n)


def IV(t):
    """instantiation of the generic Kombination Vektor2 (one type parameter T, fields x and y of type T)"""
    return ('I', 'Vektor2', t)


def is_generic_type(t):
    return t[0] == 'G' or (t[0] == 'L' and is_generic_type(t[1])) or (t[0] == 'I' and is_generic_type(t[2]))


def gname_of(t):
    return t[1] if t[0] == 'G' else gname_of(t[1]) if t[0] == 'L' else gname_of(t[2]) if t[0] == 'I' else None


def subst_type(t, env):
    if t[0] == 'G':
        return env[t[1]]
    if t[0] == 'L':
        return ('L', subst_type(t[1], env))
    if t[0] == 'I':
        return ('I', t[1], subst_type(t[2], env))
    return t


PARAM_TEXT = {  # (value, Referenz, Liste, Listen Referenz)
    'Zahl': ("Zahl", "Zahlen Referenz", "Zahlen Liste", "Zahlen Listen Referenz"),
    'Kommazahl': ("Kommazahl", "Kommazahlen Referenz", "Kommazahlen Liste", "Kommazahlen Listen Referenz"),
    'Buchstabe': ("Buchstabe", "Buchstaben Referenz", "Buchstaben Liste", "Buchstaben Listen Referenz"),
}


def type_text(t, ref, written=None):
    """DDP spelling of a parameter type; `written` = name of a type alias to spell it with (Nummer for Zahl)"""
    if t[0] == 'I':
        return type_text(t[2], False) + "-" + t[1] + (" Referenz" if ref else "")
    lst = t[0] == 'L'
    base = t[1] if lst else t
    name = written or base[1]
    idx = (2 if lst else 0) + (1 if ref else 0)
    if name in PARAM_TEXT:
        return PARAM_TEXT[name][idx]
    return name + ("", " Referenz", " Liste", " Listen Referenz")[idx]


def ty_model(t, ids):
    """type in the syntax of the model driver"""
    if t[0] == 'L':
        return "L(%s)" % ty_model(t[1], ids)
    if t[0] == 'I':
        return "I%d(%s)" % (ids.setdefault(('I', t[1]), len(ids) + 1), ty_model(t[2], ids))
    if t[0] == 'G':
        return "G%d" % ids.setdefault(('G', t[1]), len(ids) + 1)
    return "B%d" % ids.setdefault(('B', t[1]), len(ids) + 1)


# global variables of every generated program: name -> (type, initialiser, runtime text)
VARS = {
    'vz': (Z, "7", "7"), 'vy': (Z, "9", "9"), 'vt': (T, '"tt"', "tt"), 'vu': (T, '"uu"', "uu"), 'vk': (K, "1,5", "1,5"),
    'vw': (W, "wahr", "wahr"), 'vb': (B, "'c'", "c"), 'vzl': (L(Z), None, None), 'vtl': (L(T), None, None), 'vbl': (L(B), None, None),
    'vn': (Z, "4", "4"), 'vd': (KENNUNG, None, None), 'vp': (PUNKT, None, None),
    'vvz': (IV(Z), None, None), 'vvt': (IV(T), None, None),
}
GSTRUCT_VARS = ('vvz', 'vvt')
VAR_DECLS = """Die Zahl vz ist 7.
Die Zahl vy ist 9.
Der Text vt ist "tt".
Der Text vu ist "uu".
Die Kommazahl vk ist 1,5.
Der Wahrheitswert vw ist wahr.
Der Buchstabe vb ist 'c'.
Die Zahlen Liste vzl ist eine Liste, die aus 1, 2 besteht.
Die Text Liste vtl ist eine Liste, die aus "p", "q" besteht.
Die Buchstaben Liste vbl ist eine Liste, die aus 'x', 'y' besteht.
Die Nummer vn ist 4.
Die Kennung vd ist 3 als Kennung.
"""
TYPE_DECLS = """Wir nennen eine Zahl auch eine Nummer.
Wir definieren eine Kennung als eine Zahl.
"""

# argument forms: text -> (type as expression | None, type as assignable | None, assignable is an index into a Text, runtime text)
FORMS = {
    '5': (Z, None, False, "5"), '12': (Z, None, False, "12"), 'vz': (Z, Z, False, "7"), 'vy': (Z, Z, False, "9"), 'vn': (Z, Z, False, "4"),
    '-3': (Z, None, False, "-3"), '-vz': (Z, None, False, "-7"),
    '(vz plus 1)': (Z, None, False, "8"), '(2 mal 3)': (Z, None, False, "6"), '(vz)': (Z, Z, False, "7"),
    '(vzl an der Stelle 1)': (Z, Z, False, "1"),
    '"s"': (T, None, False, "s"), 'vt': (T, T, False, "tt"), 'vu': (T, T, False, "uu"), '("a" verkettet mit "b")': (T, None, False, "ab"),
    '(vt)': (T, T, False, "tt"), '(vtl an der Stelle 2)': (T, T, False, "q"),
    '2,5': (K, None, False, "2,5"), 'vk': (K, K, False, "1,5"), '-1,5': (K, None, False, "-1,5"), '(vk)': (K, K, False, "1,5"),
    'wahr': (W, None, False, "wahr"), 'falsch': (W, None, False, "falsch"), 'vw': (W, W, False, "wahr"), '(vw)': (W, W, False, "wahr"),
    "'x'": (B, None, False, "x"), 'vb': (B, B, False, "c"), '(vb)': (B, B, False, "c"),
    '(vt an der Stelle 1)': (B, B, True, "t"), '(vbl an der Stelle 1)': (B, B, False, "x"),
    'vzl': (L(Z), L(Z), False, None), '(vzl)': (L(Z), L(Z), False, None), 'vtl': (L(T), L(T), False, None), 'vbl': (L(B), L(B), False, None),
    'vd': (KENNUNG, KENNUNG, False, None), '(vd)': (KENNUNG, KENNUNG, False, None), '(3 als Kennung)': (KENNUNG, None, False, None),
    'vp': (PUNKT, PUNKT, False, None), '(vp)': (PUNKT, PUNKT, False, None),
    'vvz': (IV(Z), IV(Z), False, None), '(vvz)': (IV(Z), IV(Z), False, None), 'vvt': (IV(T), IV(T), False, None), '(vvt)': (IV(T), IV(T), False, None),
}
FORMS_BY_TYPE = {}
for _f, _i in FORMS.items():
    FORMS_BY_TYPE.setdefault(_i[0], []).append(_f)

WORDS = ["foo", "bar", "baz", "qux", "zip", "nim"]          # identifiers
CONNECT = ["mit", "und", "plus", "mal", ","]                  # keywords / punctuation usable inside patterns
KEYWORDS = {"mit", "und", "plus", "mal", "an", "der", "Stelle", "verkettet", "als", "nicht", "kein", "minus"}
NEG_WORDS = ["nicht", "kein"]

TOK_RE = re.compile(r'"[^"]*"|\'[^\']*\'|\d+,\d+|\d+|[A-Za-z_ÄÖÜäöüß][A-Za-z_0-9ÄÖÜäöüß]*|[()\-,.]')


def spec_tokens(text):
    """the oracle's own tokenisation of a call site: list of (class, text, column0)"""
    out = []
    for m in TOK_RE.finditer(text):
        s = m.group(0)
        if s[0] == '"':
            c = 'STRING'
        elif s[0] == "'":
            c = 'CHAR'
        elif s[0].isdigit():
            c = 'FLOAT' if ',' in s else 'INT'
        elif s in ('wahr', 'falsch'):
            c = 'BOOL'
        elif s == '(':
            c = 'LP'
        elif s == ')':
            c = 'RP'
        elif s == '-':
            c = 'NEG'
        elif s == ',':
            c = 'COMMA'
        elif s == '.':
            c = 'DOT'
        elif s in KEYWORDS:
            c = 'KW'
        else:
            c = 'IDENT'
        out.append((c, s, m.start()))
    return out


PAT_RE = re.compile(r'<[A-Za-z][A-Za-z0-9]*>|"[^"]*"|\d+,\d+|\d+|[A-Za-z_ÄÖÜäöüß][A-Za-z_0-9ÄÖÜäöüß]*|[()\-,.]')


def spec_pattern(text):
    """alias text -> list of ('P', name) | (class, text)"""
    out = []
    for m in PAT_RE.finditer(text):
        s = m.group(0)
        if s[0] == '<':
            out.append(('P', s[1:-1]))
        else:
            out.append(spec_tokens(s)[0][:2])
    return out


def expand_marker_spec(text):
    """the property's reading of a negation marker: [(alias text, negated)]"""
    m = re.search(r'<!([^>]*)>', text)
    if not m:
        return [(text, False)]
    return [(text[:m.start()] + m.group(1) + text[m.end():], True), (text[:m.start()] + text[m.end():], False)]


class Func:
    def __init__(self, name, params, aliases, generic=False, ret='Zahl', public=False, module='main', struct=False):
        self.name, self.params, self.raw_aliases = name, params, aliases   # params: [(name, type, ref, written)]
        self.generic, self.ret, self.public, self.module, self.struct = generic, ret, public, module, struct
        self.tag = 0
        self.gstruct = False
        self.extra_body = []         # further statements of the body (calls made inside the function)
        self.numeric_body = None     # name of a parameter of type T that the body adds 1 to: instantiable only for Zahl / Kommazahl

    def ptype(self, n):
        for p in self.params:
            if p[0] == n:
                return p
        return None

    def refs(self):
        return sum(1 for p in self.params if p[2])

    def deep_generics(self):
        return sum(1 for p in self.params if is_generic_type(p[1]))

    def direct_generics(self):
        return sum(1 for p in self.params if p[1][0] == 'G')


class Alias:
    def __init__(self, aid, fn, text, neg):
        self.aid, self.fn, self.text, self.neg = aid, fn, text, neg
        self.pat = spec_pattern(text)

    def key(self):
        """the coincidence C20 speaks of: same tokens, placeholders by parameter type"""
        k = []
        for t in self.pat:
            if t[0] == 'P':
                p = self.fn.ptype(t[1])
                k.append(('P', p[1], p[2]))
            else:
                k.append(t)
        return tuple(k)


# =================================================================================================
# generator
# =================================================================================================
CONCRETE = [Z, T, K, W, B, L(Z), L(T), KENNUNG]


def gen_skeleton(rng, nslots):
    """a pattern skeleton: list of words and slot markers None; starts with an identifier word (mostly)"""
    n_words = rng.randint(1, 3)
    items = [rng.choice(WORDS)]
    rest = [None] * nslots + [rng.choice(WORDS + CONNECT) for _ in range(n_words - 1)]
    rng.shuffle(rest)
    items += rest
    if nslots >= 1 and rng.random() < 0.12:   # operator-like: starts with a placeholder
        items = [None, rng.choice(WORDS)] + [x for x in items[1:] if x is not None][:1] + [None] * (nslots - 1)
    # no two adjacent commas / leading comma after word is fine; avoid a trailing comma (statement would end ", .")
    while items and items[-1] == ',':
        items.pop()
    return items


def render_skel(items, names):
    out, i = [], 0
    for it in items:
        if it is None:
            out.append("<%s>" % names[i])
            i += 1
        else:
            out.append(it)
    s = " ".join(out)
    return s.replace(" ,", ",")


def gen_wide_population(rng):
    """one skeleton with two placeholders declared for (almost) every combination of {Zahl, Text} x {value, Referenz}
    and a few generic variants: more than 12 candidates at one call site (sort.Slice leaves its insertion-sort regime)
    and genuine ties between type-matching candidates"""
    w1, w2 = rng.choice(WORDS), rng.choice(WORDS + ["mit", "und"])
    combos = [(ta, ra, tb, rb) for ta in (Z, T) for ra in (False, True) for tb in (Z, T) for rb in (False, True)]
    rng.shuffle(combos)
    funcs = []
    for n, (ta, ra, tb, rb) in enumerate(combos[:rng.randint(13, 16)]):
        params = [('a', ta, ra, None), ('b', tb, rb, None)]
        if rng.random() < 0.5:
            params.reverse()
        funcs.append(Func("w%d" % (n + 1), params, ["%s <a> %s <b>" % (w1, w2)]))
    gen = [[('a', G('T'), False, None), ('b', G('T'), False, None)], [('a', G('T'), True, None), ('b', G('T'), False, None)],
           [('a', G('T'), False, None), ('b', G('R'), True, None)], [('a', G('T'), True, None), ('b', Z, False, None)]]
    for n, ps in enumerate(rng.sample(gen, rng.randint(1, 3))):
        funcs.append(Func("g%d" % (n + 1), ps, ["%s <a> %s <b>" % (w1, w2)], generic=True))
    # a longer and a shorter relative
    funcs.append(Func("wl", [('a', Z, False, None), ('b', Z, False, None)], ["%s <a> %s <b> %s" % (w1, w2, rng.choice(WORDS))]))
    funcs.append(Func("ws", [('a', Z, False, None)], ["%s <a>" % w1]))
    rng.shuffle(funcs)
    return funcs, False


def gen_population(rng, want_struct, clean, want_g=False):
    if not want_struct and not want_g and rng.random() < 0.1:
        return gen_wide_population(rng)
    funcs = []
    if want_g:
        # the same one-placeholder pattern for an instantiated generic Kombination, concretely and generically
        w = rng.choice(WORDS)
        pat = rng.choice(["%s <a>", "%s mit <a>", "%s <a> %s" % ("%s", rng.choice(WORDS))]) % w
        conc_t = rng.choice([Z, T])
        variants = [("k", IV(conc_t), False, False), ("g", IV(G('T')), False, True)]
        if rng.random() < 0.4:
            variants.append(("r", IV(conc_t), True, False))
        if rng.random() < 0.3:
            variants.append(("h", IV(G('T')), True, True))
        if rng.random() < 0.3:
            variants.append(("o", IV(T if conc_t == Z else Z), False, False))
        rng.shuffle(variants)
        for nm, t, ref, gen in variants:
            funcs.append(Func("vek" + nm, [('a', t, ref, None)], [pat], generic=gen))
    n_fun = rng.randint(5, 11)
    skels = []          # shared skeleton pool: (items, nslots)
    fid = 0
    while len(funcs) < n_fun:
        fid += 1
        r = rng.random()
        nslots = rng.choice([0, 1, 1, 1, 2, 2, 2, 3])
        # a related skeleton (same / prefix / extension / permuted) or a fresh one
        base = None
        cands = [s for s in skels if True]
        if cands and r < 0.7:
            items = list(rng.choice(cands))
            how = rng.random()
            if how < 0.35:
                pass                                     # same pattern, other parameter types
            elif how < 0.55 and len(items) > 2:
                items = items[:rng.randint(2, len(items) - 1)]       # proper prefix
            elif how < 0.85:
                items = items + [rng.choice(WORDS + CONNECT[:4] + [None])]   # extension
                if rng.random() < 0.4:
                    items.append(rng.choice([None, rng.choice(WORDS)]))
            else:
                mid = items[1:]
                rng.shuffle(mid)
                items = items[:1] + mid
            while items and items[-1] == ',':
                items.pop()
            nslots = sum(1 for x in items if x is None)
            if nslots > 3 or not items or all(x is None for x in items):
                continue
        else:
            items = gen_skeleton(rng, nslots)
            nslots = sum(1 for x in items if x is None)
        skels.append(items)
        pnames = ['a', 'b', 'c'][:nslots]
        generic = rng.random() < 0.22 and nslots > 0
        params = []
        for i, pn in enumerate(pnames):
            ref = rng.random() < 0.3
            if generic and (i == 0 or rng.random() < 0.4):
                gname = rng.choice(['T', 'T', 'R'])
                t = rng.choice([G(gname), G(gname), L(G(gname))] + ([IV(G(gname))] * 2 if want_g else []))
            else:
                t = rng.choice(CONCRETE + ([PUNKT] if want_struct else []) + ([IV(Z), IV(T)] if want_g else []))
            written = 'Nummer' if (t in (Z, L(Z)) and rng.random() < 0.15) else None
            params.append((pn, t, ref, written))
        if generic and not any(is_generic_type(p[1]) for p in params):
            generic = False
        if not generic and len(params) >= 2 and rng.random() < (0.35 if clean else 0.1):
            # same-typed value parameters: binding by position instead of by name would go unnoticed by the types
            t0 = rng.choice([Z, T])
            params = [(q[0], t0, False, None) for q in params]
        # declaration order of the parameters is independent of the placeholder order
        decl_params = list(params)
        rng.shuffle(decl_params)
        negatable = rng.random() < 0.2
        aliases = []
        order = list(pnames)
        txt = render_skel(items, order)
        if negatable:
            # marker as a separate word somewhere after the first token, or glued to the next word
            parts = txt.split(" ")
            pos = rng.randint(1, len(parts))
            if pos < len(parts) and parts[pos][0].isalpha() and parts[pos] not in KEYWORDS and rng.random() < 0.3:
                parts[pos] = "<!un>" + parts[pos]
            else:
                parts.insert(pos, "<!%s>" % rng.choice(NEG_WORDS))
            txt = " ".join(parts)
        aliases.append(txt)
        # further aliases of the same function: placeholders permuted / another connective
        for _ in range(rng.choice([0, 0, 1, 1, 2])):
            it2 = list(items)
            o2 = list(pnames)
            rng.shuffle(o2)
            if rng.random() < 0.5:
                it2 = it2 + [rng.choice(WORDS)]
            elif len(it2) > 1 and it2[-1] is not None and rng.random() < 0.5:
                it2[-1] = rng.choice(WORDS)
            aliases.append(render_skel(it2, o2))
        f = Func("f%d" % fid, decl_params, aliases, generic=generic, ret='Wahrheitswert' if negatable else 'Zahl')
        direct = [q for q in decl_params if q[1][0] == 'G' and not q[2]]
        if generic and direct and rng.random() < 0.35:
            f.numeric_body = direct[0][0]
        funcs.append(f)
    if want_g:
        gs = Func("Vektor2", [('x', G('T'), False, None), ('y', G('T'), False, None)], ["vek <x> <y>"], generic=True, ret='Vektor2', struct=True)
        gs.gstruct = True
        funcs.append(gs)
    if want_struct:
        st = Func("Punkt", [('x', Z, False, None), ('y', Z, False, None)], [], ret='Punkt', struct=True)
        w = rng.choice(WORDS)
        st.raw_aliases = ["%s punkt <x> <y>" % w, "%s <y> <x> punkt" % rng.choice(WORDS), "%s punkt" % w]
        funcs.append(st)
    # module split: some functions live in an imported module (public or not); only builtin types there
    use_mod = rng.random() < 0.45
    if use_mod:
        for f in funcs:
            if f.struct or f.generic:
                continue
            if any(p[3] or p[1] in (KENNUNG, PUNKT, L(KENNUNG)) or p[1][0] == 'I' for p in f.params):
                continue
            if rng.random() < 0.4:
                f.module = 'mod'
                f.public = rng.random() < 0.8
    return funcs, use_mod


def build_aliases(funcs, use_mod):
    """aliases in the order the parser declares them; duplicates (C20's coincidence) are dropped by the generator so
    that every program is free of alias errors. Returns (visible aliases in trie insertion order, all)"""
    order = [f for f in funcs if f.module == 'aus'] + [f for f in funcs if f.module == 'mod'] + [f for f in funcs if f.module == 'main']
    seen_in = {'aus': set(), 'mod': set(), 'main': set()}     # alias keys visible in each module
    out = []
    aid = 0
    tag = 0
    for f in order:
        seen = seen_in[f.module]
        tag += 1
        f.tag = tag
        kept = []
        f.aliases = []
        for raw in f.raw_aliases:
            exp = expand_marker_spec(raw)
            als = []
            ok = True
            for text, neg in exp:
                a = Alias(0, f, text, neg)
                # every parameter exactly once
                names = [t[1] for t in a.pat if t[0] == 'P']
                if sorted(names) != sorted(p[0] for p in f.params) or not a.pat:
                    ok = False
                    break
                if a.key() in seen or any(a.key() == b.key() for b in als):
                    ok = False
                    break
                als.append(a)
            if not ok:
                continue
            kept.append(raw)
            for a in als:
                aid += 1
                a.aid = aid
                seen.add(a.key())
                if f.public and f.module != 'main':
                    seen_in['main'].add(a.key())      # imported into main (aus is never re-declared by mod)
                f.aliases.append(a)
                out.append(a)
        f.raw_kept = kept
    funcs[:] = [f for f in funcs if f.raw_kept]
    return [a for a in out if a.fn.raw_kept]


def visible(aliases):
    return [a for a in aliases if a.fn.module == 'main' or a.fn.public]


def art(ret):
    return {'Zahl': "eine Zahl", 'Wahrheitswert': "einen Wahrheitswert", 'Punkt': "einen Punkt"}[ret]


PRINTERS = {Z: 'XAUSZ', T: 'XAUST', W: 'XAUSW', B: 'XAUSB'}   # Kommazahl output depends on the locale's decimal point: not printed
AUS_MODULE = """Die öffentliche Funktion Schreibe_Text mit dem Parameter p1 vom Typ Text, gibt nichts zurück,
ist in "libddpstdlib.a" definiert
und kann so benutzt werden:
	"XAUST <p1>"

Die öffentliche Funktion Schreibe_Zahl mit dem Parameter p1 vom Typ Zahl, gibt nichts zurück,
ist in "libddpstdlib.a" definiert
und kann so benutzt werden:
	"XAUSZ <p1>"

Die öffentliche Funktion Schreibe_Kommazahl mit dem Parameter p1 vom Typ Kommazahl, gibt nichts zurück,
ist in "libddpstdlib.a" definiert
und kann so benutzt werden:
	"XAUSK <p1>"

Die öffentliche Funktion Schreibe_Wahrheitswert mit dem Parameter p1 vom Typ Wahrheitswert, gibt nichts zurück,
ist in "libddpstdlib.a" definiert
und kann so benutzt werden:
	"XAUSW <p1>"

Die öffentliche Funktion Schreibe_Buchstabe mit dem Parameter p1 vom Typ Buchstabe, gibt nichts zurück,
ist in "libddpstdlib.a" definiert
und kann so benutzt werden:
	"XAUSB <p1>"
"""


def aus_funcs():
    """the printing helpers as members of the population (they are in the trie like everything else)"""
    out = []
    for t, w in ((T, 'XAUST'), (Z, 'XAUSZ'), (K, 'XAUSK'), (W, 'XAUSW'), (B, 'XAUSB')):
        f = Func("Schreibe_" + t[1], [('p1', t, False, None)], ["%s <p1>" % w], ret='nichts', public=True, module='aus')
        out.append(f)
    return out


def render_func(f, backend):
    if f.struct and f.gstruct:
        return "Wir nennen die generische Kombination aus\n\tdem T x,\n\tdem T y,\neinen Vektor2, und erstellen sie so:\n" + \
               " oder\n".join('\t"%s"' % a for a in f.raw_kept) + "\n"
    if f.struct:
        lines = ["Wir nennen die Kombination aus", "\tder Zahl x mit Standardwert 0,", "\tder Zahl y mit Standardwert 0,",
                 "einen Punkt, und erstellen sie so:"]
        lines.append(" oder\n".join('\t"%s"' % a for a in f.raw_kept))
        return "\n".join(lines) + "\n"
    head = "Die %s%sFunktion %s" % ("öffentliche " if f.public else "", "generische " if f.generic else "", f.name)
    ps = f.params
    if len(ps) == 1:
        head += " mit dem Parameter %s vom Typ %s," % (ps[0][0], type_text(ps[0][1], ps[0][2], ps[0][3]))
    elif len(ps) > 1:
        names = ", ".join(p[0] for p in ps[:-1]) + " und " + ps[-1][0]
        tys = ", ".join(type_text(p[1], p[2], p[3]) for p in ps[:-1]) + " und " + type_text(ps[-1][1], ps[-1][2], ps[-1][3])
        head += " mit den Parametern %s vom Typ %s," % (names, tys)
    head += " gibt %s zurück, macht:" % art(f.ret)
    body = []
    if f.numeric_body:
        body.append("\t(%s plus 1)." % f.numeric_body)
    for l in f.extra_body:
        body.append("\t" + l)
    if backend:
        body.append('\tXAUST "%s(".' % f.name)
        for i, p in enumerate(sorted(ps)):
            if i:
                body.append('\tXAUST ";".')
            body.append('\tXAUST "%s=".' % p[0])
            if p[1] in PRINTERS:
                body.append("\t%s %s." % (PRINTERS[p[1]], p[0]))
            else:
                body.append('\tXAUST "?".')
        body.append('\tXAUST ")\\n".')
    body.append("\tGib %s zurück." % ("wahr" if f.ret == 'Wahrheitswert' else str(f.tag)))
    tail = "Und kann so benutzt werden:\n" + " oder\n".join('\t"%s"' % a for a in f.raw_kept)
    return head + "\n" + "\n".join(body) + "\n" + tail + "\n"


def render_program(funcs, use_mod, calls, backend):
    """returns (files: name -> text, line number of every call statement in main.ddp)"""
    files = {}
    main = []
    if backend:
        files['aus.ddp'] = AUS_MODULE
        main.append('Binde "aus" ein.')
    if use_mod and any(f.module == 'mod' for f in funcs):
        mod = []
        if backend:
            mod.append('Binde "aus" ein.\n')
        for f in funcs:
            if f.module == 'mod':
                mod.append(render_func(f, backend))
        files['mod.ddp'] = "\n".join(mod)
        main.append('Binde "mod" ein.')
    main.append(TYPE_DECLS)
    for f in funcs:
        if f.struct:
            main.append(render_func(f, backend))
    main.append(VAR_DECLS)
    if any(f.gstruct for f in funcs):
        main.append('Der Zahl-Vektor2 vvz ist vek 1 2.\nDer Text-Vektor2 vvt ist vek "a" "b".')
    if any(f.struct and not f.gstruct for f in funcs):
        st = [f for f in funcs if f.struct and not f.gstruct][0]
        zero = [a for a in st.aliases if not any(t[0] == 'P' for t in a.pat)]
        if zero:
            main.append("Der Punkt vp ist %s." % zero[0].text)
        else:
            a = st.aliases[0]
            main.append("Der Punkt vp ist %s." % " ".join("1" if t[0] == 'P' else t[1] for t in a.pat))
    for f in funcs:
        if f.module == 'main' and not f.struct:
            main.append(render_func(f, backend))
    text = "\n".join(main) + "\n"
    lines = text.count("\n")
    call_lines = []
    out = [text]
    for c in calls:
        lines += 1
        call_lines.append(lines)
        out.append(c + ".\n")
        if backend:
            lines += 1
            out.append('XAUST "#\\n".\n')
    files['main.ddp'] = "".join(out)
    return files, call_lines


# =================================================================================================
# the oracle: the property statement, executed
# =================================================================================================
class Spec:
    def __init__(self, aliases, has_struct):
        self.aliases = aliases
        self.has_struct = has_struct
        self.has_gstruct = any(a.fn.gstruct for a in aliases)

    # ---- argument units ----
    def unit_end(self, toks, i):
        """one argument unit starting at token i: single literal/identifier | '-' token | balanced parentheses"""
        if i >= len(toks):
            return None
        c = toks[i][0]
        if c in ('INT', 'FLOAT', 'STRING', 'CHAR', 'BOOL', 'IDENT'):
            return i + 1
        if c == 'NEG':
            if i + 1 < len(toks) and toks[i + 1][0] in ('INT', 'FLOAT', 'IDENT'):
                return i + 2
            return None
        if c == 'LP':
            d, j = 1, i + 1
            while j < len(toks) and d > 0:
                if toks[j][0] == 'LP':
                    d += 1
                elif toks[j][0] == 'RP':
                    d -= 1
                j += 1
            if d > 0 or j >= len(toks):
                return None
            return j
        return None

    def unit_info(self, toks, i, j):
        """(type as expression | None, type as assignable | None, index-into-Text)"""
        text = " ".join(t[1] for t in toks[i:j]).replace("( ", "(").replace(" )", ")").replace("- ", "-")
        if text in FORMS:
            return FORMS[text][:3]
        if j - i == 1:
            c, s = toks[i][0], toks[i][1]
            if c == 'INT':
                return (Z, None, False)
            if c == 'FLOAT':
                return (K, None, False)
            if c == 'STRING':
                return (T, None, False)
            if c == 'CHAR':
                return (B, None, False)
            if c == 'BOOL':
                return (W, None, False)
            if c == 'IDENT':
                if s in VARS and (s != 'vp' or self.has_struct) and (s not in GSTRUCT_VARS or self.has_gstruct):
                    return (VARS[s][0], VARS[s][0], False)
                if getattr(self, 'void_unknown', False):
                    return (VOID, VOID, False)  # how the implementation sees an undeclared name (it is diagnosed later)
                return (None, None, False)     # not a variable: no type
        if toks[i][0] == 'NEG' and j - i == 2:
            inner = self.unit_info(toks, i + 1, j)
            if inner[0] in (Z, K):
                return (inner[0], None, False)
            return (None, None, False)
        if toks[i][0] == 'LP':
            # a parenthesised call: the type of what it resolves to
            r = self.resolve(toks[i + 1:j], 0)
            if r and r['kind'] == 'call' and r['end'] == j - i - 2:
                return (('B', r['alias'].fn.ret) if r['alias'].fn.ret != 'Zahl' else Z, None, False)
            inner = None
            if j - i == 3:
                inner = self.unit_info(toks, i + 1, j - 1)
                return (inner[0], inner[1] if toks[i + 1][0] == 'IDENT' else None, False)
        return (None, None, False)

    # ---- matching ----
    def match(self, pat, toks, i):
        """pattern at token i: (end, [(placeholder name, from, to)]) or None"""
        spans = []
        for p in pat:
            if p[0] == 'P':
                e = self.unit_end(toks, i)
                if e is None:
                    return None
                spans.append((p[1], i, e))
                i = e
            else:
                if i >= len(toks) or toks[i][0] != p[0]:
                    return None
                if p[0] in ('INT', 'FLOAT', 'STRING', 'CHAR', 'IDENT', 'KW', 'BOOL') and toks[i][1] != p[1]:
                    return None
                i += 1
        return i, spans

    @staticmethod
    def unify_types(par, arg, env):
        if par[0] == 'G':
            if par[1] in env:
                return env[par[1]] == arg
            env[par[1]] = arg
            return True
        if par[0] == 'L':
            return arg is not None and arg[0] == 'L' and Spec.unify_types(par[1], arg[1], env)
        if par[0] == 'I':
            return arg is not None and arg[0] == 'I' and arg[1] == par[1] and Spec.unify_types(par[2], arg[2], env)
        return par == arg

    def unify(self, par, arg, env):
        return Spec.unify_types(par, arg, env)

    def _unify_old(self, par, arg, env):
        if par[0] == 'G':
            if par[1] in env:
                return env[par[1]] == arg
            env[par[1]] = arg
            return True
        if par[0] == 'L':
            return arg is not None and arg[0] == 'L' and self.unify(par[1], arg[1], env)
        return par == arg

    def typed(self, a, toks, spans):
        env = {}
        for name, i, j in spans:
            p = a.fn.ptype(name)
            val, refty, textidx = self.unit_info(toks, i, j)
            if p[2]:
                if toks[i][0] not in ('IDENT', 'LP') or refty is None:
                    return False       # a Referenz needs something assignable
                if not self.unify(p[1], refty, env):
                    return False
                if textidx and (env.get(p[1][1]) if p[1][0] == 'G' else p[1]) == B:
                    return False       # a letter inside a Text cannot be referenced
            else:
                if val is None or not self.unify(p[1], val, env):
                    return False
        if a.fn.numeric_body:
            g = a.fn.ptype(a.fn.numeric_body)[1][1]
            if env.get(g) not in (Z, K):
                return False           # the generic function cannot be instantiated for this type
        return True

    def signature_typed(self, a, toks, spans):
        """typed() without the instantiability of the body"""
        nb, a.fn.numeric_body = a.fn.numeric_body, None
        try:
            return self.typed(a, toks, spans)
        finally:
            a.fn.numeric_body = nb

    @staticmethod
    def dominates(b, a):
        """b must be preferred to a according to the property"""
        lb, la = len(b.pat), len(a.pat)
        if lb != la:
            return lb > la
        gb, ga = b.fn.generic, a.fn.generic
        if gb != ga:
            return ga and not gb
        if b.fn.deep_generics() != a.fn.deep_generics():
            return False               # the property does not rank two generic declarations
        return b.fn.refs() > a.fn.refs()

    def resolve(self, toks, i):
        matching = []
        for a in self.aliases:
            m = self.match(a.pat, toks, i)
            if m:
                matching.append((a, m))
        if not matching:
            return None
        typed = [(a, m) for a, m in matching if self.typed(a, toks, m[1])]
        if not typed:
            return dict(kind='error', matching=[a for a, _ in matching])
        best = [(a, m) for a, m in typed if not any(self.dominates(b, a) for b, _ in typed)]
        a, m = best[0]
        return dict(kind='call', alias=a, end=m[0], best=best, typed=[x for x, _ in typed], matching=[x for x, _ in matching])


# =================================================================================================
# call sites
# =================================================================================================
def gen_calls(rng, aliases, n, clean, has_struct):
    vis = visible(aliases)
    calls = []
    targets = [a for a in vis if a.fn.module != 'aus' and not a.fn.gstruct]
    has_g = any(a.fn.gstruct for a in vis)
    if not targets:
        return calls
    for _ in range(n):
        if rng.random() < 0.03:
            calls.append(rng.choice(["vz plus 1", "5", '"s"', "(vz mal 2)", "vt"]))
            continue
        a = rng.choice(targets)
        env = {}
        parts = []
        for t in a.pat:
            if t[0] != 'P':
                parts.append(t[1])
                continue
            p = a.fn.ptype(t[1])
            want = p[1]
            # concrete type for a generic parameter
            if is_generic_type(want):
                g = gname_of(want)
                if g not in env:
                    under_list = any(q[1] == L(G(g)) for q in a.fn.params)
                    in_inst = any(q[1] == IV(G(g)) for q in a.fn.params)
                    env[g] = rng.choice([Z, T] if in_inst else [Z, T, B] if under_list else [Z, T, K, B, W, L(Z), L(T)])
                    if a.fn.numeric_body and a.fn.ptype(a.fn.numeric_body)[1] == G(g) and (clean or rng.random() < 0.5):
                        env[g] = Z if under_list else rng.choice([Z, K])
                want = subst_type(want, env)
                if want[0] == 'L' and want[1][0] == 'L':
                    want = want[1]
            mismatch = (not clean) and rng.random() < 0.12
            if mismatch:
                want = rng.choice([x for x in CONCRETE if x != want])
            pool = FORMS_BY_TYPE.get(want, [])
            if want == PUNKT and not has_struct:
                pool = []
            if want[0] == 'I' and not has_g:
                pool = []
            if p[2] and not mismatch and (clean or rng.random() < 0.85):
                pool = [f for f in pool if FORMS[f][1] is not None]
                if want == B and clean:
                    pool = [f for f in pool if not FORMS[f][2]]
            if not pool:
                pool = FORMS_BY_TYPE[Z]
            form = rng.choice(pool)
            # now and then a nested call as a parenthesised argument
            if want == Z and not p[2] and rng.random() < 0.06:
                inner = [b for b in targets if b.fn.ret == 'Zahl' and not b.fn.struct and len(b.pat) <= 3 and all(
                    (x[0] != 'P' or (b.fn.ptype(x[1])[1] in (Z, T) and not b.fn.ptype(x[1])[2])) for x in b.pat) and b.pat[0][0] != 'P']
                if inner:
                    b = rng.choice(inner)
                    form = "(" + " ".join((rng.choice(FORMS_BY_TYPE[b.fn.ptype(x[1])[1]][:2]) if x[0] == 'P' else x[1]) for x in b.pat) + ")"
            parts.append(form)
        if parts[0] in ('wahr', 'falsch'):
            parts[0] = 'vw'        # a statement must not begin with a lower-case keyword
        text = " ".join(parts).replace(" ,", ",")
        if not clean and rng.random() < 0.05:
            text += " " + rng.choice(["plus 1", "bar", "5"])
        calls.append(text)
    return calls




# =================================================================================================
# running the three judges
# =================================================================================================
def regen_tokens(b, ck):
    exe, lg = b.ensure_go("gentables")
    if not exe:
        ck.broken_obligation("translator gentables does not build against /repo", lg)
        return None
    out = subprocess.run([exe], capture_output=True, text=True).stdout
    path = os.path.join(vlib.COQ, "Gen", "Tokens.v")
    old = open(path).read() if os.path.exists(path) else ""
    if out != old and out.strip():
        log("[gen] Gen/Tokens.v changed -> rebuilding dependants")
        open(path, "w").write(out)
    tt = {}
    for l in out.splitlines():
        if l.startswith("Definition tt_"):
            tt[l.split()[1][3:]] = int(l.split(":=")[1].strip(" ."))
    return tt


def regen_alias_args(ck, tt):
    """translator: the token lists that delimit an argument unit in parser.alias (key generator) and in checkAlias are
    re-extracted from /repo/src/parser/alias.go into coq/Gen/AliasArgs.v on every run"""
    try:
        src = open(os.path.join(vlib.REPO, "src", "parser", "alias.go")).read()
        ttsrc = open(os.path.join(vlib.REPO, "src", "token", "token_types.go")).read()
    except OSError as e:
        ck.broken_obligation("translator: cannot read alias.go / token_types.go: %r" % (e,), "")
        return False
    block = ttsrc[ttsrc.index("const ("):]
    block = block[:block.index("\n)")]
    ords = {}
    n = 0
    for l in block.splitlines()[1:]:
        l = l.split("//")[0].strip()
        if not l:
            continue
        ords[l.split()[0]] = n
        n += 1
    for k, v in (tt or {}).items():
        if ords.get(k) != v:
            ck.broken_obligation("translator: token ordinal of %s read from token_types.go (%s) differs from gentables (%s)" % (k, ords.get(k), v), "")
            return False
    body = src[src.index("func (p *parser) alias()"):src.index("func sortAliases")]
    chk = src[src.index("func (p *parser) checkAlias("):src.index("func (p *parser) InstantiateGenericFunction")]
    pats = dict(
        single_match=(body, r"case ([^:]+):\s*p\.advance\(\)\s*return tok, true\s*case token\.NEGATE"),
        neg_match=(body, r"case token\.NEGATE:\s*p\.advance\(\)\s*if !p\.matchAny\(([^)]*)\) \{\s*return nil, false"),
        single_check=(chk, r"case ([^:]+):\s*p\.advance\(\) // single-token argument\s*case token\.NEGATE"),
        neg_check=(chk, r"case token\.NEGATE:\s*p\.advance\(\)\s*p\.matchAny\(([^)]*)\)\s*case token\.LPAREN"),
        ref_start=(chk, r"typeSensitive && paramType\.IsReference((?: && pType != token\.[A-Z_]+)+) \{"),
    )
    lists = {}
    for name, (text, rx) in pats.items():
        m = re.search(rx, text)
        if not m:
            ck.broken_obligation("translator: the argument-unit token list '%s' is no longer found in alias.go where the model expects it; Select.v may not cover the code any more" % name, "")
            return False
        names = re.findall(r"token\.([A-Z_]+)", m.group(1))
        if any(x not in ords for x in names) or not names:
            ck.broken_obligation("translator: unknown token names %s in alias.go" % names, "")
            return False
        lists[name] = names
    out = ["(* GENERATED by checks/c09.py (regen_alias_args) from /repo/src/parser/alias.go on every run. Do not edit.",
           "   The token types at which parser.alias (key generator: the lists named match) and checkAlias (the lists named check) let an argument unit start. *)",
           "From Coq Require Import List NArith.", "Import ListNotations.", "Open Scope N_scope."]
    for name in ("single_match", "neg_match", "single_check", "neg_check", "ref_start"):
        out.append("Definition arg_%s : list N := [%s]. (* %s *)" % (name, "; ".join(str(ords[x]) for x in lists[name]), ", ".join(lists[name])))
    text = "\n".join(out) + "\n"
    path = os.path.join(vlib.COQ, "Gen", "AliasArgs.v")
    old = open(path).read() if os.path.exists(path) else ""
    if text != old:
        log("[gen] Gen/AliasArgs.v changed -> rebuilding dependants")
        open(path, "w").write(text)
    ck.cov["regenerated"] = dict(file="coq/Gen/AliasArgs.v", lists=lists)
    return True


class Prog:
    pass


def make_program(rng, idx, clean, backend, ncalls):
    p = Prog()
    p.idx, p.clean, p.backend = idx, clean, backend
    p.has_struct = rng.random() < 0.3
    funcs, p.use_mod = gen_population(rng, p.has_struct, clean, want_g=rng.random() < 0.25)
    if backend:
        funcs = aus_funcs() + funcs
    p.aliases = build_aliases(funcs, p.use_mod)
    p.funcs = funcs
    p.has_struct = any(f.struct for f in funcs)
    p.calls = gen_calls(rng, p.aliases, ncalls, clean, p.has_struct)
    if backend:
        sp = Spec(visible(p.aliases), p.has_struct)
        wrapped = []
        for c in p.calls:
            st = spec_tokens(c + ".")
            r = sp.resolve(st, 0)
            if r and r['kind'] == 'call' and all(a.fn.ret == 'Wahrheitswert' for a, _ in r['best']) and r['end'] == len(st) - 1:   # on a tie every admissible callee must be a Wahrheitswert
                c = "XAUSW (" + c + ")"
            wrapped.append(c)
        p.calls = wrapped
    p.files, p.call_lines = render_program(funcs, p.use_mod, p.calls, backend)
    p.spec = Spec(visible(p.aliases), p.has_struct)
    return p


def ty_json(t):
    return ['L', ty_json(t[1])] if t[0] == 'L' else ['I', t[1], ty_json(t[2])] if t[0] == 'I' else list(t)


def ty_unjson(t):
    return ('L', ty_unjson(t[1])) if t[0] == 'L' else ('I', t[1], ty_unjson(t[2])) if t[0] == 'I' else (t[0], t[1])


def prog_to_json(p):
    return dict(backend=getattr(p, 'backend', False), use_mod=p.use_mod, calls=p.calls,
                funcs=[dict(name=f.name, params=[[q[0], ty_json(q[1]), q[2], q[3]] for q in f.params], aliases=list(getattr(f, 'raw_kept', f.raw_aliases)),
                            generic=f.generic, ret=f.ret, public=f.public, module=f.module, struct=f.struct, numeric_body=f.numeric_body, gstruct=f.gstruct, extra_body=f.extra_body) for f in p.funcs])


def prog_from_json(j, idx):
    p = Prog()
    p.idx, p.clean, p.backend = idx, False, j.get("backend", False)
    p.use_mod = j["use_mod"]
    p.funcs = [Func(f["name"], [(q[0], ty_unjson(q[1]), q[2], q[3]) for q in f["params"]], f["aliases"], generic=f["generic"], ret=f["ret"],
                    public=f["public"], module=f["module"], struct=f["struct"]) for f in j["funcs"]]
    for f, jf in zip(p.funcs, j["funcs"]):
        f.numeric_body = jf.get("numeric_body")
        f.gstruct = bool(jf.get("gstruct"))
        f.extra_body = list(jf.get("extra_body") or [])
    p.aliases = build_aliases(p.funcs, p.use_mod)
    p.has_struct = any(f.struct for f in p.funcs)
    p.calls = list(j["calls"])
    p.files, p.call_lines = render_program(p.funcs, p.use_mod, p.calls, p.backend)
    p.spec = Spec(visible(p.aliases), p.has_struct)
    return p


def make_instantiation_program(rng, idx):
    """family 'resolution is stable across generic instantiations': module H (mod.ddp) declares generic functions and,
    visible at their declaration, a function under the alias key K; the main module declares ITS OWN function under
    the same key K (H's is private) and/or a longer alias of which K is a strict prefix, and uses K before and after
    it instantiates H's generic functions (also nested, also failing instantiations). The aliases visible in the main
    module never change through an instantiation."""
    p = Prog()
    p.idx, p.clean, p.backend = idx, False, False
    w, w2, gw, gw2, gw3 = rng.sample(WORDS, 5)
    kt = rng.choice([Z, T])
    kform = {Z: ["5", "vz", "(vz plus 1)"], T: ['"s"', "vt"]}[kt]
    kpat = rng.choice(["%s <z>" % w, "%s mit <z>" % w, "%s <z> %s" % (w, w2)])
    ktext = lambda: kpat.replace("<z>", rng.choice(kform))
    variant = rng.choice(["same", "same", "prefix", "both", "public"])
    funcs = []
    hk = Func("hwert", [('z', kt, False, None)], [kpat], module='mod', public=(variant == "public"))
    funcs.append(hk)
    g1 = Func("hgen", [('a', G('T'), False, None)], ["%s <a>" % gw], generic=True, module='mod', public=True)
    if rng.random() < 0.6:
        g1.extra_body = ["(%s)." % kpat.replace("<z>", kform[0])]       # the body uses H's own K
    funcs.append(g1)
    g2 = Func("hgen2", [('a', G('T'), False, None)], ["%s <a>" % gw2], generic=True, module='mod', public=True)
    g2.extra_body = ["(%s a)." % gw]                                        # nested instantiation of hgen
    funcs.append(g2)
    g3 = Func("hnum", [('a', G('T'), False, None)], ["%s <a>" % gw3], generic=True, module='mod', public=True)
    g3.numeric_body = 'a'                                                    # instantiable for numbers only
    funcs.append(g3)
    if variant in ("same", "both"):
        funcs.append(Func("mwert", [('z', kt, False, None)], [kpat]))
    if variant in ("prefix", "both", "public"):
        funcs.append(Func("mlang", [('z', kt, False, None)], [kpat + " " + rng.choice(["lang", "mit nim"])]))
    funcs.append(Func("mfix", [], ["%s fest" % w]))
    p.use_mod = True
    p.funcs = funcs
    p.aliases = build_aliases(funcs, True)
    p.has_struct = False
    longer = [a.text for a in p.aliases if a.fn.name == "mlang"]
    insts = ["%s 2" % gw, '%s "s"' % gw, "%s vk" % gw2, "%s vzl" % gw, "%s 7" % gw3, '%s "t"' % gw3, "%s vt" % gw2, "%s 1,5" % gw3]
    calls = [ktext()]
    if longer:
        calls.append(longer[0].replace("<z>", rng.choice(kform)))
    for _ in range(rng.randint(3, 6)):
        calls.append(rng.choice(insts))
        calls.append(ktext())
        if longer and rng.random() < 0.6:
            calls.append(longer[0].replace("<z>", rng.choice(kform)))
        if rng.random() < 0.3:
            calls.append("%s fest" % w)
    p.calls = calls
    p.files, p.call_lines = render_program(funcs, True, p.calls, False)
    p.spec = Spec(visible(p.aliases), False)
    return p


def write_program(p, root):
    p.dir = os.path.join(root, "p%d" % p.idx)
    os.makedirs(p.dir, exist_ok=True)
    for k, v in p.files.items():
        with open(os.path.join(p.dir, k), "w") as fh:
            fh.write(v)


def callx_batch(exe, reqs, ddppath):
    env = dict(os.environ, DDPPATH=ddppath)
    inp = "\n".join(json.dumps(r) for r in reqs) + "\n"
    pr = subprocess.run([exe], input=inp, capture_output=True, text=True, env=env, timeout=900)
    out = {}
    for l in pr.stdout.splitlines():
        try:
            r = json.loads(l)
            out[r["id"]] = r
        except ValueError:
            pass
    return out, pr


def group_end(toks, i):
    """index one past the last token of the stream a call at token i sees: through the ')' that closes the
    innermost group around i, else through the end of the statement"""
    stack = []
    for j, t in enumerate(toks[:i]):
        if t[0] == 'LP':
            stack.append(j)
        elif t[0] == 'RP' and stack:
            stack.pop()
    if not stack:
        return len(toks)
    d = 0
    for j in range(stack[-1], len(toks)):
        if toks[j][0] == 'LP':
            d += 1
        elif toks[j][0] == 'RP':
            d -= 1
            if d == 0:
                return j + 1
    return len(toks)


def strip_parens(toks, i, j):
    while j - i >= 2 and toks[i][0] == 'LP' and toks[j - 1][0] == 'RP':
        d, ok = 0, True
        for k in range(i, j):
            if toks[k][0] == 'LP':
                d += 1
            elif toks[k][0] == 'RP':
                d -= 1
                if d == 0 and k != j - 1:
                    ok = False
                    break
        if not ok:
            break
        i, j = i + 1, j - 1
    return i, j


def fn_key(f):
    return (f.name, f.module)


def identity(a, toks, spans, end):
    return (fn_key(a.fn), a.neg, frozenset((n,) + strip_parens(toks, i, j) for n, i, j in spans), end)


def col_to_tok(gtoks, col):
    for k, t in enumerate(gtoks):
        if t["c"] == col:
            return k
    return None


def range_to_span(gtoks, sc, ec):
    idx = [k for k, t in enumerate(gtoks) if t["c"] >= sc and t["e"] <= ec and t["t"] != 1]
    if not idx:
        return None
    return idx[0], idx[-1] + 1


def impl_identity(p, call, gtoks, stoks):
    """the implementation's answer in the oracle's vocabulary"""
    mod = {'main.ddp': 'main', 'mod.ddp': 'mod', 'aus.ddp': 'aus'}.get(os.path.basename(call.get("mod", "")), '?')
    name = call.get("generic") or call["fn"]
    spans = set()
    for n, a in (call.get("args") or {}).items():
        sp = range_to_span(gtoks, a["sc"], a["ec"]) if a["sl"] == a["el"] else None
        if sp is None:
            spans.add((n, -1, -1))
        else:
            spans.add((n,) + strip_parens(stoks, sp[0], sp[1]))
    endsp = range_to_span(gtoks, call["col"], call["ec"])
    return ((name, mod), bool(call["neg"]), frozenset(spans), endsp[1] if endsp else -1)


class ModelIO:
    def __init__(self, tt):
        self.tt = tt
        self.lines = []
        self.sites = {}

    def population(self, p, alias_toks, type_names):
        self.lines.append("POP")
        self.tokid = {}
        self.tyids = {}
        self.keyids = {}
        self.ntok = 0
        names = sorted(set(type_names.values()))
        for a in visible(p.aliases):
            gt = alias_toks[a.aid]
            ids = []
            for t in gt:
                if t["t"] == self.tt["EOF"]:
                    continue
                if t["t"] == self.tt["ALIAS_PARAMETER"]:
                    nm = t["l"].strip("<>")
                    prm = a.fn.ptype(nm)
                    self.ntok += 1
                    tid = self.ntok
                    tname = type_names.get((fn_key(a.fn), nm))
                    rank = names.index(tname) + 1 if tname in names else 0
                    self.lines.append("P %d %s %d %d %d %d" % (tid, nm.encode().hex(), 1 if prm[2] else 0, 1 if prm[1][0] == 'L' else 0, rank,
                                                              self.keyids.setdefault(prm[1], len(self.keyids) + 1)))
                    ids.append(tid)
                else:
                    ids.append(self.plain(t))
            ps = " ".join("%s:%s:%d" % (q[0].encode().hex(), ty_model(q[1], self.tyids), 1 if q[2] else 0) for q in a.fn.params)
            self.lines.append("A %d %d %d %d ; %s ; %s" % (a.aid, a.fn.tag, 1 if a.neg else 0, 1 if a.fn.generic else 0, " ".join(map(str, ids)), ps))
            if a.fn.numeric_body:
                g = a.fn.ptype(a.fn.numeric_body)[1]
                self.lines.append("NB %d %s %s %s" % (a.aid, ty_model(g, self.tyids)[1:], ty_model(Z, self.tyids)[1:], ty_model(K, self.tyids)[1:]))

    def plain(self, t):
        k = (t["t"], t["l"])
        if k not in self.tokid:
            self.ntok += 1
            self.tokid[k] = self.ntok
            self.lines.append("T %d %d %s" % (self.ntok, t["t"], t["l"].encode().hex() or "-"))
        return self.tokid[k]

    def site(self, cid, p, gtoks, stoks, i, end):
        ids = [self.plain(t) for t in gtoks[i:end]]
        sub = stoks[i:end]
        args = []
        for j in range(len(sub)):
            ue = p.spec.unit_end(sub, j)
            # the implementation's checkAlias scans a unit without the end-of-stream test; the model needs the
            # table only where a candidate can place a placeholder, i.e. where the trie matched
            if ue is None:
                continue
            val, ref, tx = p.spec.unit_info(sub, j, ue)
            c = sub[j][0]
            unknown_ident = (c == 'IDENT' and ue == j + 1 and val is None) or \
                            (c == 'LP' and ue == j + 3 and sub[j + 1][0] == 'IDENT' and val is None and p.spec.unit_info(sub, j + 1, j + 2)[0] is None)
            if unknown_ident:
                val = ref = VOID      # an undeclared name evaluates to 'nichts' without a diagnostic (EvaluateSilent)
            v = ty_model(val, self.tyids) if val is not None else "-"
            r = ty_model(ref, self.tyids) if (ref is not None and c in ('IDENT', 'LP')) else "-"
            args.append("%d:%s:%s:%d" % (j, v, r, 1 if tx else 0))
        fails = []
        self.lines.append("C %s 0 %s ; %s ; %s ; %s" % (cid, ty_model(B, self.tyids), " ".join(map(str, ids)), " ".join(args), " ".join(map(str, fails))))


def parse_model(out):
    res = {}
    for l in out.splitlines():
        if not l.startswith("R "):
            continue
        parts = [x.strip() for x in l.split(";")]
        h = parts[0].split()
        binds = {}
        for b in parts[1].split():
            n, v = b.split("=")
            r, f, t = v.split(":")
            binds[bytes.fromhex(n).decode()] = (int(f), int(t))
        cands = [(int(x.split(":")[0]), x.split(":")[1] == "1") for x in parts[2].split()]
        mx = [int(x) for x in parts[3].split()]
        top = [int(x) for x in parts[4].split()] if len(parts) > 4 else []
        res[h[1]] = dict(kind=h[2], aid=None if h[3] == "-" else int(h[3]), neg=h[4] == "1", end=None if h[5] == "-" else int(h[5]),
                         binds=binds, cands=cands, maxset=mx, top=top)
    return res


def replay_of(p, k, extra=None, key=None):
    if key and CTX.get('shrink') and extra and 'token' in extra and key not in CTX.setdefault('shrunk', set()):
        CTX['shrunk'].add(key)
        CTX['shrink'] = False
        try:
            rp = reduced_replay(p, k, extra['token'], key)
        finally:
            CTX['shrink'] = True
        if rp:
            return rp
    d = dict(files=p.files, call=p.calls[k] + ".", line=p.call_lines[k], program=prog_to_json(p), how="write the files into one directory; echo '{\"id\":\"x\",\"file\":\"<dir>/main.ddp\"}' | DDPPATH=.cache/<hash> .cache/<hash>/go-*/callx")
    if extra:
        d.update(extra)
    return d


def describe(a):
    return "%s%s \"%s\" (%s)" % ("NOT " if a.neg else "", a.fn.name, a.text,
                                 ", ".join("%s: %s" % (q[0], type_text(q[1], q[2])) for q in a.fn.params) + (", generisch" if a.fn.generic else ""))


CTX = {}


class Collector:
    """stands in for Check while a reduced program is re-judged"""
    def __init__(self):
        self.keys = []
        self.cov = dict(samples=[])
        self.violations, self.known_hit = [], {}

    def violation(self, key, what, replay, no_input=False):
        self.keys.append((key, what, replay))
        return True

    def nontrivial(self, key):
        pass

    def count(self, n=1):
        pass

    def sample(self, s, cap=0):
        pass


def judge_program_only_impl(col, p):
    """parse one program with the real parser and judge every call site against the oracle (no model)"""
    resp, _ = callx_batch(CTX['callx'], [dict(id="p", file=os.path.join(p.dir, "main.ddp"), decls=True),
                                           dict(id="s", scan=[c + "." for c in p.calls], scan_alias=[])], CTX['ddppath'])
    pr, sr = resp.get("p"), resp.get("s")
    if not pr or not sr or pr.get("panic"):
        return
    calls_by_line, errs_by_line = {}, {}
    for c in pr.get("calls") or []:
        calls_by_line.setdefault(c["line"], []).append(c)
    for d in pr.get("diags") or []:
        if d["level"] == 2:
            errs_by_line.setdefault(d["line"], []).append((d["code"], d["msg"][:80]))
    stats = dict.fromkeys(['sites', 'nomatch', 'untyped', 'typed', 'multi', 'multi_typed', 'dominated', 'exact', 'tie', 'tie_same_as_stable'], 0)
    for k, text in enumerate(p.calls):
        gt = [t for t in sr["scans"][k] if t["t"] != 1]
        st = spec_tokens(text + ".")
        if len(gt) != len(st):
            continue
        line = p.call_lines[k]
        sites = {0} | {col_to_tok(gt, c["col"]) for c in calls_by_line.get(line, [])}
        for ti in sorted(x for x in sites if x is not None):
            ic = [c for c in calls_by_line.get(line, []) if col_to_tok(gt, c["col"]) == ti]
            judge_site(col, p, k, ti, gt, st, ic[0] if ic else None, None, errs_by_line.get(line, []), stats)
    mine = [x for x in CTX.get('pending', []) if x[0] is p]
    CTX['pending'] = [x for x in CTX.get('pending', []) if x[0] is not p]
    for (_, k, key, what) in mine:
        if (p.idx, k) not in CTX.get('flagged', set()):
            col.violation(key, what, replay_of(p, k))


def reduced_replay(p, k, i, key):
    """drop every function that has no alias matching at this call site and every other call; keep the reduction if
    the same violation is still observed on the real parser"""
    try:
        st = spec_tokens(p.calls[k] + ".")
        r = p.spec.resolve(st[:group_end(st, i)], i)
        keep = {id(a.fn) for a in (r or {}).get('matching', [])} if r else set()
        q = Prog()
        q.idx, q.clean, q.backend = -1 - p.idx, p.clean, False
        q.funcs = [f for f in p.funcs if id(f) in keep or (f.struct and not f.gstruct and 'vp' in p.calls[k]) or (f.gstruct and any(v in p.calls[k] for v in GSTRUCT_VARS))]
        if not q.funcs:
            return None
        q.use_mod = any(f.module == 'mod' for f in q.funcs)
        saved = [(f, f.raw_aliases, getattr(f, 'raw_kept', None), getattr(f, 'aliases', None), f.tag) for f in q.funcs]
        import copy
        q.funcs = [copy.copy(f) for f in q.funcs]
        for f in q.funcs:
            f.raw_aliases = list(f.raw_kept)
        q.aliases = build_aliases(q.funcs, q.use_mod)
        q.has_struct = any(f.struct for f in q.funcs)
        q.calls = [p.calls[k]]
        q.files, q.call_lines = render_program(q.funcs, q.use_mod, q.calls, False)
        q.spec = Spec(visible(q.aliases), q.has_struct)
        q.dir = os.path.join(CTX['root'], "shrink%d_%d" % (p.idx, k))
        os.makedirs(q.dir, exist_ok=True)
        for fn, v in q.files.items():
            open(os.path.join(q.dir, fn), "w").write(v)
        col = Collector()
        judge_program_only_impl(col, q)
        for kk, what, rp in col.keys:
            if kk == key:
                rp['what'] = what
                rp['reduced_from'] = "program p%d" % p.idx
                return rp
    except Exception as e:     # the reduction is a convenience; never let it hide the original finding
        log("[shrink] failed: %r" % (e,))
    return None


def typed_if_undeclared_is_void(p, a, sub, i):
    """the chosen alias only 'type-matches' because an argument is an undeclared name (bound to a type parameter as
    'nichts'); the program is rejected with a diagnostic, which is all the property can ask of an ill-typed call"""
    p.spec.void_unknown = True
    try:
        mm = p.spec.match(a.pat, sub, i)
        return bool(mm) and p.spec.typed(a, sub, mm[1])
    finally:
        p.spec.void_unknown = False


def code_less(b, a):
    """sortAliases as it is written (length, number of parameters whose type contains a type parameter, Referenz count)"""
    if len(b.pat) != len(a.pat):
        return len(b.pat) > len(a.pat)
    if b.fn.deep_generics() != a.fn.deep_generics():
        return b.fn.deep_generics() < a.fn.deep_generics()
    return b.fn.refs() > a.fn.refs()


def flagv(ck, p, k, key, what, replay):
    """a violation at statement k of program p (also when it is a known finding): later legs skip that statement"""
    CTX.setdefault('flagged', set()).add((p.idx, k))
    return ck.violation(key, what, replay)


def judge_site(ck, p, k, i, gtoks, stoks, impl_call, m, errs_on_line, stats):
    """one call site: implementation vs property (oracle) and vs model"""
    end = group_end(stoks, i)
    sub = stoks[:end]
    r = p.spec.resolve(sub, i)
    site = "p%d line %d token %d" % (p.idx, p.call_lines[k], i)
    stats['sites'] += 1
    by_aid = {a.aid: a for a in p.aliases}
    # ---------------- implementation against the property ----------------
    if r is None:
        stats['nomatch'] += 1
        if impl_call is not None:
            flagv(ck, p, k, "resolve call-without-matching-alias", "%s: a call to %s was built although no alias matches here" % (site, impl_call["fn"]), replay_of(p, k, dict(token=i), key="resolve call-without-matching-alias"))
        if m and m["kind"] != "NONE":
            return "model finds candidates %s where the oracle finds none (%s)" % (m["cands"], site)
        return None
    if r['kind'] == 'error':
        stats['untyped'] += 1
        if not errs_on_line:
            flagv(ck, p, k, "resolve no-type-match-accepted", "%s: no alias type-matches (%s match by tokens) but no error was reported" % (site, len(r['matching'])), replay_of(p, k, dict(token=i), key="resolve no-type-match-accepted"))
        if m:
            if m["kind"] == "SEL":
                # the implementation may "type-match" an undeclared name against a type parameter (see typed_if_undeclared_is_void)
                return model_vs_impl(p, i, sub, stoks, gtoks, impl_call, m, by_aid, stats, site)
            if m["kind"] not in ("FB", "GERR"):
                return "model %s where no candidate type-matches for the oracle (%s)" % (m["kind"], site)
            if m["kind"] == "GERR" and impl_call is not None:
                return "model: generic error without a call, implementation built a call to %s (%s)" % (impl_call["fn"], site)
            if m["kind"] == "FB" and impl_call is not None:
                iid = impl_identity(p, impl_call, gtoks, stoks)
                tops = [by_aid[x] for x in m["top"] if x in by_aid]
                if not any(fn_key(a.fn) == iid[0] and a.neg == iid[1] for a in tops):
                    return "fallback: implementation called %s, model's first candidates are %s (%s)" % (iid[0], [describe(a) for a in tops], site)
        return None
    stats['typed'] += 1
    if any(a.fn.numeric_body and a not in r['typed'] and p.spec.signature_typed(a, sub, p.spec.match(a.pat, sub, i)[1]) for a in r['matching']):
        stats['uninstantiable_skipped'] = stats.get('uninstantiable_skipped', 0) + 1
    best_ids = set()
    for a, mm in r['best']:
        best_ids.add(identity(a, stoks, [(n, x, y) for n, x, y in mm[1]], mm[0]))
    nontriv = len(r['matching']) >= 2
    if nontriv:
        ck.nontrivial((tuple(sorted(a.key() for a in r['matching'])), tuple(t[:2] for t in sub[i:])))
        stats['multi'] += 1
    if len(r['typed']) >= 2:
        stats['multi_typed'] += 1
    if impl_call is None:
        flagv(ck, p, k, "resolve call-missing", "%s: the property selects %s but no call was built" % (site, describe(r['alias'])), replay_of(p, k, dict(token=i), key="resolve call-missing"))
        return None
    iid = impl_identity(p, impl_call, gtoks, stoks)
    if iid not in best_ids:
        # which alias did it take?
        chosen = None
        for a in r['matching']:
            mm = p.spec.match(a.pat, sub, i)
            if identity(a, stoks, mm[1], mm[0]) == iid:
                chosen = a
        if chosen is None:
            kind = None
            for a in r['matching']:
                if fn_key(a.fn) != iid[0]:
                    continue
                mm = p.spec.match(a.pat, sub, i)
                x = identity(a, stoks, mm[1], mm[0])
                if x[2] == iid[2] and x[3] == iid[3] and x[1] != iid[1]:
                    kind = ("negation", a)
                    break
                if x[1] == iid[1] and x[2] == iid[2] and x[3] != iid[3]:
                    kind = kind or ("extent", a)
                elif x[1] == iid[1] and x[3] == iid[3] and {q[1:] for q in x[2]} == {q[1:] for q in iid[2]}:
                    kind = kind or ("binding", a)
            if kind and kind[0] == "negation":
                key = "resolve negation-lost fn=%s" % iid[0][0]
                flagv(ck, p, k, key, "%s: the alias %s was used but the call is %snegated" % (site, describe(kind[1]), "" if iid[1] else "not "), replay_of(p, k, dict(token=i), key=key))
            elif kind and kind[0] == "binding":
                key = "resolve binding-not-by-name fn=%s" % iid[0][0]
                flagv(ck, p, k, key, "%s: %s was called through %s but its arguments are bound %s" % (site, iid[0][0], describe(kind[1]), sorted(iid[2])), replay_of(p, k, dict(token=i), key=key))
            elif kind and kind[0] == "extent":
                key = "resolve call-extent fn=%s" % iid[0][0]
                flagv(ck, p, k, key, "%s: %s was called through %s but the call ends at token %d" % (site, iid[0][0], describe(kind[1]), iid[3]), replay_of(p, k, dict(token=i), key=key))
            else:
                hidden = [f for f in p.funcs if fn_key(f) == iid[0] and f.module != 'main' and not f.public]
                if hidden:
                    flagv(ck, p, k, "resolve invisible-function-called", "%s: called %s of module %s, which is not public and was never imported here (aliases visible in a module must not change, e.g. through a generic instantiation)" % (site, iid[0][0], iid[0][1]), replay_of(p, k, dict(token=i)))
                else:
                    flagv(ck, p, k, "resolve unknown-target", "%s: called %s (negated=%s) with arguments %s, not an alias that matches here" % (site, iid[0], iid[1], sorted(iid[2])), replay_of(p, k, dict(token=i), key="resolve unknown-target"))
        elif chosen not in r['typed'] and errs_on_line and typed_if_undeclared_is_void(p, chosen, sub, i):
            stats['undeclared_argument_rejected'] = stats.get('undeclared_argument_rejected', 0) + 1
        elif chosen not in r['typed']:
            flagv(ck, p, k, "resolve type-mismatched-choice", "%s: chose %s whose parameter types do not equal the argument types; expected one of %s" % (
                site, describe(chosen), [describe(a) for a, _ in r['best']]), replay_of(p, k, dict(token=i), key="resolve type-mismatched-choice"))
        else:
            doms = [b for b in r['typed'] if Spec.dominates(b, chosen)]
            code_max = not any(code_less(b, chosen) for b in r['typed'])
            cause = "maximal-for-the-sort-key" if code_max else "other"
            why = "longer" if any(len(b.pat) > len(chosen.pat) for b in doms) else ("non-generic" if any(not b.fn.generic for b in doms) and chosen.fn.generic else "more-Referenz")
            flagv(ck, p, k, "resolve dominated-choice cause=%s" % cause,
                         "%s: chose %s although %s also matches and type-matches and must be preferred (%s)" % (site, describe(chosen), describe(doms[0]), why),
                         replay_of(p, k, dict(token=i, chosen=describe(chosen), preferred=describe(doms[0])), key="resolve dominated-choice cause=%s" % cause))
            stats['dominated'] += 1
    elif r['end'] == len(sub) - 1 and end == len(stoks) and i == 0 and errs_on_line:
        CTX.setdefault('pending', []).append((p, k, "resolve error-on-valid-call", "%s: the call resolves for the property but diagnostics were reported: %s" % (site, errs_on_line[:2])))
    # ---------------- implementation against the model ----------------
    if m is None:
        return None
    if m["kind"] != "SEL":
        if iid in best_ids:
            return "model %s, implementation and oracle select %s (%s)" % (m["kind"], iid[0], site)
        return None
    return model_vs_impl(p, i, sub, stoks, gtoks, impl_call, m, by_aid, stats, site)


def model_vs_impl(p, i, sub, stoks, gtoks, impl_call, m, by_aid, stats, site):
    """the model selected an alias: exact agreement when its maximal set is a singleton, membership otherwise"""
    if impl_call is None:
        return "model selects alias %s, the implementation built no call (%s)" % (m["aid"], site)
    iid = impl_identity(p, impl_call, gtoks, stoks)
    mset = [by_aid[x] for x in m["maxset"] if x in by_aid]
    mids = set()
    for a in mset:
        mm = p.spec.match(a.pat, sub, i)
        if mm:
            mids.add(identity(a, stoks, mm[1], mm[0]))
    ma = by_aid.get(m["aid"])
    if ma is not None:
        mid = (fn_key(ma.fn), ma.neg, frozenset((n,) + strip_parens(stoks, i + f, i + t) for n, (f, t) in m["binds"].items()), i + (m["end"] if m["end"] is not None else -i - 1))
    else:
        mid = None
    if len(m["maxset"]) == 1:
        stats['exact'] += 1
        if mid != iid:
            return "model selects %s with %s, implementation %s with %s (%s)" % (describe(ma) if ma else m["aid"], sorted(mid[2]) if mid else None, iid[0], sorted(iid[2]), site)
    else:
        stats['tie'] += 1
        if iid not in mids:
            return "implementation's choice %s is not in the model's maximal set %s (%s)" % (iid[0], [describe(a) for a in mset], site)
        if mid == iid:
            stats['tie_same_as_stable'] += 1
    return None


def check_decls(ck, p, resp, alias_toks, stats):
    """declarations.go: every alias text (negation markers expanded as the property reads them) is what the parser
    registered, with the Negated flag"""
    dumped = {}
    for d in resp.get("decls") or []:
        dumped[(d["name"], {'main.ddp': 'main', 'mod.ddp': 'mod', 'aus.ddp': 'aus'}.get(os.path.basename(d["mod"]), '?'))] = d
    for f in p.funcs:
        if f.struct:
            continue
        d = dumped.get(fn_key(f))
        if d is None:
            if f.module == 'main' or f.public:
                ck.violation("decl missing fn=%s" % f.name, "p%d: function %s was not declared" % (p.idx, f.name), dict(files=p.files))
            continue
        if bool(d.get("generic")) != (f.deep_generics() > 0):
            ck.violation("decl generic-flag fn=%s" % f.name, "p%d: %s is %sgeneric for the parser but its parameter types %s a type parameter" % (
                p.idx, f.name, "" if d.get("generic") else "not ", "mention" if f.deep_generics() else "do not mention"), dict(files=p.files))
        got = [(tuple((t["t"], t["l"]) for t in a["toks"] if t["t"] != 1), a["neg"]) for a in d["aliases"]]
        want = []
        for a in f.aliases:
            if a.aid in alias_toks:
                want.append((tuple((t["t"], t["l"]) for t in alias_toks[a.aid] if t["t"] != 1), a.neg))
        stats['decl_aliases'] += len(want)
        if f.module != 'main' and not f.public:
            continue
        if sorted(got) != sorted(want):
            ck.violation("decl alias-set fn=%s" % f.name, "p%d: %s declares aliases %s, the property reads %s" % (p.idx, f.name, got, want), dict(files=p.files))


def gen_programs(ck, nprog, ncalls, backend):
    rng = ck.rng
    progs = []
    for i in range(nprog):
        clean = backend or rng.random() < 0.6
        progs.append(make_program(rng, (100000 if backend else 0) + i, clean, backend, ncalls))
    return progs


def alias_leg(ck, b, tt, callx, model, root, progs):
    for p in progs:
        write_program(p, root)
    reqs = []
    for p in progs:
        reqs.append(dict(id="p%d" % p.idx, file=os.path.join(p.dir, "main.ddp"), decls=True))
        reqs.append(dict(id="s%d" % p.idx, scan=[c + "." for c in p.calls], scan_alias=[a.text for a in p.aliases]))
    # shard over the cores
    shards = [reqs[j::vlib.NCPU] for j in range(vlib.NCPU)]
    shards = [[r for r in reqs if (int(r["id"][1:]) % vlib.NCPU) == j] for j in range(vlib.NCPU)]
    outs = vlib.pmap(lambda sh: callx_batch(callx, sh, b.dir)[0] if sh else {}, shards)
    resp = {}
    for o in outs:
        resp.update(o)
    stats = dict(sites=0, nomatch=0, untyped=0, typed=0, multi=0, multi_typed=0, dominated=0, exact=0, tie=0, tie_same_as_stable=0, decl_aliases=0,
                 programs=0, calls=0, harness_errors=0, negated_selected=0, struct_selected=0, generic_selected=0, imported_selected=0, ref_selected=0)
    mio = ModelIO(tt)
    todo = []
    for p in progs:
        pr, sr = resp.get("p%d" % p.idx), resp.get("s%d" % p.idx)
        if pr is None or sr is None or pr.get("panic") or pr.get("nil_module"):
            ck.violation("frontend crash or no answer", "p%d: callx gave %s" % (p.idx, (pr or {}).get("panic") or "no answer"), dict(files=p.files))
            continue
        scans = sr["scans"]
        ncall = len(p.calls)
        alias_toks = {a.aid: scans[ncall + j] for j, a in enumerate(p.aliases)}
        type_names = {}
        for d in pr.get("decls") or []:
            modk = {'main.ddp': 'main', 'mod.ddp': 'mod', 'aus.ddp': 'aus'}.get(os.path.basename(d["mod"]), '?')
            for q in d["params"] or []:
                type_names[((d["name"], modk), q["name"])] = q["type"]
        for f in p.funcs:
            if f.struct:
                for q in f.params:
                    type_names[(fn_key(f), q[0])] = "T" if f.gstruct else "Zahl"
        stats['programs'] += 1
        # a clean program must be accepted outright: otherwise the generator, not the compiler, is at fault
        check_decls(ck, p, pr, alias_toks, stats)
        mio.population(p, alias_toks, type_names)
        calls_by_line = {}
        for c in pr.get("calls") or []:
            calls_by_line.setdefault(c["line"], []).append(c)
        errs_by_line = {}
        for d in pr.get("diags") or []:
            if d["level"] == 2:
                errs_by_line.setdefault(d["line"], []).append((d["code"], d["msg"][:80]))
        if p.call_lines and any(l < p.call_lines[0] for l in errs_by_line):
            stats['programs_with_declaration_errors'] = stats.get('programs_with_declaration_errors', 0) + 1
        for k, text in enumerate(p.calls):
            gt = [t for t in scans[k] if t["t"] != 1]
            st = spec_tokens(text + ".")
            if len(gt) != len(st) or any(g["l"] != s[1] or (s[0] == 'IDENT') != (g["t"] == tt["IDENTIFIER"]) for g, s in zip(gt, st)):
                stats['harness_errors'] += 1      # the oracle's tokeniser and the real scanner disagree: generator bug, not a finding
                continue
            line = p.call_lines[k]
            sites = {0}
            for c in calls_by_line.get(line, []):
                ti = col_to_tok(gt, c["col"])
                if ti is not None:
                    sites.add(ti)
            for ti in sorted(sites):
                cid = "p%d:%d:%d" % (p.idx, k, ti)
                mio.site(cid, p, gt, st, ti, group_end(st, ti))
                ic = [c for c in calls_by_line.get(line, []) if col_to_tok(gt, c["col"]) == ti]
                todo.append((p, k, ti, gt, st, ic[0] if ic else None, cid, errs_by_line.get(line, [])))
            stats['calls'] += 1
    mp = subprocess.run([model], input="\n".join(mio.lines) + "\n", capture_output=True, text=True, timeout=900)
    if mp.returncode != 0:
        ck.broken_obligation("extracted model driver failed: " + mp.stderr[-500:], mp.stderr)
        return progs, stats
    mres = parse_model(mp.stdout)
    mismatches = [l for l in mp.stdout.splitlines() if l.startswith("E ")][:1]
    for (p, k, ti, gt, st, ic, cid, errs) in todo:
        m = mres.get(cid)
        if m is None:
            mismatches.append("model gave no answer for %s" % cid)
            continue
        ck.count()
        before = len(ck.violations) + len(ck.known_hit)
        mm = judge_site(ck, p, k, ti, gt, st, ic, m, errs, stats)
        if mm:
            mismatches.append((mm, p, k))
        if m["kind"] == "SEL" and ic is not None:
            a = {x.aid: x for x in p.aliases}.get(m["aid"])
            if a is not None:
                stats['negated_selected'] += a.neg
                stats['struct_selected'] += a.fn.struct
                stats['generic_selected'] += a.fn.generic
                stats['imported_selected'] += a.fn.module == 'mod'
                stats['ref_selected'] += a.fn.refs() > 0
        if len(ck.cov["samples"]) < 4 and m["kind"] == "SEL" and len(m["cands"]) >= 3:
            ck.sample(dict(call=p.calls[k] + ".", candidates=[describe({x.aid: x for x in p.aliases}[c]) + (" [types ok]" if ok else "") for c, ok in m["cands"]],
                           implementation=(ic or {}).get("fn"), model=m["aid"], bound={n: v["text"] for n, v in ((ic or {}).get("args") or {}).items()}))
    for (p, k, key, what) in CTX.pop('pending', []):
        if (p.idx, k) not in CTX.get('flagged', set()):
            ck.violation(key, what, replay_of(p, k))
    if mismatches:
        first = mismatches[0]
        if isinstance(first, tuple):
            ck.broken_obligation("correspondence Select.v vs parser.alias fails at %d call sites; first: %s" % (len(mismatches), first[0]),
                                 json.dumps(dict(call=first[1].calls[first[2]] + ".", program=prog_to_json(first[1])), ensure_ascii=False)[-1900:])
        else:
            ck.broken_obligation("correspondence: " + str(first), "")
    return progs, stats


# =================================================================================================
# operator overloads
# =================================================================================================
OPERATORS = [("plus", "binary", "{0} plus {1}"), ("minus", "binary", "{0} minus {1}"), ("mal", "binary", "{0} mal {1}"),
             ("Betrag", "unary", "der Betrag von {0}"), ("unäres minus", "unary", "-{0}"), ("als", "cast", "{0} als {1}")]
OPERAND_FORMS = {   # type -> [(text, assignable)]
    Z: [("vz", True), ("(vz)", True), ("5", False), ("vy", True)],
    T: [("vt", True), ("(vt)", True), ('"s"', False)],
    K: [("vk", True), ("2,5", False)],
    B: [("vb", True), ("'x'", False)],
    PUNKT: [("vp", True), ("(vp)", True), ("(punkt 1 2)", False)],
    KREIS: [("vq", True), ("(vq)", True), ("(kreis 3)", False)],
    KENNUNG: [("vd", True), ("(vd)", True)],
    L(Z): [("vzl", True)],
}
RET_TEXT = {Z: "eine Zahl", T: "einen Text", K: "eine Kommazahl", PUNKT: "einen Punkt", B: "einen Buchstaben", KENNUNG: "eine Kennung"}
RET_VALUE = {Z: "1", T: '"r"', K: "1,5", PUNKT: "punkt 1 2", B: "'r'", KENNUNG: "(1 als Kennung)"}
CAST_NAME = {Z: "Zahl", T: "Text", K: "Kommazahl", PUNKT: "Punkt", B: "Buchstabe", KENNUNG: "Kennung"}


class ODecl:
    def __init__(self, oid, op, params, generic, ret):
        self.oid, self.op, self.params, self.generic, self.ret = oid, op, params, generic, ret   # params [(name, type, ref)]
        self.name = "o%d" % oid

    def refs(self):
        return sum(1 for p in self.params if p[2])

    def deep(self):
        return sum(1 for p in self.params if is_generic_type(p[1]))


def oparams_dup(a, b):
    """operatorParameterTypesEqual: the language's notion of 'already overloaded'"""
    if len(a) != len(b):
        return False
    for p, q in zip(a, b):
        g1, g2 = is_generic_type(p[1]), is_generic_type(q[1])
        if g1 or g2:
            if not (g1 and g2 and p[2] == q[2]):
                return False
        elif p[1] != q[1] or p[2] != q[2]:
            return False
    return True


def gen_overload_program(rng, idx):
    p = Prog()
    p.idx = idx
    ops = rng.sample(OPERATORS, rng.randint(1, 3))
    decls = []
    oid = 0
    pool = [Z, T, K, B, PUNKT, KREIS, KENNUNG, L(Z)]
    for (op, kind, _) in ops:
        n = rng.randint(2, 6)
        arity = 2 if kind == "binary" else 1
        made = []
        tries = 0
        if kind == "binary" and rng.random() < 0.6:
            # several generic overloads of one operator that share a type-parameter name: each candidate must be
            # unified from scratch
            s1, s2 = rng.sample([PUNKT, KREIS], 2)
            pair = rng.choice([
                [[G('T'), Z], [G('R'), G('T')]],
                [[G('T'), s1], [s1, G('T')]],
                [[G('T'), T], [G('R'), G('T')]],
                [[s1, G('T')], [G('T'), G('R')]],
                [[G('T'), L(Z)], [G('T'), s2], [s1, G('T')]],
            ])
            for tys in pair:
                oid += 1
                made.append(ODecl(oid, op, [("ab"[i], t, False) for i, t in enumerate(tys)], True, rng.choice([Z, T])))
        while len(made) < n and tries < 40:
            tries += 1
            generic = rng.random() < 0.25
            params = []
            base = made and rng.random() < 0.6 and rng.choice(made) or None
            for i in range(arity):
                if base is not None and rng.random() < 0.7:
                    t = base.params[i][1]            # same types, other Referenz pattern
                    if is_generic_type(t) != generic:
                        t = rng.choice(pool)
                elif generic and (i == 0 or rng.random() < 0.5):
                    gn = rng.choice(['T', 'T', 'R'])
                    t = rng.choice([G(gn), G(gn), L(G(gn))])
                else:
                    t = rng.choice(pool)
                params.append(("ab"[i], t, rng.random() < 0.35))
            generic = any(is_generic_type(q[1]) for q in params)
            if kind == "cast":
                ret = rng.choice([Z, T, PUNKT, K])
            else:
                ret = rng.choice([Z, T])
            decl_params = list(params)
            d = ODecl(oid + 1, op, params, generic, ret)
            if any(oparams_dup(x.params, d.params) and (kind != "cast" or x.ret == d.ret) for x in made):
                continue
            oid += 1
            made.append(d)
        decls += made
    p.odecls = decls
    # sites
    sites = []
    for _ in range(18):
        op, kind, fmt = rng.choice(ops)
        cands = [d for d in decls if d.op == op]
        if cands and rng.random() < 0.8:
            d = rng.choice(cands)
            env = {}
            tys = []
            for q in d.params:
                t = q[1]
                if is_generic_type(t):
                    gn = gname_of(t)
                    if gn not in env:
                        env[gn] = rng.choice([PUNKT, KREIS, PUNKT, KREIS, Z, T]) if t[0] == 'G' else Z
                    t = subst_type(t, env)
                if t not in OPERAND_FORMS or rng.random() < 0.1:
                    t = rng.choice([Z, T, K, B, PUNKT, KREIS])
                tys.append(t)
        else:
            tys = [rng.choice([Z, T, K, B, PUNKT, KREIS, PUNKT, KREIS, KENNUNG]) for _ in range(2 if kind == "binary" else 1)]
        forms = [rng.choice(OPERAND_FORMS[t]) for t in tys]
        if kind == "unary" and op == "unäres minus" and forms[0][0][0].isdigit():
            forms[0] = OPERAND_FORMS[tys[0]][0]
        target = None
        if kind == "cast":
            target = rng.choice([d.ret for d in cands] + [T]) if cands else T
            text = "(" + fmt.format(forms[0][0], CAST_NAME[target]) + ")"
        else:
            text = "(" + fmt.format(*[f[0] for f in forms]) + ")"
        sites.append(dict(op=op, kind=kind, text=text, operands=list(zip(tys, [f[1] for f in forms], [f[0] for f in forms])), target=target))
    p.osites = sites
    # render
    out = [TYPE_DECLS, """Wir nennen die Kombination aus
	der Zahl x mit Standardwert 0,
	der Zahl y mit Standardwert 0,
einen Punkt, und erstellen sie so:
	"punkt <x> <y>"
""", """Wir nennen die Kombination aus
	der Zahl r mit Standardwert 0,
einen Kreis, und erstellen sie so:
	"kreis <r>"
"""]
    for d in decls:
        # declaration order of the parameters = operand order (operators are positional)
        ps = d.params
        head = "Die %sFunktion %s" % ("generische " if d.generic else "", d.name)
        if len(ps) == 1:
            head += " mit dem Parameter %s vom Typ %s," % (ps[0][0], type_text(ps[0][1], ps[0][2]))
        else:
            head += " mit den Parametern %s und %s vom Typ %s und %s," % (ps[0][0], ps[1][0], type_text(ps[0][1], ps[0][2]), type_text(ps[1][1], ps[1][2]))
        head += " gibt %s zurück, macht:\n\tGib %s zurück.\nUnd überlädt den \"%s\" Operator.\n" % (RET_TEXT[d.ret], RET_VALUE[d.ret], d.op)
        out.append(head)
    out.append(VAR_DECLS + "Der Punkt vp ist punkt 1 2.\nDer Kreis vq ist kreis 3.\n")
    text = "\n".join(out)
    n = text.count("\n")
    p.site_lines = []
    for st in sites:
        n += 1
        p.site_lines.append(n)
        text += st["text"] + ".\n"
    p.files = {"main.ddp": text}
    return p


def spec_overload(decls, st):
    """the property: exact operand types; Referenz only for assignables; generic overloads only for user-defined
    operand types; non-generic before generic, then more Referenz parameters; built-in otherwise"""
    fitting = []
    user = any((t[1] if t[0] == 'L' else t) in (PUNKT, KREIS) for t, _, _ in st["operands"])
    for d in decls:
        if d.op != st["op"] or len(d.params) != len(st["operands"]):
            continue
        env = {}
        ok = True
        for q, (t, asg, _) in zip(d.params, st["operands"]):
            if not Spec.unify_types(q[1], t, env):
                ok = False
                break
            if q[2] and not asg:
                ok = False
                break
        if ok and d.generic and not user:
            ok = False
        if ok and st["target"] is not None and d.ret != st["target"]:
            ok = False
        if ok:
            fitting.append(d)

    def dominates(b, a):
        if b.generic != a.generic:
            return a.generic
        if b.deep() != a.deep():
            return False
        return b.refs() > a.refs()
    return [d for d in fitting if not any(dominates(b, d) for b in fitting)], fitting


def overload_leg(ck, b, callx, model, root, nprog):
    rng = ck.rng
    progs = [gen_overload_program(rng, 5000 + i) for i in range(nprog)]
    for p in progs:
        write_program(p, root)
    reqs = [dict(id="p%d" % p.idx, file=os.path.join(p.dir, "main.ddp")) for p in progs]
    shards = [[r for r in reqs if (int(r["id"][1:]) % vlib.NCPU) == j] for j in range(vlib.NCPU)]
    outs = vlib.pmap(lambda sh: callx_batch(callx, sh, b.dir)[0] if sh else {}, shards)
    resp = {}
    for o in outs:
        resp.update(o)
    stats = dict(programs=0, sites=0, overloaded=0, builtin=0, ref_overload=0, generic_overload=0, several_fit=0, tables=0, table_entries=0)
    lines = []
    todo = []
    for p in progs:
        pr = resp.get("p%d" % p.idx)
        if pr is None or pr.get("panic") or pr.get("nil_module"):
            ck.violation("frontend crash or no answer (overloads)", "p%d: %s" % (p.idx, (pr or {}).get("panic") or "no answer"), dict(files=p.files))
            continue
        stats['programs'] += 1
        errs = [d for d in pr.get("diags") or [] if d["level"] == 2 and d["line"] < p.site_lines[0]]
        if errs:
            ck.violation("overload declaration rejected", "p%d: a well-formed overload declaration was rejected: %s" % (p.idx, errs[0]["msg"]), dict(files=p.files))
            continue
        tyids = {}
        for op in sorted({d.op for d in p.odecls}):
            ds = [d for d in p.odecls if d.op == op]
            lines.append("OT %d" % (1 if op == "als" else 0))
            for d in ds:
                lines.append("OD %d %d %s ; %s" % (d.oid, 1 if d.generic else 0, ty_model(d.ret, tyids),
                                                    " ".join("%s:%s:%d" % (q[0].encode().hex(), ty_model(q[1], tyids), 1 if q[2] else 0) for q in d.params)))
            tab_impl = (pr.get("optab") or {}).get(op, [])
            todo.append(("T", p, op, tab_impl, len(ds)))
            stats['tables'] += 1
            stats['table_entries'] += len(ds)
            for k, st in enumerate(p.osites):
                if st["op"] != op:
                    continue
                cid = "p%d:%d" % (p.idx, k)
                lines.append("OF %s %s ; %s ; %s ; " % (cid, ty_model(st["target"], tyids) if st["target"] else "-",
                                                       " ".join("%s:%d" % (ty_model(t, tyids), 1 if a else 0) for t, a, _ in st["operands"]),
                                                       ty_model(PUNKT, tyids)[1:] + " " + ty_model(KREIS, tyids)[1:]))
                io = [o for o in pr.get("ops") or [] if o["line"] == p.site_lines[k] and o["col"] == 2 and o["kind"] == st["kind"]]
                todo.append(("S", p, k, io[0] if io else None, cid))
    mp = subprocess.run([model], input="\n".join(lines) + "\n", capture_output=True, text=True, timeout=900)
    if mp.returncode != 0:
        ck.broken_obligation("extracted model driver failed (overloads): " + mp.stderr[-500:], mp.stderr)
        return stats
    mtab, msite = [], {}
    for l in mp.stdout.splitlines():
        if l.startswith("OI "):
            mtab.append(l)
        elif l.startswith("OR "):
            f = l.split(";")[0].split()
            binds = {}
            if ";" in l:
                for x in l.split(";")[1].split():
                    n, v = x.split("=")
                    binds[bytes.fromhex(n).decode()] = int(v)
            msite[f[1]] = (f[2], int(f[3]) if f[2] == "OV" else None, binds)
    mismatches = []
    ti = 0
    for item in todo:
        if item[0] == "T":
            _, p, op, tab_impl, n = item
            last = mtab[ti + n - 1]
            ti += n
            order = [int(x) for x in last.split(";")[1].split()]
            if ["o%d" % x for x in order] != tab_impl:
                mismatches.append(("overload table of '%s': implementation %s, model %s" % (op, tab_impl, order), p))
            # the property: references are prioritised, generic overloads come last
            byname = {d.name: d for d in p.odecls}
            seq = [byname[x] for x in tab_impl if x in byname]
            for x, y in zip(seq, seq[1:]):
                if (x.deep(), -x.refs()) > (y.deep(), -y.refs()):
                    ck.violation("overload table order op=%s" % op, "p%d: %s stands before %s in the table of '%s'" % (p.idx, x.name, y.name, op), dict(files=p.files))
            continue
        _, p, k, io, cid = item
        st = p.osites[k]
        ck.count()
        stats['sites'] += 1
        best, fitting = spec_overload(p.odecls, st)
        stats['several_fit'] += len(fitting) >= 2
        if len([d for d in p.odecls if d.op == st["op"]]) >= 2:
            ck.nontrivial(("ov", st["op"], tuple(sorted((d.deep(), d.refs(), tuple(q[1:] for q in d.params)) for d in p.odecls if d.op == st["op"])), tuple(x[:2] for x in st["operands"]), st["target"]))
        if io is None:
            mismatches.append(("no operator expression found at p%d line %d (%s)" % (p.idx, p.site_lines[k], st["text"]), p))
            continue
        got = io.get("ogeneric") or io.get("overload")
        rp = dict(files=p.files, site=st["text"] + ".", line=p.site_lines[k])
        if not fitting:
            stats['builtin'] += 1
            if got:
                ck.violation("overload chosen-without-exact-types op=%s" % st["op"], "p%d: '%s' is overloaded by %s but no overload has exactly the operand types %s" % (
                    p.idx, st["text"], got, [(type_text(t, False), "assignable" if a else "value") for t, a, _ in st["operands"]]), rp)
        else:
            stats['overloaded'] += 1
            if not got:
                ck.violation("overload ignored op=%s" % st["op"], "p%d: '%s' has the built-in meaning although %s fits exactly" % (p.idx, st["text"], best[0].name), rp)
            elif got not in [d.name for d in best]:
                ck.violation("overload dominated-choice op=%s" % st["op"], "p%d: '%s' is overloaded by %s, the property prefers %s" % (p.idx, st["text"], got, [d.name for d in best]), rp)
            else:
                d = [x for x in best if x.name == got][0]
                stats['ref_overload'] += d.refs() > 0
                stats['generic_overload'] += d.generic
                for q, (t, a, txt) in zip(d.params, st["operands"]):
                    arg = (io.get("oargs") or {}).get(q[0])
                    if arg is None or arg["text"].strip("() ") != txt.strip("() "):
                        ck.violation("overload argument binding op=%s" % st["op"], "p%d: '%s': parameter %s of %s holds %s, operand is %s" % (p.idx, st["text"], q[0], got, arg and arg["text"], txt), rp)
        m = msite.get(cid)
        if m is None:
            mismatches.append(("model gave no answer for " + cid, p))
        elif m[0] == "PANIC":
            mismatches.append(("model: index out of range for " + st["text"], p))
        elif (m[0] == "OV") != bool(got) or (m[0] == "OV" and "o%d" % m[1] != got):
            mismatches.append(("'%s': implementation %s, model %s" % (st["text"], got or "built-in", m[1] if m[0] == "OV" else "built-in"), p))
        elif m[0] == "OV":
            d = [x for x in p.odecls if x.oid == m[1]][0]
            for q in d.params:
                arg = (io.get("oargs") or {}).get(q[0])
                if arg is None or arg["text"].strip("() ") != st["operands"][m[2][q[0]]][2].strip("() "):
                    mismatches.append(("'%s': argument map differs for %s" % (st["text"], q[0]), p))
    if mismatches:
        ck.broken_obligation("correspondence Overload.v vs insertOperatorOverload/findOverload fails at %d points; first: %s" % (len(mismatches), mismatches[0][0]),
                             json.dumps(dict(files=mismatches[0][1].files), ensure_ascii=False)[:6000])
    return stats


# =================================================================================================
# backend: which body runs, with which arguments
# =================================================================================================
def expected_lines(p, toks, i, end):
    """what the program must print for the call at token i: (set of acceptable outermost lines, nested lines, value)"""
    sub = toks[:end]
    r = p.spec.resolve(sub, i)
    if not r or r['kind'] != 'call':
        return None
    alts = []
    for a, mm in r['best']:
        nested = []
        vals = {}
        ok = True
        for name, x, y in mm[1]:
            prm = a.fn.ptype(name)
            text = " ".join(t[1] for t in sub[x:y]).replace("( ", "(").replace(" )", ")").replace("- ", "-")
            if text in FORMS:
                v = FORMS[text][3]
            elif y - x == 1 and sub[x][0] in ('INT', 'FLOAT', 'BOOL'):
                v = sub[x][1]
            elif y - x == 1 and sub[x][0] in ('STRING', 'CHAR'):
                v = sub[x][1][1:-1]
            elif sub[x][0] == 'LP':
                inner = expected_lines(p, sub[:y - 1], x + 1, y - 1)
                if inner is None or len(inner[0]) != 1:
                    ok = False
                    break
                (ln, nst, val), = inner[0]
                nested += list(nst) + ([ln] if ln is not None else [])
                v = val
            else:
                v = None
            vals[name] = v if (prm[1] in PRINTERS and v is not None) else "?"
            if prm[1] in PRINTERS and v is None:
                ok = False
        if not ok:
            return None
        if a.fn.struct:
            alts.append((None, tuple(nested), None))
        elif a.fn.module == 'aus':
            alts.append((None, tuple(nested), None))
        else:
            line = "%s(%s)" % (a.fn.name, ";".join("%s=%s" % (n, vals[n]) for n in sorted(vals)))
            val = ("falsch" if a.neg else "wahr") if a.fn.ret == 'Wahrheitswert' else str(a.fn.tag)
            alts.append((line, tuple(nested), val))
    return set(alts), r


def backend_leg(ck, b, tt, callx, model, root, nprog, budget_s):
    progs, stats = alias_leg(ck, b, tt, callx, model, root, gen_programs(ck, nprog, 14, True))
    bstats = dict(programs=0, compiled=0, statements=0, lines_checked=0, skipped_programs=0, negated_values=0, not_run_for_time=0)
    t_start = vlib.time.time()

    def build_run(p):
        exe = os.path.join(p.dir, "prog")
        c = b.compile(os.path.join(p.dir, "main.ddp"), exe, opt=p.idx % 3, cwd=p.dir)
        if c["stage"] != "ok":
            return p, c, None
        rc, out, err = b.run(exe, cwd=p.dir)
        return p, c, (rc, out.decode("utf-8", "replace"), err.decode("utf-8", "replace"))

    results = []
    for j in range(0, len(progs), vlib.NCPU):
        if j and vlib.time.time() - t_start > budget_s:
            bstats['not_run_for_time'] = len(progs) - j
            break
        results += vlib.pmap(build_run, progs[j:j + vlib.NCPU])
    for p, c, run in results:
        bstats['programs'] += 1
        exp = []
        clean = True
        for k, text in enumerate(p.calls):
            st = spec_tokens(text + ".")
            if p.spec.resolve(st, 0) is None:
                exp.append({(None, (), None)})      # no alias here: the statement prints nothing
                continue
            if text.startswith("XAUSW ("):
                e = expected_lines(p, st, 2, len(st) - 1)
                if e is None or e[1]['end'] != len(st) - 2:
                    clean = False
                    break
            else:
                e = expected_lines(p, st, 0, len(st))
                if e is None or e[1]['end'] != len(st) - 1:
                    clean = False
                    break
            exp.append(e[0])
        if not clean:
            bstats['skipped_programs'] += 1
            continue
        if c["stage"] != "ok":
            # the frontend leg has already judged this program; a program it accepts must compile
            if not any(d for d in ()):
                ck.violation("backend compile-failed stage=%s" % c["stage"], "p%d: a program whose calls all resolve does not compile: %s" % (p.idx, c["out"][-300:]), dict(files=p.files, opt=p.idx % 3))
            continue
        bstats['compiled'] += 1
        rc, out, err = run
        segs = out.split("#\n")
        if rc != 0 or len(segs) != len(p.calls) + 1:
            ck.violation("backend run-failed", "p%d: exit %s, %d of %d statements printed their marker; stderr %s" % (p.idx, rc, len(segs) - 1, len(p.calls), err[-200:]), dict(files=p.files, opt=p.idx % 3, stdout=out[-2000:]))
            continue
        for k, alts in enumerate(exp):
            if (p.idx, k) in CTX.get('flagged', set()):
                bstats['flagged_by_frontend'] = bstats.get('flagged_by_frontend', 0) + 1
                continue
            bstats['statements'] += 1
            seg = segs[k]
            ok = False
            for line, nested, val in alts:
                want_lines = sorted(nested) + ([line] if line else [])
                got = seg.split("\n")
                tail_v = got[-1]
                body = got[:-1]
                if sorted(body[:-1] if line else body) == sorted(nested) and (not line or (body and body[-1] == line)):
                    if p.calls[k].startswith("XAUSW ("):
                        if tail_v == val:
                            ok = True
                            bstats['negated_values'] += val == "falsch"
                    elif tail_v == "":
                        ok = True
            bstats['lines_checked'] += len(seg.split("\n")) - 1
            if not ok:
                first = sorted(alts, key=str)[0]
                ck.violation("backend wrong-body-or-arguments", "p%d -O%d: '%s.' printed %r, the property expects %r" % (p.idx, p.idx % 3, p.calls[k], seg, [a for a in alts][:2]),
                             dict(files=p.files, opt=p.idx % 3, statement=p.calls[k] + ".", printed=seg, expected=[list(map(str, a)) for a in alts]))
    return stats, bstats


def marker_leg(ck, model, progs):
    """declarations.go 431-459 against Select.expand_marker and the property's reading, on the raw alias literals"""
    raws = []
    for p in progs:
        for f in p.funcs:
            if not f.struct:
                raws += ['"%s"' % r for r in f.raw_kept]
    raws += ['"x <!nicht> y"', '"<!kein> <a> da"', '"<a> <!un>gleich <b>"', '"ohne marker <a>"', '"<a> mag <!nicht <b>"', '"a <!x> b <!y> c"', '"<!>leer"']
    raws = sorted(set(raws))
    mp = subprocess.run([model], input="\n".join("M " + r.encode().hex() for r in raws) + "\n", capture_output=True, text=True, timeout=300)
    outs = [l for l in mp.stdout.splitlines() if l.startswith("M")]
    bad = 0
    for r, o in zip(raws, outs):
        inner = r[1:-1]
        m = re.search(r'<!([^>]*)>', inner)
        if "<!" in inner and not m:
            want = None                                   # unterminated marker: nothing is declared
        else:
            want = [('"%s"' % t, n) for t, n in expand_marker_spec(inner)]
        got = None if o == "M !" else [(bytes.fromhex(x.split(":")[0]).decode(), x.split(":")[1] == "1") for x in o.split()[1:]]
        if got != want:
            bad += 1
            ck.broken_obligation("expand_marker(%s) = %s in the model, the property reads %s" % (r, got, want), "")
    return dict(literals=len(raws), with_marker=sum(1 for r in raws if "<!" in r), disagreements=bad)


def load_corpus():
    d = os.path.join(vlib.VERIF, "corpus", PID)
    out = []
    if os.path.isdir(d):
        for n, f in enumerate(sorted(os.listdir(d))):
            if f.endswith(".json"):
                try:
                    j = json.load(open(os.path.join(d, f)))
                    out.append(prog_from_json(j["program"], 900000 + n))
                except Exception as e:
                    log("[corpus] %s unreadable: %r" % (f, e))
    return out


def persist_corpus(ck):
    import hashlib
    if os.environ.get("C09_NO_PERSIST") == "1":
        return
    d = os.path.join(vlib.VERIF, "corpus", PID)
    for key, what, replay, no_input in ck.violations:
        if isinstance(replay, dict) and "program" in replay and len(replay["program"].get("calls", [])) <= 3:
            os.makedirs(d, exist_ok=True)
            blob = json.dumps(replay["program"], sort_keys=True, ensure_ascii=False)
            path = os.path.join(d, hashlib.sha1(blob.encode()).hexdigest()[:12] + ".json")
            if not os.path.exists(path):
                with open(path, "w") as fh:
                    json.dump(dict(key=key, what=what, program=replay["program"]), fh, indent=1, ensure_ascii=False)


def replay_mode(ck, b, tt, callx, model, root, path):
    j = json.load(open(path))
    rp = j.get("replay", j)
    if "program" in rp:
        p = prog_from_json(rp["program"], 1)
        progs, stats = alias_leg(ck, b, tt, callx, model, root, [p])
        ck.cov["replay"] = dict(path=path, stats=stats)
        log("[replay] %s: %d call sites judged, %d violation(s)" % (path, stats['sites'], len(ck.violations) + len(ck.known_hit)))
    elif "files" in rp:
        d = os.path.join(root, "replay")
        os.makedirs(d, exist_ok=True)
        for k, v in rp["files"].items():
            open(os.path.join(d, k), "w").write(v)
        resp, _ = callx_batch(callx, [dict(id="r", file=os.path.join(d, "main.ddp"))], b.dir)
        r = resp.get("r", {})
        line = rp.get("line")
        print(json.dumps(dict(calls=[c for c in r.get("calls") or [] if line is None or c["line"] == line],
                              ops=[o for o in r.get("ops") or [] if line is None or o["line"] == line],
                              diags=[x for x in r.get("diags") or [] if line is None or x["line"] == line]), ensure_ascii=False, indent=1))
        ck.cov["replay"] = dict(path=path, note="no structured program in this replay: the implementation's answer is printed, compare with 'what'")
    # a replay does not rewrite the evidence of the property
    for kkey, (kf, what) in ck.known_hit.items():
        print("KNOWN-FINDING: property=%s %s" % (PID, kf.get("what", what)))
    for what, lg in getattr(ck, "_broken", []):
        print("VIOLATION property=%s replay=%s no-failing-input-found" % (PID, path))
        log("  -> " + what)
    for key, what, rp, no_input in ck.violations:
        print("VIOLATION property=%s replay=%s" % (PID, path))
        log("  -> %s: %s" % (key, what))
    sys.stdout.flush()
    sys.exit(1 if (ck.violations or getattr(ck, "_broken", [])) else 0)


def main():
    ck = Check(PID, "proof")
    b = Build()
    ck.cov["trusted_base"] = vlib.TRUSTED_COMMON + [
        "hook-free: the harness callx uses only exported API (parser.Parse, ast.VisitModule, scanner.Scan/ScanAlias, module.Operators)",
        "argument typing (argParser + EvaluateSilent), 'index into a Text' and generic instantiation success are parameters of the model; the check supplies them from the generator's own knowledge of the generated argument forms (all instantiations succeed)",
        "the cursor memo start_indices of parser.alias is modelled as a cursor carried along the trie path; the argument cache (cached_args) as a function of (position, parsed-as-assignable): validated by the correspondence, not proved",
        "sort.Slice and slices.BinarySearchFunc are taken at their documented contracts (a permutation sorted w.r.t. a strict weak order; the insertion index in a sorted slice); sortedness and the strict-weak-order property are proved",
        "placeholder key abstraction (IsReference, IsList, rank of the printed underlying type, identity) as in C20; ranks come from the real String() values of every run",
        "types are modelled as base | list | type parameter; generic Kombinationen, Variable and Byte parameters are outside the generated populations",
        "Python oracle (class Spec, spec_overload) = the property statement; kddp + gcc + runtime for the backend leg",
    ]
    tt = regen_tokens(b, ck)
    regen_alias_args(ck, tt)
    if os.environ.get("C09_NOCOQ") != "1":
        ck.coq()
        # the extracted driver follows the (possibly regenerated) model
        mk = subprocess.run(["flock", os.path.join(vlib.COQ, ".make.lock"), "make", "--no-print-directory", "-C", os.path.join(vlib.VERIF, "extract"), "_build/c09"],
                            capture_output=True, text=True, timeout=600)
        if mk.returncode != 0:
            ck.broken_obligation("extracted model driver does not build: " + (mk.stdout + mk.stderr)[-400:], mk.stdout + mk.stderr)
    skip_backend = os.environ.get("C09_SKIP_BACKEND") == "1"     # for mutation runs of frontend mechanisms only
    ok, lg = (True, "") if skip_backend else b.ensure_native()
    callx, lg2 = b.ensure_go("callx")
    model = vlib.model_bin("c09")
    if not ok or not callx:
        ck.violation("harness-build", "kddp/callx do not build against /repo: " + (lg + lg2)[-500:], dict(log=(lg + lg2)[-3000:]), no_input=True)
        ck.finish()
    if not os.path.exists(model) or tt is None:
        ck.broken_obligation("extracted model driver missing (make setup)", "")
        ck.finish()
    root = vlib.scratch()
    CTX.update(callx=callx, ddppath=b.dir, root=root, shrink=True)
    if ck.replay:
        replay_mode(ck, b, tt, callx, model, root, ck.replay)
    t0 = vlib.time.time()
    corpus = load_corpus()
    if corpus:
        _, cstats = alias_leg(ck, b, tt, callx, model, root, corpus)
        ck.cov["corpus"] = dict(entries=len(corpus), sites=cstats['sites'])
    nprog, ncalls = (110, 20) if ck.quick else (1500, 20)
    inst_progs = [make_instantiation_program(ck.rng, 200000 + i) for i in range(16 if ck.quick else 200)]
    _, istats = alias_leg(ck, b, tt, callx, model, root, inst_progs)
    ck.cov["instantiation_stability_leg"] = dict(programs=istats['programs'], sites=istats['sites'], typed=istats['typed'], no_alias=istats['nomatch'],
                                                 no_type_match=istats['untyped'], generic_selected=istats['generic_selected'], harness_errors=istats['harness_errors'],
                                                 declaration_errors=istats.get('programs_with_declaration_errors', 0))
    progs, stats = alias_leg(ck, b, tt, callx, model, root, gen_programs(ck, nprog, ncalls, False))
    log("[c09] alias leg %.1fs" % (vlib.time.time() - t0))
    ck.cov["alias_leg"] = stats
    ck.cov["marker_leg"] = marker_leg(ck, model, progs)
    ck.cov["overload_leg"] = overload_leg(ck, b, callx, model, root, 40 if ck.quick else 600)
    log("[c09] overload leg done %.1fs" % (vlib.time.time() - t0))
    if skip_backend:
        fstats = dict.fromkeys(stats, 0)
        bstats = dict(statements=0, skipped="C09_SKIP_BACKEND=1")
    else:
        fstats, bstats = backend_leg(ck, b, tt, callx, model, root, 6 if ck.quick else 320, 20 if ck.quick else 240)
    log("[c09] backend leg done %.1fs" % (vlib.time.time() - t0))
    ck.cov["backend_leg"] = dict(frontend=fstats, run=bstats)
    persist_corpus(ck)
    ck.cov["exhaustive"] = False
    ck.cov["rule"] = ("call sites = every position at which the oracle or the real parser starts a call in a generated statement (nested calls in parenthesised "
                      "arguments included); non-trivial = at least two declared aliases match the tokens there; distinct by (set of matching alias keys, token sequence). "
                      "Overload sites: non-trivial = the operator has at least two overloads; distinct by (table, operand types/assignability, target).")
    ck.cov["distribution"] = dict(
        call_sites=stats['sites'] + fstats['sites'], with_two_or_more_matching=stats['multi'] + fstats['multi'], with_two_or_more_type_matching=stats['multi_typed'] + fstats['multi_typed'],
        no_type_match=stats['untyped'], ties_in_model=stats['tie'] + fstats['tie'], selected_negated=stats['negated_selected'], selected_constructor=stats['struct_selected'],
        selected_generic=stats['generic_selected'], selected_imported=stats['imported_selected'], selected_with_referenz=stats['ref_selected'],
        overload_sites=ck.cov["overload_leg"].get('sites'), overloaded=ck.cov["overload_leg"].get('overloaded'), builtin=ck.cov["overload_leg"].get('builtin'),
        statements_executed=bstats['statements'])
    ck.finish("Props/C09.v: %d theorems (" % len(ck.cov.get("theorems", [])) + "select_maximal for every sorted permutation, by the sort key and in the property's wording, full; the defect of the pinned "
              "tree - nested generic parameters not counted - is repaired in /repo 3e80d99, its witness stays in the corpus); the extracted model, the real "
              "parser and a Python oracle of the property judge the same generated call sites, overload tables/sites and negation markers; a sample of the programs is compiled and run.")


if __name__ == "__main__":
    main()
