#!/usr/bin/env python3
"""C10 — modules expose exactly their public names and initialise once, in order.
Proof: coq/Props/C10.v over the Gallina model of the loader (parser.Parse / resolveModuleImport with the
nil placeholder), of import visibility (IterateImportedDecls + resolver + alias table), of the init calls the
code generator emits (VisitImportStmt + IterateModuleImports) and of their execution, and of the symbol names.
Tie: generated module graphs are written to scratch directories; the real frontend (harness parsex) and the
real compiler + executable are compared with the extracted model on the same graphs (diagnostic classes per
statement, complete output of the executable, names of the init symbols), and a small independent oracle
judges every observation directly against the property."""
import itertools
import json
import os
import re
import shutil
import subprocess
import sys

sys.path.insert(0, os.path.dirname(os.path.abspath(__file__)))
import vlib
from vlib import Check, Build, log

PID = "C10"

VALS = ["foo", "bar", "baz", "qux"]          # pool of the random generator
EXTRA = ["quux", "corge", "grault", "garply"]                     # only used by the exhaustive enumeration          # functions, variables, constants share these names
TYPES = ["Foo", "Bar"]
NAME_ID = {n: i + 1 for i, n in enumerate(VALS + TYPES + EXTRA)}
KINDS = {"f": "Funktion", "v": "Variable", "c": "Konstante", "t": "Typ"}


# ------------------------------------------------------------------------------------------------
# cases.  A case = dict(id, root, mods={rel: [stmt]}, shape).  rel = path below the case directory without
# ".ddp".  Statements:
#   ("I", target_rel, ("W",) | ("N", [names]) | ("D", recursive))
#   ("D", name, kind, public)  kind in f v c t ; ("F", name, public, [body])
#   ("U", name, kind) ; ("M", tag) ; ("B", ("R", n) | ("I", bool), [body])
# ------------------------------------------------------------------------------------------------
def walk(stmts, ctx=()):
    """pre-order (stmt, ctx) pairs; ctx = tuple of enclosing ('R',n) / ('I',b) / ('F',name)"""
    for s in stmts:
        yield s, ctx
        if s[0] == "F":
            yield from walk(s[3], ctx + (("F", s[1]),))
        elif s[0] == "B":
            yield from walk(s[2], ctx + (s[1],))


def dir_listing(case, d):
    """filepath.WalkDir below directory d: (direct .ddp children, all .ddp descendants), lexical order"""
    files = sorted(case["mods"])
    ents = {}
    for f in files:
        if f.startswith(d + "/"):
            ents[f[len(d) + 1:] + ".ddp"] = f
    direct = [ents[k] for k in sorted(ents) if "/" not in k]

    def rec(prefix):
        names = set()
        for k in ents:
            if k.startswith(prefix):
                names.add(k[len(prefix):].split("/")[0])
        out = []
        for n in sorted(names):
            full = prefix + n
            if full in ents:
                out.append(ents[full])
            else:
                out += rec(full + "/")
        return out
    return direct, rec("")


def targets(case, imp):
    if imp[2][0] == "D":
        nr, rc = dir_listing(case, imp[1])
        return rc if imp[2][1] else nr
    return [imp[1]]


def mod_index(case):
    return {rel: i + 1 for i, rel in enumerate(sorted(set(case["mods"]) | set(case.get("missing", []))))}


def value_of(case, rel, name, kind):
    return 1000 * mod_index(case)[rel] + 10 * NAME_ID[name] + (1 if kind == "v" else 2)


# ------------------------------------------------------------------------------------------------
# rendering to DDP source + model input
# ------------------------------------------------------------------------------------------------
def relpath(frm, to):
    return os.path.relpath("/" + to, os.path.dirname("/" + frm))


def render_module(case, rel, rootrel=None):
    """returns (source text, model lines, {line -> statement line})"""
    tag = rel
    out = ['Binde "Duden/Ausgabe" ein.',
           "Die Funktion melde mit den Parametern t und z vom Typ Text und Zahl, gibt eine Zahl zurück, macht:",
           '\tSchreibe ("I %s " verkettet mit t) auf eine Zeile.' % tag,
           "\tGib z zurück.",
           "Und kann so benutzt werden:",
           '\t"melde <t> mit <z>"',
           ""]
    model = []
    owner = {}
    uselines = set()
    ids = case["_ids"]

    def emit(txt, ind, stline=None):
        out.append("\t" * ind + txt)
        ln = len(out)
        owner[ln] = stline if stline is not None else ln
        return ln

    def go(stmts, ind):
        for s in stmts:
            if s[0] == "I":
                form = s[2]
                p = relpath(rel, s[1])
                if form[0] == "W":
                    ln = emit('Binde "%s" ein.' % p, ind)
                    model.append("I %d %d W" % (ln, ids[s[1]]))
                elif form[0] == "N":
                    ns = form[1]
                    if len(ns) == 1:
                        lst = ns[0]
                    else:
                        lst = ", ".join(ns[:-1]) + " und " + ns[-1]
                    ln = emit('Binde %s aus "%s" ein.' % (lst, p), ind)
                    model.append("I %d %d N %s" % (ln, ids[s[1]], " ".join(str(NAME_ID[n]) for n in ns)))
                else:
                    ln = emit('Binde %salle Module aus "%s" ein.' % ("rekursiv " if form[1] else "", p), ind)
                    model.append("I %d %d D %d" % (ln, ids["dir:" + s[1]], 1 if form[1] else 0))
            elif s[0] == "D":
                _, name, kind, pub = s
                if kind == "v":
                    ln = emit('Die %sZahl %s ist melde "%s" mit %d.' % ("öffentliche " if pub else "", name, name, value_of(case, rel, name, "v")), ind)
                elif kind == "c":
                    ln = emit("Die %sKonstante %s ist %d." % ("öffentliche " if pub else "", name, value_of(case, rel, name, "c")), ind)
                else:
                    ln = emit("Wir nennen eine Zahl %sauch eine %s." % ("öffentlich " if pub else "", name), ind)
                model.append("D %d %d %s %d" % (ln, NAME_ID[name], kind, 1 if pub else 0))
            elif s[0] == "F":
                _, name, pub, body = s
                ln = emit("Die %sFunktion %s gibt nichts zurück, macht:" % ("öffentliche " if pub else "", name), ind)
                emit('Schreibe "F %s %s" auf eine Zeile.' % (tag, name), ind + 1, ln)
                model.append("F %d %d %d" % (ln, NAME_ID[name], 1 if pub else 0))
                go(body, ind + 1)
                model.append("E")
                emit("Und kann so benutzt werden:", ind, ln)
                emit('"%s"' % name, ind + 1, ln)
            elif s[0] == "U":
                _, name, kind = s
                if kind == "f":
                    ln = emit("%s." % name, ind)
                elif kind == "v":
                    ln = emit('Schreibe ("V %s " verkettet mit (%s als Text)) auf eine Zeile.' % (name, name), ind)
                elif kind == "c":
                    ln = emit('Schreibe ("C %s " verkettet mit (%s als Text)) auf eine Zeile.' % (name, name), ind)
                else:
                    ln = emit('Schreibe ("T %s " verkettet mit (((5 als %s) als Zahl) als Text)) auf eine Zeile.' % (name, name), ind)
                model.append("U %d %d %s" % (ln, NAME_ID[name], kind))
                uselines.add(ln)
            elif s[0] == "M":
                emit('Schreibe "M %s %d" auf eine Zeile.' % (tag, s[1]), ind)
                model.append("M %d" % s[1])
            elif s[0] == "B":
                c = s[1]
                if c[0] == "R":
                    emit("Wiederhole:", ind)
                    model.append("B R %d" % c[1])
                    go(s[2], ind + 1)
                    emit("%d Mal." % c[1], ind)
                else:
                    emit("Wenn %s, dann:" % ("wahr" if c[1] else "falsch"), ind)
                    model.append("B I %d" % (1 if c[1] else 0))
                    go(s[2], ind + 1)
                model.append("E")
    go(case["mods"][rel], 0)
    case.setdefault("_uselines", {})[rel] = uselines
    return "\n".join(out) + "\n", model, owner


def assign_ids(case):
    ids = {}
    n = 1
    for rel in sorted(set(case["mods"]) | set(case.get("missing", []))):
        ids[rel] = n
        n += 1
    dirs = set()
    for rel in case["mods"]:
        for s, _ in walk(case["mods"][rel]):
            if s[0] == "I" and s[2][0] == "D":
                dirs.add(s[1])
    for d in sorted(dirs):
        ids["dir:" + d] = n
        n += 1
    case["_ids"] = ids
    case["_dirs"] = sorted(dirs)
    return ids


def materialise(case, base):
    """write the module files below base/<id>/ and build the model input"""
    d = os.path.join(base, case["id"])
    ids = assign_ids(case)
    lines = ["CASE " + case["id"], "ROOT %d" % ids[case["root"]]]
    for dd in case["_dirs"]:
        nr, rc = dir_listing(case, dd)
        lines.append("DIR %d N %s R %s" % (ids["dir:" + dd], " ".join(str(ids[x]) for x in nr), " ".join(str(ids[x]) for x in rc)))
    case["_owner"] = {}
    case["_src"] = {}
    for rel in sorted(case["mods"]):
        txt, model, owner = render_module(case, rel)
        path = os.path.join(d, rel + ".ddp")
        os.makedirs(os.path.dirname(path), exist_ok=True)
        with open(path, "w") as fh:
            fh.write(txt)
        case["_owner"][rel] = owner
        case["_src"][rel] = txt
        lines.append("FILE %d" % ids[rel])
        lines += model
    for dd in case.get("empty_dirs", []):
        os.makedirs(os.path.join(d, dd), exist_ok=True)
    lines.append("END")
    case["_dir"] = d
    case["_model_in"] = lines
    return d


# ------------------------------------------------------------------------------------------------
# the property's own oracle (independent of the model): lexical scoping + the property's clauses
# ------------------------------------------------------------------------------------------------
def static_graph(case):
    g = {}
    for rel, st in case["mods"].items():
        g[rel] = []
        for s, _ in walk(st):
            if s[0] == "I":
                g[rel] += targets(case, s)
    return g


def reach_from(g, starts):
    seen, todo = [], list(starts)
    while todo:
        x = todo.pop(0)
        if x in seen:
            continue
        seen.append(x)
        todo += g.get(x, [])
    return seen


def has_cycle(g, root):
    """a cycle among the modules reachable from root (root included)"""
    nodes = reach_from(g, [root])
    for n in nodes:
        if n in reach_from(g, g.get(n, [])):
            return True
    return False


def publics(case, rel):
    """name -> (kind) of the public top-level declarations (None if declared twice: the oracle stays silent)"""
    pub, seen = {}, set()
    for s in case["mods"].get(rel, []):
        if s[0] in ("D", "F"):
            name = s[1]
            kind = "f" if s[0] == "F" else s[2]
            public = s[2] if s[0] == "F" else s[3]
            if name in seen:
                pub[name] = None
            elif public:
                pub[name] = kind
            seen.add(name)
    return pub


class Silent(Exception):
    """the property's text does not decide this situation (name clash, scope question)"""


def spec_exec(case):
    """expected output of the executable without the initialiser lines, by lexical scoping; raises Silent when the
    property does not fix the outcome.  Also returns the facts the other clauses need."""
    root = case["root"]
    lines = []

    def body_of(rel, name):
        for s in case["mods"][rel]:
            if s[0] == "F" and s[1] == name:
                return s[3]
        raise Silent()

    def env_at_top(rel, upto=None):
        """environment of module rel after its top-level statements (up to index upto)"""
        env = {}
        for s in case["mods"][rel][:upto]:
            bind(rel, s, env, top=True)
        return env

    fn_seen = {}

    def note_fn(rel, n, k, stmt):
        # the property does not say what happens to the call syntax of a function that is imported in one scope and
        # imported or declared again by another statement (the alias table of the parser is not scoped)
        if k == "f":
            prev = fn_seen.setdefault((rel, n), id(stmt))
            if prev != id(stmt):
                raise Silent()

    def bind(rel, s, env, top):
        if s[0] == "I":
            tg = targets(case, s)
            if s[2][0] == "N":
                pub = publics(case, tg[0]) if tg and tg[0] in case["mods"] else {}
                for n in s[2][1]:
                    if pub.get(n) is None:
                        raise Silent()
                    if n in env:
                        raise Silent()
                    note_fn(rel, n, pub[n], s)
                    env[n] = (tg[0], pub[n])
            else:
                for q in tg:
                    if q not in case["mods"]:
                        raise Silent()
                    for n, k in publics(case, q).items():
                        if k is None or n in env:
                            raise Silent()
                        note_fn(rel, n, k, s)
                        env[n] = (q, k)
        elif s[0] in ("D", "F"):
            if s[1] in env:
                raise Silent()
            if s[0] == "F":
                note_fn(rel, s[1], "f", s)
            env[s[1]] = (rel, "f" if s[0] == "F" else s[2])
            if s[0] == "F":
                check_body(rel, s[3], dict(env))

    def check_body(rel, stmts, env):
        """every name a function body uses must be visible there (whether or not the function is ever called)"""
        for t in stmts:
            if t[0] == "I":
                bind(rel, t, env, False)
            elif t[0] == "U":
                if t[1] not in env or env[t[1]][1] != t[2]:
                    raise Silent()
            elif t[0] == "B":
                check_body(rel, t[2], dict(env))
            elif t[0] in ("D", "F"):
                raise Silent()

    def run(rel, stmts, env, depth, top):
        if depth > 6:
            raise Silent()
        for idx, s in enumerate(stmts):
            if s[0] in ("I", "D", "F"):
                if not top and s[0] != "I":
                    raise Silent()
                bind(rel, s, env, top)
            elif s[0] == "M":
                lines.append("M %s %d" % (rel, s[1]))
            elif s[0] == "U":
                name, kind = s[1], s[2]
                if name not in env or env[name][1] != kind:
                    raise Silent()
                q = env[name][0]
                if kind == "f":
                    lines.append("F %s %s" % (q, name))
                    # the callee runs in the environment of its own module at its definition
                    qst = case["mods"][q]
                    di = [i for i, t in enumerate(qst) if t[0] == "F" and t[1] == name][0]
                    qenv = env_at_top(q, di + 1)
                    run(q, body_of(q, name), dict(qenv), depth + 1, False)
                elif kind == "v":
                    lines.append("V %s %d" % (name, value_of(case, q, name, "v")))
                elif kind == "c":
                    lines.append("C %s %d" % (name, value_of(case, q, name, "c")))
                else:
                    lines.append("T %s 5" % name)
            elif s[0] == "B":
                c = s[1]
                n = c[1] if c[0] == "R" else (1 if c[1] else 0)
                if n == 0:
                    check_body(rel, s[2], dict(env))
                for it in range(n):
                    run(rel, s[2], dict(env), depth, False)
    for q in reach_from(static_graph(case), [root]):
        if q not in case["mods"]:
            raise Silent()
        if q != root:
            env_at_top(q)            # a clash or a bad selective import anywhere: the oracle stays silent
        for s, ctx in walk(case["mods"][q]):
            if ctx and s[0] in ("D", "F"):
                raise Silent()
    run(root, case["mods"][root], {}, 0, True)
    return lines


def in_model_domain(case):
    """the model computes a module's public interface from its own declarations only; a module (other than the
    root) that declares a name it also imports, or a name twice, is outside the compared domain"""
    for rel, st in case["mods"].items():
        if rel == case["root"]:
            continue
        own = [s[1] for s in st if s[0] in ("D", "F")]
        if len(own) != len(set(own)):
            return False
        got = set()
        for s, ctx in walk(st):
            if s[0] == "I":
                if s[2][0] == "N":
                    got |= set(s[2][1])
                else:
                    for q in targets(case, s):
                        got |= set(publics(case, q))
        if got & set(own):
            return False
    return True


def nested_imports(case):
    """does any module reachable from the root contain an import statement that is not a top-level statement?"""
    g = static_graph(case)
    for rel in reach_from(g, [case["root"]]):
        for s, ctx in walk(case["mods"].get(rel, [])):
            if s[0] == "I" and ctx:
                return True
    return False


def init_lines_of(case, rel):
    return ["I %s %s" % (rel, s[1]) for s in case["mods"].get(rel, []) if s[0] == "D" and s[2] == "v"]


# ------------------------------------------------------------------------------------------------
# generators
# ------------------------------------------------------------------------------------------------
RELS = ["a", "b", "c", "d", "e", "sub/f", "sub/g", "sub/deep/h", "x/y", "x_y", "sub_f"]


def gen_decls(rng, rel, heavy_overlap):
    """top-level declarations of a module: unique names inside the module, kinds/visibility random"""
    st = []
    names = rng.sample(VALS, rng.randint(1, len(VALS)))
    for n in names:
        kind = rng.choice("fvvc")
        pub = rng.random() < (0.55 if heavy_overlap else 0.7)
        if kind == "f":
            st.append(("F", n, pub, []))
        else:
            st.append(("D", n, kind, pub))
    for n in rng.sample(TYPES, rng.randint(0, 2)):
        st.append(("D", n, "t", rng.random() < 0.6))
    if not any(s[0] == "D" and s[2] == "v" for s in st):
        free = [n for n in VALS if n not in names]
        if free:
            st.append(("D", free[0], "v", rng.random() < 0.7))
    rng.shuffle(st)
    return st


def pick_import(rng, case_mods, importer, target, pubmap, taken, imported, allow_clash=False):
    """an import statement of `target` that does not clash with `taken` names if possible"""
    pub = [n for n, k in pubmap.get(target, {}).items() if k is not None]
    free = [n for n in pub if n not in taken]
    r = rng.random()
    if not free and pub and not allow_clash:
        # the importer gives up its own declarations of those names (a clash is generated only on request)
        own = case_mods[importer]
        own[:] = [s for s in own if not (s[0] in ("D", "F") and s[1] in pub and s[1] not in imported)]
        free = [n for n in pub if n not in imported]
        taken.difference_update(free)
        if not free:
            return None
    if free and (len(free) < len(pub) or r < 0.45):
        ns = rng.sample(free, rng.randint(1, len(free)))
        taken.update(ns)
        imported.update(ns)
        return ("I", target, ("N", ns))
    taken.update(pub)
    imported.update(pub)
    return ("I", target, ("W",))


def gen_random_case(rng, cid, opts):
    """a structured random module graph; opts: cycle length (0 = acyclic), nested, missing, collide, badname"""
    k = rng.randint(2, 6)
    pool = list(RELS)
    if not opts.get("collide"):
        pool = [r for r in pool if r not in ("x_y", "sub_f")]
    rng.shuffle(pool)
    if opts.get("collide"):
        pair = rng.choice([("x/y", "x_y"), ("sub/f", "sub_f")])
        pool = list(pair) + [r for r in pool if r not in pair]
    rels = pool[:k]
    order = ["r"] + rels            # edges go from earlier to later positions => acyclic
    mods = {}
    pubmap = {}
    for rel in order:
        mods[rel] = gen_decls(rng, rel, opts.get("overlap", False))
    case = dict(id=cid, root="r", mods=mods, shape=opts.get("shape", "random"))
    for rel in order:
        pubmap[rel] = publics(case, rel)
    # edges
    edges = {rel: [] for rel in order}
    shape = opts.get("graph", rng.choice(["chain", "diamond", "random", "random", "fan"]))
    if shape == "chain":
        for i in range(len(order) - 1):
            edges[order[i]].append(order[i + 1])
    elif shape == "diamond" and len(order) >= 4:
        r0, b, c, dd = order[0], order[1], order[2], order[3]
        edges[r0] += rng.sample([b, c], 2)
        edges[b].append(dd)
        edges[c].append(dd)
        if rng.random() < 0.7:
            edges[b].append(c)       # dependency between the siblings
        for extra in order[4:]:
            edges[rng.choice(order[:4])].append(extra)
    elif shape == "fan":
        for x in order[1:]:
            edges["r"].append(x)
        for i in range(1, len(order)):
            for j in range(i + 1, len(order)):
                if rng.random() < 0.3:
                    edges[order[i]].append(order[j])
    else:
        for i in range(len(order)):
            for j in range(i + 1, len(order)):
                if rng.random() < (0.7 if i == 0 else 0.4):
                    edges[order[i]].append(order[j])
    if not edges["r"]:
        edges["r"].append(order[1])
    for rel in order:
        rng.shuffle(edges[rel])
    # cycle
    cl = opts.get("cycle", 0)
    if cl:
        if cl == 1:
            v = rng.choice(order)
            edges[v].append(v)
            if v != "r" and v not in reach_from(edges, ["r"]):
                edges["r"].append(v)
        else:
            nodes = rng.sample(order, min(cl, len(order)))
            for i in range(len(nodes)):
                edges[nodes[i]].append(nodes[(i + 1) % len(nodes)])
            if nodes[0] not in reach_from(edges, ["r"]):
                edges["r"].append(nodes[0])
    # statements: imports (top-level, before the declarations that might clash), interleaved marks
    tagc = [0]

    def mark():
        tagc[0] += 1
        return ("M", tagc[0])
    for rel in reversed(order):          # leaves first: the public interface of a target is final when it is imported
        decls = mods[rel]
        taken = {s[1] for s in decls}
        imported = set()
        imps = []
        use_dir = None
        for t in edges[rel]:
            if opts.get("dirs") and t.startswith("sub/") and not rel.startswith("sub") and rng.random() < 0.6 and use_dir is None and not cl:
                use_dir = True
                recursive = rng.random() < 0.5
                tmp = dict(case)
                lst = dir_listing(case, "sub")
                got = lst[1] if recursive else lst[0]
                ok = True
                seen_n = set()
                for q in got:
                    for n, kk in pubmap[q].items():
                        if n in taken or n in seen_n:
                            ok = False
                        seen_n.add(n)
                if ok and got and all(order.index(q) > order.index(rel) for q in got):
                    for q in got:
                        taken.update(pubmap[q].keys())
                        imported.update(pubmap[q].keys())
                    imps.append(("I", "sub", ("D", recursive)))
                    continue
            im = pick_import(rng, mods, rel, t, pubmap, taken, imported, allow_clash=opts.get("clash", False))
            if im is not None:
                imps.append(im)
        decls = mods[rel]
        pubmap[rel] = publics(case, rel)
        if opts.get("repeat") and imps:
            # a second, disjoint selective import of an already imported module
            t = rng.choice(edges[rel])
            free = [n for n, kk in pubmap[t].items() if kk is not None and n not in taken]
            if free:
                taken.update(free[:1])
                imps.append(("I", t, ("N", free[:1])))
        st = []
        if rel == "r":
            st.append(mark())
            for im in imps:
                st.append(im)
                st.append(mark())
            st += decls
        else:
            # imports first or interleaved with declarations whose names they do not touch
            st = list(imps) + decls
            if rng.random() < 0.5:
                st.append(("M", 500 + order.index(rel)))        # top-level statement of an imported module
            if rng.random() < 0.3:
                st.insert(rng.randint(0, len(st)), ("M", 600 + order.index(rel)))
        mods[rel] = st
    # bad names in a selective import
    if opts.get("badname"):
        rel = rng.choice([x for x in order if edges[x]])
        t = rng.choice(edges[rel])
        priv = [s[1] for s in mods[t] if s[0] in ("D", "F") and not (s[2] if s[0] == "F" else s[3])]
        unknown = [n for n in VALS + TYPES if n not in {s[1] for s in mods[t] if s[0] in ("D", "F")}]
        cand = (priv if (priv and rng.random() < 0.7) else unknown) or priv
        if cand:
            bad = rng.choice(cand)
            idx = [i for i, s in enumerate(mods[rel]) if s[0] == "I" and s[1] == t]
            if idx:
                i = idx[0]
                old = mods[rel][i]
                good = old[2][1] if old[2][0] == "N" else []
                ns = list(good)
                ns.insert(rng.randint(0, len(ns)), bad)
                mods[rel][i] = ("I", t, ("N", ns))
                case["badname"] = (rel, t, bad)
    if opts.get("missing"):
        rel = rng.choice(order)
        case["missing"] = ["zz"]
        mods[rel].insert(0, ("I", "zz", ("W",)))
        if rng.random() < 0.5:
            other = rng.choice(order)
            mods[other].insert(0, ("I", "zz", ("W",)))
    case["mods"] = mods
    return case


def gen_nested_case(rng, cid):
    """import statements that are not top-level statements of their module (inside Wiederhole / Wenn / a function
    body): the code generator emits the init call where the statement stands"""
    mode = rng.choice(["loop", "iffalse", "iffalse_then_top", "iftrue", "fnbody", "fnbody_main", "alias_leak", "reimport_fn", "deep"])
    v, f2, w = rng.sample(VALS, 3)
    a = [("D", v, "v", True), ("F", f2, True, [("U", v, "v")])]
    if rng.random() < 0.5:
        a.append(("M", 501))
    mods = {"a": a}
    if rng.random() < 0.5:
        # a has a dependency of its own
        mods["c"] = [("D", w, "v", True)]
        mods["a"] = [("I", "c", ("N", [w]))] + a
    r = [("M", 1)]
    imp_v = ("I", "a", ("N", [v]))
    if mode == "loop":
        r += [("B", ("R", rng.randint(2, 3)), [imp_v, ("U", v, "v")]), ("M", 2)]
    elif mode == "iffalse":
        r += [("B", ("I", False), [imp_v, ("U", v, "v")]), ("M", 2)]
    elif mode == "iffalse_then_top":
        r += [("B", ("I", False), [imp_v, ("U", v, "v")]), ("M", 2), imp_v, ("M", 3), ("U", v, "v")]
    elif mode == "iftrue":
        r += [("B", ("I", True), [rng.choice([imp_v, ("I", "a", ("W",))]), ("U", v, "v")]), ("M", 2)]
    elif mode == "fnbody":
        mods["b"] = [("F", w if "c" not in mods else [n for n in VALS if n not in (v, f2, w)][0], True, [imp_v, ("U", v, "v")])]
        fn = mods["b"][0][1]
        r += [("I", "b", ("W",)), ("M", 2)] + [("U", fn, "f")] * rng.randint(0, 2) + [("M", 3)]
    elif mode == "fnbody_main":
        fn = [n for n in VALS if n not in (v, f2, w)][0]
        r += [("F", fn, False, [imp_v, ("U", v, "v")]), ("M", 2)] + [("U", fn, "f")] * rng.randint(0, 2) + [("M", 3)]
    elif mode == "alias_leak":
        # the function imported inside the block stays callable after it (aliases are not scoped)
        r += [("B", ("I", rng.random() < 0.5), [("I", "a", ("W",))]), ("M", 2), ("U", f2, "f"), ("M", 3)]
    elif mode == "reimport_fn":
        r += [("B", ("I", True), [("I", "a", ("N", [f2]))]), ("M", 2), ("I", "a", ("N", [f2])), ("M", 3), ("U", f2, "f")]
    else:
        r += [("B", ("R", 2), [("B", ("I", True), [imp_v, ("U", v, "v")]), ("M", 4)]), ("M", 2)]
    mods["r"] = r
    return dict(id=cid, root="r", mods=mods, shape="nested", nested_mode=mode)


def add_root_uses(rng, case, probe):
    """append uses to the root: every name the oracle knows to be visible (clean variant) or every name of the pools
    (probe variant: the frontend must refuse the invisible ones)"""
    root = case["root"]
    env = {}
    silent = False
    for s in case["mods"][root]:
        if s[0] == "I":
            tg = targets(case, s)
            if s[2][0] == "N":
                pub = publics(case, tg[0]) if tg and tg[0] in case["mods"] else {}
                for n in s[2][1]:
                    if n in pub and pub[n] is not None and n not in env:
                        env[n] = (tg[0], pub[n])
            else:
                for q in tg:
                    for n, k in publics(case, q).items():
                        if k is not None and n not in env:
                            env[n] = (q, k)
        elif s[0] in ("D", "F"):
            env.setdefault(s[1], (root, "f" if s[0] == "F" else s[2]))
    uses = []
    for n in VALS + TYPES + EXTRA:
        if n in env:
            uses.append(("U", n, env[n][1]))
        elif probe:
            uses.append(("U", n, "t" if n in TYPES else rng.choice("fvc")))
    nf = case.get("nested_fn")
    if nf and nf[1] in env:
        uses.append(("U", nf[1], "f"))      # a second call of the function with the import in its body
    case["mods"][root] = case["mods"][root] + [("M", 99)] + uses
    case["_env"] = env


# ------------------------------------------------------------------------------------------------
# running the implementation
# ------------------------------------------------------------------------------------------------
def load_codes():
    """numeric values of the diagnostic codes, re-read from /repo on every run"""
    txt = open(os.path.join(vlib.REPO, "src", "ddperror", "codes.go")).read()
    codes = {}
    for blk in re.findall(r"const \((.*?)\n\)", txt, re.S):
        base, i = None, 0
        for l in blk.splitlines():
            l = l.split("//")[0].strip()
            if not l:
                continue
            m = re.match(r"(\w+)\s+Code\s*=\s*iota(?:\s*\+\s*(\d+))?", l)
            if m:
                base = int(m.group(2) or 0)
                codes[m.group(1)] = base
                i = 1
            elif re.match(r"^\w+$", l) and base is not None:
                codes[l] = base + i
                i += 1
    return codes


def classify(code, codes):
    if code == codes.get("MISC_INCLUDE_ERROR"):
        return "include"
    if code == codes.get("SEM_NAME_UNDEFINED"):
        return "undefined"
    if code == codes.get("SEM_NAME_ALREADY_DEFINED"):
        return "defined"
    if code in (codes.get("SEM_ALIAS_ALREADY_DEFINED"), codes.get("SEM_ALIAS_ALREADY_TAKEN")):
        return "alias"
    return "other"


def run_frontend(parsex, b, cases):
    reqs = []
    for c in cases:
        reqs.append(json.dumps(dict(id=c["id"], file=os.path.join(c["_dir"], c["root"] + ".ddp"))))
    res = {}
    chunks = [reqs[i::vlib.NCPU] for i in range(vlib.NCPU)]

    def work(chunk):
        if not chunk:
            return []
        p = subprocess.run([parsex], input="\n".join(chunk) + "\n", capture_output=True, text=True, env=dict(os.environ, DDPPATH=b.dir), timeout=1200)
        return [json.loads(l) for l in p.stdout.splitlines() if l.startswith("{")]
    for lst in vlib.pmap(work, chunks):
        for r in lst:
            res[r["id"]] = r
    return res


def impl_diags(case, resp, codes):
    """set of (module rel, statement line, class); plus raw list"""
    out = set()
    obs = resp["obs"]
    for d in obs.get("diags") or []:
        if d["level"] != 0 and False:
            pass
        f = d["file"]
        rel = os.path.relpath(f, case["_dir"]) if os.path.isabs(f) else f
        if rel.endswith(".ddp"):
            rel = rel[:-4]
        owner = case["_owner"].get(rel, {})
        ln = owner.get(d["sl"], d["sl"])
        # a refused use of a name is one observable whatever the code (undefined name, no type name, bad context)
        out.add((rel, ln, "refused" if ln in case["_uselines"].get(rel, ()) else classify(d["code"], codes)))
    return out


def model_diags(case, mline):
    ids = {v: k for k, v in case["_ids"].items()}
    m = re.search(r"diags=(\S*) log=", mline)
    out = set()
    fine = {}
    for part in filter(None, m.group(1).split(",")):
        f, ln, cl, fn = part.split(":")
        out.add((ids[int(f)], int(ln), "refused" if int(ln) in case["_uselines"].get(ids[int(f)], ()) else cl))
        fine[(ids[int(f)], int(ln))] = fn
    return out, fine


def model_output(case, mline):
    """expected stdout lines according to the model, or None if rejected"""
    ids = {v: k for k, v in case["_ids"].items()}
    names = {v: k for k, v in NAME_ID.items()}
    o = mline.split(" out=", 1)[1]
    if o == "none":
        return None
    lines = []
    for ev in o.split(";")[1:]:
        f = ev.split()
        if not f or f[0] == "init":
            continue
        if f[0] == "ivar":
            lines.append("I %s %s" % (ids[int(f[1])], names[int(f[2])]))
        elif f[0] == "mark":
            lines.append("M %s %s" % (ids[int(f[1])], f[2]))
        elif f[0] == "fn":
            lines.append("F %s %s" % (ids[int(f[1])], names[int(f[2])]))
        elif f[0] == "val":
            lines.append("V %s %d" % (names[int(f[2])], value_of(case, ids[int(f[1])], names[int(f[2])], "v") if f[3] == "1" else 0))
        elif f[0] == "const":
            lines.append("C %s %d" % (names[int(f[2])], value_of(case, ids[int(f[1])], names[int(f[2])], "c")))
        elif f[0] == "type":
            lines.append("T %s 5" % names[int(f[2])])
    return lines


def model_init_order(mline):
    o = mline.split(" out=", 1)[1]
    return [int(ev.split()[1]) for ev in o.split(";")[1:] if ev.startswith("init ")]


def run_backend(b, case):
    d = case["_dir"]
    exe = os.path.join(d, "prog")
    r = b.compile(case["root"] + ".ddp", exe, cwd=d)
    if r["stage"] != "ok":
        return dict(stage=r["stage"], out=r["out"][-600:], lines=None, syms=None)
    rc, so, se = b.run(exe, cwd=d)
    syms = None
    try:
        nm = subprocess.run(["nm", exe + ".o"], capture_output=True, text=True, timeout=60).stdout
        syms = sorted({l.split()[-1] for l in nm.splitlines() if l.split() and l.split()[-1].endswith("_init") and l.split()[-1].startswith("ddp_")})
    except Exception:
        pass
    return dict(stage="ran", rc=rc, lines=so.decode("utf-8", "replace").splitlines(), err=se.decode("utf-8", "replace")[-300:], syms=syms)


def hashables(model, paths):
    inp = "\n".join("H " + p.encode().hex() for p in paths) + "\n"
    out = subprocess.run([model], input=inp, capture_output=True, text=True, timeout=60).stdout.splitlines()
    return [bytes.fromhex(l[2:]).decode() for l in out if l.startswith("H ")]


# ------------------------------------------------------------------------------------------------
# judging one case
# ------------------------------------------------------------------------------------------------
def describe(case):
    """canonical one-line description of a case for violation keys"""
    g = static_graph(case)
    return "mods=%d nested=%s cycle=%s" % (len(case["mods"]), "yes" if nested_imports(case) else "no", "yes" if has_cycle(g, case["root"]) else "no")


def replay_of(case, extra=None):
    r = dict(case_id=case["id"], root=case["root"] + ".ddp", files={rel + ".ddp": case["_src"][rel] for rel in case["_src"]},
             how="write the files into one directory; frontend: echo '{\"id\":\"x\",\"file\":\"<dir>/%s.ddp\"}' | DDPPATH=.cache/<hash> .cache/<hash>/go-*/parsex ; backend: kddp kompiliere %s.ddp -o x.o && link as vlib.Build.compile, run" % (case["root"], case["root"]),
             model_input=case["_model_in"])
    if extra:
        r.update(extra)
    return r


def judge(ck, case, fres, mline, bres, hmap, stats):
    """direct judgement against the property + comparison with the model. Returns list of mismatch descriptions."""
    g = static_graph(case)
    root = case["root"]
    nested = nested_imports(case)
    pre = "nested-import" if nested else "toplevel"
    cyc = has_cycle(g, root)
    reach = reach_from(g, g[root])
    missing = [q for q in reach_from(g, [root]) if q not in case["mods"]]
    idiags = case["_idiags"]
    accepted = not idiags and not fres["obs"].get("panic") and not fres["obs"].get("err") and not fres["obs"].get("faulty")
    mism = []
    mdiags, mfine = model_diags(case, mline)
    mout = model_output(case, mline)

    # ---- property, frontend side --------------------------------------------------------------
    if fres["obs"].get("panic") or fres["obs"].get("err"):
        ck.violation("%s frontend-crash %s" % (pre, describe(case)), "parser.Parse crashed: %s" % (fres["obs"].get("panic") or fres["obs"].get("err")), replay_of(case))
    if cyc:
        stats["cyclic"] += 1
        if not any(c == "include" for _, _, c in idiags):
            ck.violation("%s cycle-not-diagnosed %s" % (pre, describe(case)), "modules import each other but no include diagnostic was delivered", replay_of(case, dict(diags=sorted(idiags))))
    # a selective import of a private or unknown name must be diagnosed at that statement
    for rel in reach_from(g, [root]):
        for s, ctx in walk(case["mods"].get(rel, [])):
            if s[0] == "I" and s[2][0] == "N" and s[1] in case["mods"]:
                pub = publics(case, s[1])
                bad = [n for n in s[2][1] if n not in pub]
                if bad:
                    stats["badname_imports"] += 1
                    ln = [l for l, txt in enumerate(case["_src"][rel].splitlines(), 1) if txt.strip().startswith("Binde ") and ('aus "%s"' % relpath(rel, s[1])) in txt and all(n in txt for n in s[2][1])]
                    if ln and not any(r == rel and l in ln for r, l, _ in idiags):
                        # only if the module was parsed at all (it may sit behind an import that failed earlier)
                        ck.violation("%s private-or-unknown-name-imported names=%s %s" % (pre, bad, describe(case)),
                                     "Binde %s aus %s in %s: names %s are not public there but no diagnostic" % (s[2][1], s[1], rel, bad), replay_of(case, dict(diags=sorted(idiags))))
    # uses of names that no import and no local declaration makes visible must be refused (root, top level)
    if "_env" in case and not nested:
        for s in case["mods"][root]:
            if s[0] == "U" and s[1] not in case["_env"]:
                stats["invisible_probes"] += 1
                lns = [l for l, txt in enumerate(case["_src"][root].splitlines(), 1) if case["_owner"][root].get(l) == l and re.search(r"\b%s\b" % s[1], txt) and not txt.startswith(("Binde", "Die ", "Wir "))]
                if lns and not any(r == root and l in lns for r, l, _ in idiags):
                    ck.violation("%s invisible-name-usable name=%s %s" % (pre, s[1], describe(case)), "the root uses %s, which no import makes visible and which it does not declare, without a diagnostic" % s[1], replay_of(case, dict(diags=sorted(idiags))))
    # acyclic, complete, no name problem the oracle can see => must be accepted
    spec_lines = None
    silent = False
    try:
        spec_lines = spec_exec(case)
    except Silent:
        silent = True
    except (KeyError, IndexError):
        silent = True
    if not cyc and not missing and not silent and not case.get("probe"):
        if not accepted:
            ck.violation("%s valid-program-rejected %s" % (pre, describe(case)), "acyclic module graph without name clashes is rejected: %s" % sorted(idiags), replay_of(case, dict(diags=sorted(idiags))))

    # ---- model vs implementation, frontend ------------------------------------------------------
    if idiags != mdiags:
        mism.append("diagnostics differ: implementation %s, model %s" % (sorted(idiags), sorted(mdiags)))

    # ---- backend ------------------------------------------------------------------------------
    if bres is not None:
        stats["compiled"] += 1
        collide = [p for p in set(hmap.values()) if list(hmap.values()).count(p) > 1]
        coll_reach = [q for q in [root] + reach if q in hmap and hmap[q] in collide]
        if bres["stage"] != "ran":
            if accepted:
                key = "%s accepted-but-not-compiled %s %s" % (pre, "symbol-collision" if coll_reach else "other", describe(case))
                ck.violation(key, "the frontend accepts the program but no executable is produced (%s): %s" % (bres["stage"], bres["out"][-300:]),
                             replay_of(case, dict(colliding_modules=coll_reach)))
                if not coll_reach:
                    mism.append("model predicts an executable, kddp fails: " + bres["out"][-200:])
            elif mout is not None:
                mism.append("model predicts an executable, implementation rejects")
        else:
            if not accepted:
                ck.violation("%s rejected-but-compiled %s" % (pre, describe(case)), "diagnostics %s were delivered but kddp produced an executable" % sorted(idiags), replay_of(case))
            lines = bres["lines"]
            stats["ran"] += 1
            if bres["rc"] != 0:
                ck.violation("%s runtime-failure rc=%s %s" % (pre, bres["rc"], describe(case)), "executable exits with %s: %s" % (bres["rc"], bres["err"]), replay_of(case, dict(output=lines)))
            ilines = [l for l in lines if l.startswith("I ")]
            # exactly once
            for q in reach:
                for il in init_lines_of(case, q):
                    n = ilines.count(il)
                    if n != 1:
                        ck.violation("%s init-count=%d %s" % (pre, n, describe(case)), "initialiser '%s' of module %s ran %d times (must be exactly once)" % (il, q, n),
                                     replay_of(case, dict(output=lines)))
                        break
            # dependencies first
            pos = {}
            for i, l in enumerate(lines):
                if l.startswith("I "):
                    pos.setdefault(l.split()[1], []).append(i)
            for m_ in reach:
                for n_ in g.get(m_, []):
                    if m_ in pos and n_ in pos and m_ != n_ and min(pos[m_]) < max(pos[n_]) and not (nested and len(pos[m_]) + len(pos[n_]) > 2):
                        if min(pos[m_]) < min(pos[n_]):
                            ck.violation("%s deps-not-first %s" % (pre, describe(case)), "module %s imports %s but is initialised before it" % (m_, n_), replay_of(case, dict(output=lines)))
            # before the code of the importer that follows the import (root, top-level imports)
            rst = case["mods"][root]
            for i, s in enumerate(rst):
                if s[0] == "I":
                    nxt = [t for t in rst[i + 1:] if t[0] == "M"]
                    if not nxt:
                        continue
                    ml = "M %s %d" % (root, nxt[0][1])
                    if ml not in lines:
                        continue
                    mp = lines.index(ml)
                    for q in reach_from(g, targets(case, s)):
                        for il in init_lines_of(case, q):
                            if il not in lines[:mp]:
                                ck.violation("%s init-after-following-code %s" % (pre, describe(case)), "'%s' has not run before the statement after the import of %s in the root" % (il, s[1]), replay_of(case, dict(output=lines)))
            # no top-level statement of an imported module
            for q in reach:
                if q == root:
                    continue
                for s in case["mods"].get(q, []):
                    if s[0] == "M" and ("M %s %d" % (q, s[1])) in lines:
                        ck.violation("%s toplevel-of-import-executed %s" % (pre, describe(case)), "top-level statement M %s %d of an imported module was executed" % (q, s[1]), replay_of(case, dict(output=lines)))
            # everything else: the output without the initialiser lines is fixed by lexical scoping; values are initialised
            rest = [l for l in lines if not l.startswith("I ")]
            for l in rest:
                if l.startswith("V ") and l.split()[-1] == "0":
                    ck.violation("%s uninitialised-global-read %s" % (pre, describe(case)), "a global of an imported module is read before its initialiser ran: '%s'" % l, replay_of(case, dict(output=lines)))
                    break
            if spec_lines is not None and len(rest) == len(spec_lines):
                # an uninitialised read was reported above; what remains here is a wrong object or wrong order
                rest = [w if (l.startswith("V ") and l.split()[-1] == "0" and w.startswith(l[:-1])) else l for l, w in zip(rest, spec_lines)]
            if spec_lines is not None and rest != spec_lines:
                ck.violation("%s wrong-object-or-output %s" % (pre, describe(case)), "output without initialiser lines %s, lexical scoping + the property give %s" % (rest[:12], spec_lines[:12]), replay_of(case, dict(output=lines, expected_without_init=spec_lines)))
            # model
            if mout is None:
                mism.append("implementation produced an executable, model rejects")
            elif mout != lines:
                mism.append("output differs: implementation %s, model %s" % (lines[:40], mout[:40]))
            # init symbols
            if bres["syms"] is not None:
                pref = case.get("_hdir", "")        # the model's name of the case directory: a prefix of its modules' names
                mine = sorted({s for s in bres["syms"] if s.startswith(pref)})
                want = sorted({hmap[q] + "_init" for q in [root] + reach if q in hmap})
                if mine != want:
                    mism.append("init symbols differ: object has %s, model %s" % (mine, want))
    return mism, accepted, (mout is not None)


# ------------------------------------------------------------------------------------------------
def exhaustive_cases(perms):
    """all import graphs over the modules r, a, b (9 possible edges incl. self-imports), whole-module imports,
    every module with one public variable and one public function of its own name"""
    names = {"r": ("foo", "bar"), "a": ("baz", "qux"), "b": ("quux", "corge")}
    nodes = ["r", "a", "b"]
    cases = []
    n = 0
    for bits in range(512):
        edges = {x: [] for x in nodes}
        for i, (u, v) in enumerate(itertools.product(nodes, nodes)):
            if bits >> i & 1:
                edges[u].append(v)
        orders = [edges]
        if perms:
            alts = []
            for combo in itertools.product(*[list(itertools.permutations(edges[x])) for x in nodes]):
                alts.append({x: list(combo[i]) for i, x in enumerate(nodes)})
            orders = alts
        for e in orders:
            mods = {}
            for x in nodes:
                vn, fn = names[x]
                st = [("I", t, ("N", [names[t][0]])) if (x != "r" and t != x and False) else ("I", t, ("W",)) for t in e[x]]
                body = [("D", vn, "v", True), ("F", fn, True, [])]
                if x == "r":
                    st2 = [("M", 1)]
                    for k, im in enumerate(st):
                        st2 += [im, ("M", 2 + k)]
                    st = st2 + body
                else:
                    st = st + body + [("M", 500)]
                mods[x] = st
            n += 1
            cases.append(dict(id="ex%d" % n, root="r", mods=mods, shape="exhaustive3"))
    return cases


def gen_dircycle_case(rng, cid):
    """an import cycle of length 1..4 whose closing edge is a directory import (plain or rekursiv): the module that is
    still being parsed lies in the imported directory.  Length 1 = a module importing its own directory."""
    L = rng.choice([1, 2, 2, 3, 3, 4])
    through_root = rng.random() < 0.3
    names = ["a", "b", "c", "e"]
    nodes = ["p/d%d/%s" % (i + 1, names[i]) for i in range(L)]
    root = "r"
    if through_root:
        root = "p/d1/r"
        nodes[0] = root
    mods = {}
    pool = rng.sample(VALS, 4) + rng.sample(VALS, 4)
    for i, nd in enumerate(nodes):
        mods[nd] = [("D", VALS[i], "v", True)]
    if rng.random() < 0.5:
        mods["p/d1/s"] = [("D", "qux" if L < 4 else "Foo", "v" if L < 4 else "t", True)]      # a sibling in the imported directory
    recursive = rng.random() < 0.5
    target_dir = "p" if (recursive and rng.random() < 0.5) else "p/d1"
    closing = ("I", target_dir, ("D", recursive))
    for i, nd in enumerate(nodes):
        if i + 1 < L:
            nxt = nodes[i + 1]
            mods[nd].insert(0, ("I", nxt, ("W",) if rng.random() < 0.5 else ("N", [VALS[i + 1]])))
    last = nodes[-1]
    pos = rng.randint(0, len(mods[last]))
    mods[last].insert(pos, closing)
    if not through_root:
        mods["r"] = [("M", 1), ("I", nodes[0], ("W",)), ("M", 2)]
    else:
        mods[root] = [("M", 1)] + mods[root] + [("M", 2)]
    return dict(id=cid, root=root, mods=mods, shape="dircycle", dircycle=(L, recursive, target_dir, through_root))


def exhaustive_dir_cases(full):
    """small graphs with directory imports: the modules r, d/a, d/b; every module imports a subset of
    {r, d/a, d/b (whole module), the directory d}.  quick: at most one import statement in d/a and d/b and two in r;
    thorough: every subset, directory imports alternately plain and rekursiv"""
    names = {"r": ("foo", "bar"), "d/a": ("baz", "qux"), "d/b": ("quux", "corge")}
    nodes = ["r", "d/a", "d/b"]
    opts = ["r", "d/a", "d/b", "DIR"]

    def subsets(maxn):
        out = []
        for k in range(0, maxn + 1):
            out += list(itertools.combinations(opts, k))
        return out
    cases = []
    n = 0
    for sr in subsets(4 if full else 2):
        for sa in subsets(4 if full else 1):
            for sb in subsets(4 if full else 1):
                if "DIR" not in sr + sa + sb:
                    continue            # graphs without a directory import are enumerated by exhaustive_cases
                n += 1
                mods = {}
                for x, sel in zip(nodes, (sr, sa, sb)):
                    vn, fn = names[x]
                    st = [("I", "d", ("D", (n + len(sel)) % 2 == 1)) if t == "DIR" else ("I", t, ("W",)) for t in sel]
                    body = [("D", vn, "v", True), ("F", fn, True, [])]
                    if x == "r":
                        st2 = [("M", 1)]
                        for k, im in enumerate(st):
                            st2 += [im, ("M", 2 + k)]
                        st = st2 + body
                    else:
                        st = st + body + [("M", 500)]
                    mods[x] = st
                cases.append(dict(id="ed%d" % n, root="r", mods=mods, shape="exhaustive_dir"))
    return cases


def exhaustive4_cases():
    """the root imports x only; every import graph over the imported modules x, c, b (6 possible edges, no self-imports) with
    every order of the import statements: the init order of one IterateModuleImports walk below a non-main module"""
    names = {"r": ("foo", "bar"), "x": ("baz", "qux"), "c": ("quux", "corge"), "b": ("grault", "garply")}
    inner = ["x", "c", "b"]
    pairs = [(u, v) for u in inner for v in inner if u != v]
    cases = []
    n = 0
    for bits in range(64):
        edges = {u: [] for u in inner}
        for i, (u, v) in enumerate(pairs):
            if bits >> i & 1:
                edges[u].append(v)
        for combo in itertools.product(*[list(itertools.permutations(edges[u])) for u in inner]):
            n += 1
            mods = {"r": [("M", 1), ("I", "x", ("W",)), ("M", 2), ("D", "foo", "v", True), ("F", "bar", True, [])]}
            for i, u in enumerate(inner):
                vn, fn = names[u]
                mods[u] = [("I", t, ("N", [names[t][0]])) for t in combo[i]] + [("D", vn, "v", True), ("F", fn, True, [("U", vn, "v")])]
            cases.append(dict(id="ef%d" % n, root="r", mods=mods, shape="exhaustive4"))
    return cases


def gen_shared_dep_case(rng, cid):
    """an imported module x imports c first and later b (a following statement or a later file of a directory import),
    while c (directly or through d) imports b as well"""
    deep = rng.random() < 0.4
    via_dir = rng.random() < 0.3
    mods = {}
    if via_dir:
        # sub/f < sub/g in walk order: f depends on g
        mods["sub/f"] = [("I", "sub/g", ("N", ["bar"])), ("D", "foo", "v", True)]
        mods["sub/g"] = [("D", "bar", "v", True)]
        mods["x"] = [("I", "sub", ("D", rng.random() < 0.5)), ("D", "baz", "v", True)]
    else:
        mods["b"] = [("D", "bar", "v", True)]
        if deep:
            mods["d"] = [("I", "b", ("N", ["bar"])), ("D", "qux", "v", True)]
            mods["c"] = [("I", "d", ("N", ["qux"])), ("D", "foo", "v", True)]
        else:
            mods["c"] = [("I", "b", ("N", ["bar"])), ("D", "foo", "v", True)]
        mods["x"] = [("I", "c", ("N", ["foo"])), ("I", "b", ("N", ["bar"])), ("D", "baz", "v", True)]
        if rng.random() < 0.3:
            mods["x"].insert(1, ("M", 600))
    mods["r"] = [("M", 1), ("I", "x", ("W",)), ("M", 2), ("U", "baz", "v")]
    return dict(id=cid, root="r", mods=mods, shape="shared_dep")


# ------------------------------------------------------------------------------------------------
# import statements at places the module-summary model does not describe (judged by the oracle only)
# ------------------------------------------------------------------------------------------------
RES_A = """Binde "Duden/Ausgabe" ein.
Die Funktion melde_a gibt eine Zahl zurück, macht:
	Schreibe "init a" auf eine Zeile.
	Gib 7 zurück.
Und kann so benutzt werden:
	"melde_a"
Die öffentliche Zahl wa ist melde_a.
"""
RES_FWD_HEAD = """Binde "Duden/Ausgabe" ein.
Die Funktion zeige gibt nichts zurück, wird später definiert
Und kann so benutzt werden:
	"zeige"
Schreibe "R0" auf eine Zeile.
"""
RES_FWD_DEF = """Die Funktion zeige macht:
	Binde wa aus "a" ein.
	Schreibe wa auf eine Zeile.
Schreibe "R1" auf eine Zeile.
zeige.
"""
RES_GEN = """Binde "Duden/Ausgabe" ein.
Die generische Funktion zeige mit dem Parameter x vom Typ T, gibt nichts zurück, macht:
%s	Schreibe "G" auf eine Zeile.
Und kann so benutzt werden:
	"zeige <x>"
Schreibe "R0" auf eine Zeile.
zeige 1.
zeige "t".
"""


def residual_cases(b, base, sink):
    """(1) a forward-declared function whose definition contains an import, called before / only after the definition;
    (2) an import inside the body of a generic function (+ control without the import).  Returns a stats dict."""
    d = os.path.join(base, "residual")
    os.makedirs(d, exist_ok=True)
    gen_decl = ('Die öffentliche generische Funktion zeige mit dem Parameter x vom Typ T, gibt nichts zurück, macht:\n'
                '\tBinde wa aus "a" ein.\n\tSchreibe wa auf eine Zeile.\nUnd kann so benutzt werden:\n\t"zeige <x>"\n')
    aus = 'Binde "Duden/Ausgabe" ein.\n'
    progs = {
        "fwd_call_before_def": RES_FWD_HEAD + "zeige.\n" + RES_FWD_DEF,
        "fwd_call_after_def": RES_FWD_HEAD + RES_FWD_DEF,
        "gen_import": RES_GEN % '\tBinde wa aus "a" ein.\n\tSchreibe wa auf eine Zeile.\n',
        "gen_control": RES_GEN % "",
        # called in a loop; declared in another module; called inside a function of the declaring (imported) module
        "gen_import_loop": aus + gen_decl + 'Schreibe "R0" auf eine Zeile.\nWiederhole:\n\tzeige 1.\n3 Mal.\n',
        "gen_import_other_module": aus + 'Schreibe "R0" auf eine Zeile.\nBinde "resg" ein.\nSchreibe "R1" auf eine Zeile.\nzeige 1.\nzeige "t".\n',
        "gen_import_called_in_module": aus + 'Schreibe "R0" auf eine Zeile.\nBinde h aus "resg2" ein.\nSchreibe "R1" auf eine Zeile.\nh.\nh.\n',
    }
    # an operator overload listed only in the second selective import statement of the same module
    progs["sel_operator_second_statement"] = aus + 'Binde eins aus "resop" ein.\nBinde betrag_text aus "resop" ein.\neins.\nSchreibe (der Betrag von "Hallo") auf eine Zeile.\n'
    open(os.path.join(d, "resop.ddp"), "w").write(aus + 'Die öffentliche Funktion eins gibt nichts zurück, macht:\n\tSchreibe "eins" auf eine Zeile.\nUnd kann so benutzt werden:\n\t"eins"\n'
        'Die öffentliche Funktion betrag_text mit dem Parameter t vom Typ Text, gibt eine Zahl zurück, macht:\n\tGib die Länge von t plus 1 zurück.\nUnd überlädt den "Betrag" Operator.\n')
    # one generic function instantiated in one module with two same-named public types of two different modules
    punkt = ('Wir nennen die öffentliche Kombination aus\n\tder öffentlichen Zahl x mit Standardwert 1,\n%seinen %s, und erstellen sie so:\n\t"%s"\n')
    zeige = ('Die öffentliche generische Funktion zeige mit dem Parameter a vom Typ T, gibt eine Zahl zurück, macht:\n\tGib 7 zurück.\n'
             'Und kann so benutzt werden:\n\t"zeige <a>"\n')
    open(os.path.join(d, "resma.ddp"), "w").write(punkt % ("", "Punkt", "ein A-Punkt") + zeige)
    for fn, ty in (("resmb", "Punkt"), ("resmc", "Kreis")):
        open(os.path.join(d, fn + ".ddp"), "w").write(punkt % ("\tder öffentlichen Zahl y mit Standardwert 3,\n", ty, "ein B-Ding") +
            'Die öffentliche Funktion mach_b gibt einen %s zurück, macht:\n\tGib ein B-Ding zurück.\nUnd kann so benutzt werden:\n\t"mach b"\n' % ty)
    for n, fn in (("inst_same_named_types", "resmb"), ("inst_control_distinct_names", "resmc")):
        progs[n] = aus + 'Binde "resma" ein.\nBinde mach_b aus "%s" ein.\nDer Punkt p ist ein A-Punkt.\nSchreibe (zeige p) auf eine Zeile.\nSchreibe (zeige (mach b)) auf eine Zeile.\n' % fn
    open(os.path.join(d, "a.ddp"), "w").write(RES_A)
    open(os.path.join(d, "resg.ddp"), "w").write(aus + gen_decl)
    open(os.path.join(d, "resg2.ddp"), "w").write(aus + gen_decl + 'Die öffentliche Funktion h gibt nichts zurück, macht:\n\tzeige 1.\nUnd kann so benutzt werden:\n\t"h"\n')
    for n, t in progs.items():
        open(os.path.join(d, n + ".ddp"), "w").write(t)

    def work(n):
        r = b.compile(n + ".ddp", os.path.join(d, n), cwd=d)
        if r["stage"] != "ok":
            return n, r["stage"], r["out"], None
        rc, so, se = b.run(os.path.join(d, n), cwd=d)
        return n, "ran", "", so.decode("utf-8", "replace").splitlines()
    out = {}
    for n, stage, msg, lines in vlib.pmap(work, sorted(progs)):
        out[n] = stage
        rep = dict(files={"a.ddp": RES_A, n + ".ddp": progs[n]}, how="kddp kompiliere %s.ddp, link, run" % n, output=lines, compiler_output=msg[-600:])
        kind = ("forward-declared-import" if n.startswith("fwd") else "selective-import-operator" if n.startswith("sel")
                else "generic-instantiation-same-named-types" if n.startswith("inst") else "generic-function-import")
        ctl = "-control" if n in ("fwd_call_after_def", "gen_control", "inst_control_distinct_names") else ""
        if n.startswith("inst"):
            if stage != "ran":
                sink.violation("residual %s%s no-executable" % (kind, ctl), "%s: the frontend accepts, no executable (%s): %s" % (n, stage, msg.strip().splitlines()[0][:300] if msg.strip() else ""), rep)
            elif lines != ["7", "7"]:
                sink.violation("residual %s%s wrong-output" % (kind, ctl), "%s prints %s, expected ['7', '7']" % (n, lines), rep)
            continue
        if stage != "ran":
            internal = "Unerwarteter Fehler" in msg or "StackTrace" in msg or "ParserError" in msg or "CompilerError" in msg
            sink.violation("residual %s%s %s" % (kind, ctl, "internal-error" if internal else "rejected"),
                           "%s: no executable (%s): %s" % (n, stage, msg.strip().splitlines()[0][:300] if msg.strip() else ""), rep)
            continue
        if n.startswith("sel"):
            if lines != ["eins", "6"]:
                sink.violation("residual %s wrong-output" % kind, "%s prints %s, expected ['eins', '6'] (the imported overload of Betrag for Text)" % (n, lines), rep)
            continue
        uses_a = n != "gen_control"
        ninit = lines.count("init a")
        if uses_a and ninit != 1:
            sink.violation("residual %s%s init-count=%d" % (kind, ctl, ninit), "%s: the initialiser of a ran %d times: %s" % (n, ninit, lines), rep)
        if uses_a and ("7" not in lines or ("R1" in lines and lines.index("init a") > lines.index("R1"))):
            sink.violation("residual %s%s wrong-output" % (kind, ctl), "%s: %s" % (n, lines), rep)
        if "0" in lines:
            sink.violation("residual %s%s uninitialised-global-read" % (kind, ctl), "%s: the global of a is read before its initialiser ran: %s" % (n, lines), rep)
    return out


def ordered_partitions(items):
    """all ways to split items into a sequence of non-empty blocks"""
    if not items:
        yield []
        return
    first, rest = items[0], items[1:]
    for part in ordered_partitions(rest):
        for i in range(len(part)):
            yield part[:i] + [[first] + part[i]] + part[i + 1:]
        for i in range(len(part) + 1):
            yield part[:i] + [[first]] + part[i:]


def select_case(cid, blocks, via_module, shape):
    """module m exports the functions foo, bar and the variable baz; the importer lists them in the given import statements
    (one statement per block) and then CALLS every function / reads the variable"""
    # (calls made from inside a function body are not expanded by the model: foo has a body only when the root calls it)
    m = [("D", "baz", "v", True), ("F", "foo", True, [] if via_module else [("U", "baz", "v")]), ("F", "bar", True, []), ("D", "qux", "v", False)]
    imps = [("I", "m", ("N", list(b))) for b in blocks]
    uses = [("U", "foo", "f"), ("U", "bar", "f"), ("U", "baz", "v")]
    if via_module:
        mods = {"m": m, "x": imps + [("F", "quux", True, uses)], "r": [("M", 1), ("I", "x", ("W",)), ("M", 2), ("U", "quux", "f")]}
    else:
        st = [("M", 1)]
        for k, im in enumerate(imps):
            st += [im, ("M", 2 + k)]
        mods = {"m": m, "r": st + uses}
    return dict(id=cid, root="r", mods=mods, shape=shape)


def exhaustive_select_cases():
    """every way to list three public names of one module in one or several selective import statements of one importer
    (the root, or an imported module whose function makes the calls)"""
    cases = []
    n = 0
    for blocks in ordered_partitions(["foo", "bar", "baz"]):
        for via in (False, True):
            n += 1
            cases.append(select_case("es%d" % n, blocks, via, "exhaustive_select"))
    return cases


def gen_multi_select_case(rng, cid):
    names = ["foo", "bar", "baz"]
    rng.shuffle(names)
    parts = list(ordered_partitions(names))
    blocks = rng.choice([p for p in parts if len(p) >= 2])
    c = select_case(cid, blocks, rng.random() < 0.4, "multi_select")
    if rng.random() < 0.4:
        # a second module with the same names, imported selectively by the same importer under other names
        c["mods"]["n"] = [("F", "qux", True, []), ("F", "foo", False, [])]
        imp = "x" if "x" in c["mods"] else "r"
        pos = rng.randint(0, len([s for s in c["mods"][imp] if s[0] == "I"]))
        c["mods"][imp].insert(pos, ("I", "n", ("N", ["qux"])))
        if imp == "r":
            c["mods"]["r"].append(("U", "qux", "f"))
        else:
            c["mods"]["x"][-1] = ("F", "quux", True, c["mods"]["x"][-1][3] + [("U", "qux", "f")])
    return c


def stmt_to_json(s):
    if s[0] == "I":
        return ["I", s[1], list(s[2]) if s[2][0] != "N" else ["N", list(s[2][1])]]
    if s[0] == "F":
        return ["F", s[1], s[2], [stmt_to_json(x) for x in s[3]]]
    if s[0] == "B":
        return ["B", list(s[1]), [stmt_to_json(x) for x in s[2]]]
    return list(s)


def stmt_from_json(s):
    if s[0] == "I":
        f = s[2]
        return ("I", s[1], ("N", list(f[1])) if f[0] == "N" else tuple(f))
    if s[0] == "F":
        return ("F", s[1], bool(s[2]), [stmt_from_json(x) for x in s[3]])
    if s[0] == "B":
        return ("B", tuple(s[1]), [stmt_from_json(x) for x in s[2]])
    return tuple(s)


def case_to_json(c, note=""):
    return dict(root=c["root"], shape=c.get("shape", "corpus"), note=note, probe=bool(c.get("probe")), missing=c.get("missing", []),
                mods={rel: [stmt_to_json(x) for x in st] for rel, st in c["mods"].items()})


def case_from_json(j, cid):
    c = dict(id=cid, root=j["root"], shape="corpus", probe=bool(j.get("probe")), mods={rel: [stmt_from_json(x) for x in st] for rel, st in j["mods"].items()})
    if j.get("missing"):
        c["missing"] = list(j["missing"])
    return c


class Collector:
    """stands in for Check while a candidate of the shrinker is judged"""
    def __init__(self):
        self.items = []

    def violation(self, key, what, replay, no_input=False):
        self.items.append((key, what, replay))
        return True


def evaluate(env, cases, sink, cyc_sample=7):
    """materialise, run model + frontend + backend, judge. sink.violation receives the property violations.
    Returns (per-case mismatch lists, stats, backend results)."""
    b, parsex, model, codes, base = env
    for c in cases:
        for k in [k for k in c if k.startswith("_") and k != "_env"]:
            del c[k]
        materialise(c, base)
    inp = "\n".join(l for c in cases for l in c["_model_in"]) + "\n"
    mp = subprocess.run([model], input=inp, capture_output=True, text=True, timeout=1800)
    mlines = {l.split(" ", 1)[0]: l for l in mp.stdout.splitlines()}
    if mp.returncode != 0 or len(mlines) != len(cases):
        raise RuntimeError("extracted model failed: rc=%s %s" % (mp.returncode, mp.stderr[-500:]))
    fres = run_frontend(parsex, b, cases)
    todo = []
    for c in cases:
        r = fres.get(c["id"])
        if r is None:
            r = dict(obs=dict(panic="parsex died on this input", diags=[]))
            fres[c["id"]] = r
        c["_idiags"] = impl_diags(c, r, codes)
        acc = not c["_idiags"] and not r["obs"].get("panic") and not r["obs"].get("err")
        macc = mlines[c["id"]].split(" out=", 1)[1] != "none"
        cyc = has_cycle(static_graph(c), c["root"])
        # cyclic graphs are also handed to kddp (all random ones, a sample of the enumerated ones): no executable may come out
        if acc or macc or (cyc and not c["shape"].startswith("exhaustive")) or (cyc and int(c["id"][2:]) % cyc_sample == 0):
            todo.append(c)
    bres = dict(zip([c["id"] for c in todo], vlib.pmap(lambda c: run_backend(b, c), todo)))
    # flattened module names of all compiled cases in one model call
    paths = [(c["id"], r, os.path.join(c["_dir"], r)) for c in todo for r in sorted(c["mods"])]
    paths += [(c["id"], "_dir", c["_dir"]) for c in todo]
    hs = hashables(model, [p for _, _, p in paths]) if paths else []
    hmaps = {}
    for (cid, r, _), h in zip(paths, hs):
        hmaps.setdefault(cid, {})[r] = h
    for c in todo:
        c["_hdir"] = hmaps[c["id"]].pop("_dir")
    stats = dict(cyclic=0, compiled=0, ran=0, badname_imports=0, invisible_probes=0, outside_model_domain=0, rejected=0, accepted=0)
    mism = {}
    for c in cases:
        m, acc, macc = judge(sink, c, fres[c["id"]], mlines[c["id"]], bres.get(c["id"]), hmaps.get(c["id"], {}), stats)
        stats["accepted" if acc else "rejected"] += 1
        if m and not in_model_domain(c):
            stats["outside_model_domain"] += 1
            m = []
        if m:
            mism[c["id"]] = m
    return mism, stats, bres


def key_head(key):
    """'toplevel init-count=2 mods=..' -> 'toplevel init-count'"""
    f = key.split()
    return " ".join(f[:2]).split("=")[0]


def shrink_case(env, case, head, budget=40):
    """greedy removal of statements / modules while a violation with the same key head stays"""
    import copy

    def still(cand):
        col = Collector()
        try:
            evaluate(env, [cand], col)
        except Exception:
            return False
        return any(key_head(k) == head for k, _, _ in col.items)
    cur = dict(id=case["id"] + "s", root=case["root"], shape=case.get("shape", "corpus"), probe=case.get("probe"), mods=copy.deepcopy(case["mods"]))
    if case.get("missing"):
        cur["missing"] = case["missing"]
    changed = True
    while changed and budget > 0:
        changed = False
        for rel in sorted(cur["mods"]):
            st = cur["mods"][rel]
            for i in range(len(st)):
                if budget <= 0:
                    break
                cand = copy.deepcopy(cur)
                del cand["mods"][rel][i]
                budget -= 1
                if still(cand):
                    cur = cand
                    changed = True
                    break
            if changed:
                break
    # drop unreachable modules
    g = static_graph(cur)
    keep = set(reach_from(g, [cur["root"]]))
    cur["mods"] = {r: s for r, s in cur["mods"].items() if r in keep}
    return cur


def main():
    ck = Check(PID, "proof")
    b = Build()
    ck.cov["trusted_base"] = vlib.TRUSTED_COMMON + [
        "module summaries: a module is abstracted to its imports, declarations (kind, name, visibility), uses, marker statements, Wiederhole/Wenn blocks and function bodies; paths are numbers; the directory walk order of filepath.WalkDir is re-implemented in the check (lexical order) and given to the model as data",
        "outside the model's statement language, run on every pass and judged strictly by the oracle (leg 'residual'): an import statement inside a generic function body and inside the definition (FuncDef) of a forward-declared function",
        "the model computes a module's public interface from its own declarations only (cases where a non-root module declares a name it also imports are judged against the property but not compared with the model); calls out of function bodies are not expanded by the model (the generator never nests calls); imports of Duden modules are outside the model",
        "numeric diagnostic codes are re-read from src/ddperror/codes.go on every run; only the class (include / undefined / already defined / alias / other, 'refused' for a use) per statement is compared, never the wording",
        "sha256 (module hash in mangled names) is a section variable of Mod/Mangle.v, assumed injective on the module names of one compilation",
        "Python oracle of the property: lexical scoping of imports, reachability, exactly-once / dependencies-first / before-following-code on the printed initialiser tags",
    ]
    if not os.environ.get("C10_NOCOQ"):
        ck.coq()
    ok, lg = b.ensure_native()
    if not ok:
        ck.violation("build", "kddp/runtime do not build from /repo: " + lg[-400:], dict(log=lg[-3000:]), no_input=True)
        ck.finish()
    parsex, lg = b.ensure_go("parsex")
    if not parsex:
        ck.violation("harness-build", "parsex does not build against /repo: " + lg[-500:], dict(log=lg[-3000:]), no_input=True)
        ck.finish()
    model = vlib.model_bin("c10")
    if not os.path.exists(model):
        ck.broken_obligation("extracted model driver extract/_build/c10 missing (make setup)", "")
        ck.finish()
    codes = load_codes()
    base = vlib.scratch()
    env = (b, parsex, model, codes, base)
    rng = ck.rng

    # ---- cases: corpus first, then generated, then the exhaustive enumeration ---------------------
    cases = []
    cdir = os.path.join(vlib.VERIF, "corpus", PID)
    n_corpus = 0
    if os.path.isdir(cdir):
        for f in sorted(os.listdir(cdir)):
            if f.endswith(".json"):
                try:
                    cases.append(case_from_json(json.load(open(os.path.join(cdir, f))), "corpus_" + re.sub(r"\W", "_", f[:-5])))
                    n_corpus += 1
                except Exception as e:
                    log("[corpus] unreadable %s: %s" % (f, e))
    n_random = int(os.environ.get("C10_N", 110 if ck.quick else 2200))
    menu = [dict(), dict(), dict(dirs=True), dict(dirs=True), dict(overlap=True), dict(repeat=True), dict(graph="diamond"), dict(graph="diamond", overlap=True),
            dict(cycle=1), dict(cycle=2), dict(cycle=3), dict(cycle=4), dict(badname=True), dict(badname=True, overlap=True),
            dict(nested=True), dict(nested=True), dict(missing=True), dict(collide=True), dict(graph="chain"), dict(graph="fan", repeat=True),
            dict(dircycle=True), dict(dircycle=True), dict(shared_dep=True), dict(multi_select=True)]
    if os.environ.get("C10_ONLY"):
        menu = [m for m in menu if os.environ["C10_ONLY"] in m]
    for i in range(n_random):
        opts = dict(menu[i % len(menu)])
        if opts.get("nested") or opts.get("dircycle") or opts.get("shared_dep") or opts.get("multi_select"):
            c = (gen_nested_case(rng, "g%d" % i) if opts.get("nested") else gen_dircycle_case(rng, "g%d" % i) if opts.get("dircycle")
                 else gen_shared_dep_case(rng, "g%d" % i) if opts.get("shared_dep") else gen_multi_select_case(rng, "g%d" % i))
            c["opts"] = opts
            c["probe"] = False
            cases.append(c)
            continue
        c = gen_random_case(rng, "g%d" % i, opts)
        c["opts"] = opts
        probe = (i // len(menu)) % 2 == 1
        c["probe"] = probe
        add_root_uses(rng, c, probe)
        cases.append(c)
    ex = [] if os.environ.get("C10_NOEX") else exhaustive_cases(perms=not ck.quick) + exhaustive_dir_cases(full=not ck.quick) + exhaustive4_cases() + exhaustive_select_cases()
    for c in ex:
        add_root_uses(rng, c, False)
    cases += ex
    log("[c10] %d cases generated at %.1fs" % (len(cases), __import__("time").time() - ck.t0))

    col = Collector()
    try:
        mism, stats, bres = evaluate(env, cases, col, cyc_sample=16 if ck.quick else 23)
    except RuntimeError as e:
        ck.broken_obligation(str(e), "")
        ck.finish()
    log("[c10] evaluated at %.1fs (%d compiled)" % (__import__("time").time() - ck.t0, stats["compiled"]))
    stats["residual"] = residual_cases(b, base, col)

    # ---- violations: known findings are filtered by vlib; new ones are shrunk and persisted ------
    by_id = {c["id"]: c for c in cases}
    fresh_heads = set()
    for key, what, replay in col.items:
        if ck.violation(key, what, replay):
            head = key_head(key)
            cid = replay.get("case_id") if isinstance(replay, dict) else None
            if key.startswith("residual "):
                continue
            if head in fresh_heads or cid not in by_id or len(fresh_heads) >= 3:
                continue
            fresh_heads.add(head)
            try:
                small = shrink_case(env, by_id[cid], head)
                col2 = Collector()
                evaluate(env, [small], col2)
                for k2, w2, r2 in col2.items:
                    if key_head(k2) == head:
                        ck.violations[-1] = (k2, w2, r2, False)
                        break
                os.makedirs(cdir, exist_ok=True)
                name = "auto_" + re.sub(r"\W+", "_", head) + "_" + __import__("hashlib").sha1(json.dumps(case_to_json(small), sort_keys=True).encode()).hexdigest()[:8] + ".json"
                with open(os.path.join(cdir, name), "w") as fh:
                    json.dump(case_to_json(small, note=key), fh, indent=1, ensure_ascii=False)
            except Exception as e:
                log("[shrink] failed: %s" % e)

    shapes = {}
    for c in cases:
        ck.count()
        lab = c["shape"] + ("/" + "+".join(sorted(k for k in c.get("opts", {}))) if c.get("opts") else "")
        shapes[lab] = shapes.get(lab, 0) + 1
        if len(reach_from(static_graph(c), [c["root"]])) >= 2:
            ck.nontrivial(json.dumps(case_to_json(c), sort_keys=True, default=str))
    n_mism = len(mism)
    if os.environ.get("C10_DEBUG"):
        for cid, m in mism.items():
            log("[mismatch] %s %s" % (cid, "; ".join(m)[:700]))
    if mism and not ck.violations:
        cid = sorted(mism)[0]
        c = by_id[cid]
        # the implementation satisfied the property on every case, but the proved model no longer predicts it
        ck.broken_obligation("correspondence model vs implementation fails on %d case(s); first: %s: %s" % (n_mism, cid, "; ".join(mism[cid])[:1500]),
                             json.dumps(replay_of(c), ensure_ascii=False)[:6000])
    elif mism:
        cid = sorted(mism)[0]
        log("[note] %d model/implementation disagreements accompany the violations; first: %s: %s" % (n_mism, cid, "; ".join(mism[cid])[:600]))
    ck.cov.update(dict(
        graphs=len(cases), corpus_graphs=n_corpus, random_graphs=n_random, exhaustive_graphs=len(ex), shapes=shapes, stats=stats,
        exhaustive="all 512 import graphs over 3 modules (9 possible edges incl. self-imports)%s; all graphs over r, d/a, d/b in which every module imports a subset of {r, d/a, d/b, the directory d} and at least one directory import occurs (%s); all 64 import graphs over three imported modules below a root that imports the first one, every order of the import statements; every split of three public names of one module over one or several selective import statements (importer = root / an imported module), each listed function called: frontend + model on all, kddp + executable on every accepted one and a sample of the cyclic ones" % ("" if ck.quick else ", every order of the import statements (4096 programs)", "at most 2/1/1 import statements" if ck.quick else "every subset, plain and rekursiv alternating"),
        rule="a case is one module graph written to disk (2..7 modules); non-trivial = at least two modules reachable from the root; distinct by the complete module contents",
        model_mismatches=n_mism))
    for c in cases[n_corpus:n_corpus + 2] + cases[-1:]:
        ck.sample(dict(id=c["id"], shape=c["shape"], root=c["_src"][c["root"]][-400:], diags=sorted(c["_idiags"]), output=(bres.get(c["id"]) or {}).get("lines")))
    shutil.rmtree(base, ignore_errors=True)
    ck.finish()


if __name__ == "__main__":
    main()
