#!/usr/bin/env python3
"""C11 — optimisation level and link mode do not change program behaviour.
Purely differential (no oracle): one source x {-O 0, 1, 2} x {imported modules linked into one LLVM module, kept as
separate objects} x {built-in list definitions linked into the program object, taken from the prebuilt object
ddp_list_types_defs.o} => the same stdout, exit status and run-time-error class. A difference between two
configurations of one source is a violation whose replay holds the source, the two configurations and both outputs.
Proof part: coq/Props/C11.v (symbol resolution is independent of the linking mode under injective mangling; the
compiler's own -O2 transformation is refuted with C08's witness)."""
import copy
import fcntl
import hashlib
import json
import os
import re
import shutil
import subprocess
import sys
import threading
from concurrent.futures import ThreadPoolExecutor

sys.path.insert(0, os.path.dirname(os.path.abspath(__file__)))
import vlib
import c08gen
from vlib import Check, Build, log

PID = "C11"
OPTS = (0, 1, 2)
CONFIGS = [(o, ml, ll) for o in OPTS for ml in (True, False) for ll in (True, False)]
RECIPE = "v2"     # part of the Duden object cache path: bump when the compile recipe of module objects changes


def cfg_name(c):
    return "O%d/%s/%s" % (c[0], "modules-linked" if c[1] else "modules-separate", "listdefs-linked" if c[2] else "listdefs-external")


def link_name(ml, ll):
    return "%s/%s" % ("modules-linked" if ml else "modules-separate", "listdefs-linked" if ll else "listdefs-external")


# ------------------------------------------------------------------------------------------------
# import closure (Python reading of `Binde ... ein.`; checked against the init symbols kddp itself references)
# ------------------------------------------------------------------------------------------------
_COMMENT = re.compile(r"\[[^\[\]]*\]")
_IMPORT = re.compile(r'\bBinde\s+(?P<what>[^".]*?)"(?P<path>[^"]+)"\s+ein\s*\.')


def strip_comments(txt):
    # DDP comments are [ ... ] (nestable); string literals may contain brackets, so only strip outside of literals
    out = []
    depth = 0
    i = 0
    n = len(txt)
    while i < n:
        ch = txt[i]
        if depth == 0 and ch in "\"'":
            j = i + 1
            while j < n and txt[j] != ch:
                j += 2 if txt[j] == "\\" else 1
            out.append(txt[i:j + 1])
            i = j + 1
            continue
        if ch == "[":
            depth += 1
        elif ch == "]" and depth:
            depth -= 1
        elif depth == 0:
            out.append(ch)
        i += 1
    return "".join(out)


def direct_imports(path, ddppath):
    """absolute paths of the modules `path` imports (parser.go:243-330: "Duden..." is relative to $DDPPATH, anything else to
    the importing file; `alle Module aus` = the .ddp files of a directory, `rekursiv alle Module aus` = of its subtree)"""
    try:
        txt = strip_comments(open(path, encoding="utf-8", errors="replace").read())
    except OSError:
        return []
    res = []
    for m in _IMPORT.finditer(txt):
        raw = m.group("path")
        what = m.group("what")
        if raw.startswith("Duden"):
            p = os.path.join(ddppath, raw)
        else:
            p = os.path.abspath(os.path.join(os.path.dirname(path), raw))
        if re.search(r"\balle\s+Module\s+aus\s*$", what):
            rec = bool(re.search(r"\brekursiv\b", what))
            for d, dirs, fs in os.walk(p):
                dirs.sort()
                for f in sorted(fs):
                    if f.endswith(".ddp"):
                        res.append(os.path.join(d, f))
                if not rec:
                    break
        else:
            res.append(p + ".ddp")
    return res


def import_closure(main, ddppath):
    """every module in the transitive import closure of main (without main), in discovery order"""
    seen = {os.path.abspath(main)}
    order = []
    todo = [os.path.abspath(main)]
    while todo:
        f = todo.pop(0)
        for g in direct_imports(f, ddppath):
            if g not in seen:
                seen.add(g)
                order.append(g)
                todo.append(g)
    return order


# ------------------------------------------------------------------------------------------------
# building one source in one configuration
# ------------------------------------------------------------------------------------------------
class Builder:
    def __init__(self, b):
        self.b = b
        self.env = dict(os.environ, DDPPATH=b.dir)
        self.listdefs = os.path.join(b.lib, "ddp_list_types_defs.o")
        self.modcache = os.path.join(b.dir, "c11-mods-" + RECIPE)
        self.duden_dir = os.path.join(b.dir, "Duden") + os.sep
        self.cpu = dict(kddp_main=0, kddp_module=0, duden_objects_built=0, duden_objects_reused=0)
        self.lock = threading.Lock()
        self.initsyms = {}

    def module_object(self, path, opt, out):
        """one imported module as its own object: compiled like a main module (interface.go:140 passes isMainModule=true to
        every separately compiled file), list functions only declared, and its ddp_ddpmain made local so that the
        program's entry point is the main module's; anonymous constants made local as well (see below)"""
        p = subprocess.run([self.b.kddp, "kompiliere", path, "-o", out, "-O", str(opt), "--module-linken=false", "--list-defs-linken=false"],
                           capture_output=True, text=True, env=self.env, timeout=600)
        with self.lock:
            self.cpu["kddp_module"] += 1
        if p.returncode != 0 or not os.path.exists(out):
            return False, p.stdout + p.stderr
        # __unnamed_N: string literals are anonymous globals with external linkage (compiler.go:796); where no LLVM pass ran
        # (-O 0, interface.go:185) they reach the object as global symbols and collide between any two DDP objects
        q = subprocess.run(["objcopy", "--wildcard", "-L", "ddp_ddpmain", "-L", "__unnamed_*", out], capture_output=True, text=True, timeout=120)
        if q.returncode != 0:
            return False, q.stdout + q.stderr
        return True, ""

    def duden_object(self, path, opt):
        """cached per (tree hash, recipe, -O level): Duden module objects never contain the list definitions"""
        d = os.path.join(self.modcache, "O%d" % opt)
        os.makedirs(d, exist_ok=True)
        name = path[len(self.duden_dir):].replace(os.sep, "_")[:-4]
        out = os.path.join(d, name + ".o")
        if os.path.exists(out):
            with self.lock:
                self.cpu["duden_objects_reused"] += 1
            return out, ""
        failf = out + ".fail"
        with open(out + ".lock", "w") as lf:
            fcntl.flock(lf, fcntl.LOCK_EX)
            try:
                if os.path.exists(out):
                    return out, ""
                if os.path.exists(failf):
                    return None, open(failf).read()
                tmp = out + ".tmp%d.o" % os.getpid()
                ok, msg = self.module_object(path, opt, tmp)
                if not ok:
                    open(failf, "w").write(msg)
                    return None, msg
                os.replace(tmp, out)
                with self.lock:
                    self.cpu["duden_objects_built"] += 1
                return out, ""
            finally:
                fcntl.flock(lf, fcntl.LOCK_UN)

    def module_objects(self, main, opt, outdir):
        """objects of every module in the import closure of main, compiled at -O opt. Returns (objs|None, log, closure)"""
        clo = import_closure(main, self.b.dir)
        objs = []
        for i, m in enumerate(clo):
            if not os.path.exists(m):
                return None, "imported module %s does not exist" % m, clo
            if m.startswith(self.duden_dir):
                o, msg = self.duden_object(m, opt)
                if o is None:
                    return None, "module %s does not compile on its own: %s" % (m, msg[-800:]), clo
            else:
                o = os.path.join(outdir, "m%d_O%d.o" % (i, opt))
                ok, msg = self.module_object(m, opt, o)
                if not ok:
                    return None, "module %s does not compile on its own: %s" % (m, msg[-800:]), clo
            objs.append(o)
        return objs, "", clo

    def build(self, main, exe, cfg, modobjs, asan=False):
        o, ml, ll = cfg
        extra = []
        if not ml:
            extra += modobjs
        if not ll:
            extra.append(self.listdefs)
        with self.lock:
            self.cpu["kddp_main"] += 1
        return self.b.compile(main, exe, opt=o, asan=asan, cwd=os.path.dirname(main), timeout=600,
                              extra_args=["--module-linken=%s" % ("true" if ml else "false"), "--list-defs-linken=%s" % ("true" if ll else "false")],
                              extra_objs=extra)

    def probe_raw_objects(self, main, outdir):
        """observation, not part of the property: the objects of two DDP modules compiled without any LLVM pass (-O 0,
        modules separate) as kddp writes them, linked without the objcopy step. Returns the linker's complaint or ''"""
        clo = import_closure(main, self.b.dir)
        objs = []
        for i, m in enumerate([main] + clo):
            o = os.path.join(outdir, "raw%d.o" % i)
            p = subprocess.run([self.b.kddp, "kompiliere", m, "-o", o, "-O", "0", "--module-linken=false", "--list-defs-linken=false"], capture_output=True, text=True, env=self.env, timeout=600)
            if p.returncode != 0:
                return "kddp: " + (p.stdout + p.stderr)[-300:]
            if i:
                subprocess.run(["objcopy", "-L", "ddp_ddpmain", o], capture_output=True, timeout=120)
            objs.append(o)
        L = self.b.lib
        l = subprocess.run(["gcc"] + objs + [os.path.join(L, "main.o"), os.path.join(L, "shim.o"), "-Wl,--wrap=setlocale", "-Wl,--wrap=ddp_reallocate", self.listdefs, "-L" + L, "-lddpstdlib", "-lddpruntime", "-lm",
                            "-o", os.path.join(outdir, "raw")], capture_output=True, text=True, timeout=300)
        if l.returncode == 0:
            return ""
        m = re.search(r"multiple definition of `[^']*'", l.stderr)
        return m.group(0) if m else l.stderr[-300:]

    def init_symbols(self, obj, defined):
        p = subprocess.run(["nm", "--defined-only" if defined else "-u", obj], capture_output=True, text=True, timeout=60)
        return {l.split()[-1] for l in p.stdout.splitlines() if l.split() and l.split()[-1].startswith("ddp_") and l.split()[-1].endswith("_init")}

    def check_closure(self, obj, modobjs):
        """the module-init functions the separately compiled main object calls (one per module of the transitive import closure
        as the COMPILER sees it, compiler.go:2278-2302) must all be defined by the module objects the import scan produced"""
        have = set()
        for m in modobjs:
            with self.lock:
                s = self.initsyms.get(m)
            if s is None:
                s = self.init_symbols(m, True)
                with self.lock:
                    self.initsyms[m] = s
            have |= s
        return sorted(self.init_symbols(obj, False) - have)


def recipe_text(b):
    L = b.lib
    link = "gcc prog.o [objects] %s/main.o %s/shim.o -Wl,--wrap=setlocale -Wl,--wrap=ddp_reallocate -L%s -lddpstdlib -lddpruntime -lm -o prog" % (L, L, L)
    return {
        "modules-linked/listdefs-linked": "kddp kompiliere prog.ddp -o prog.o -O n --module-linken=true --list-defs-linken=true; " + link.replace("[objects] ", ""),
        "modules-linked/listdefs-external": "kddp kompiliere prog.ddp -o prog.o -O n --module-linken=true --list-defs-linken=false; " + link.replace("[objects]", L + "/ddp_list_types_defs.o"),
        "modules-separate/listdefs-external": "kddp kompiliere prog.ddp -o prog.o -O n --module-linken=false --list-defs-linken=false; for every module M of the transitive import closure: "
                                              "kddp kompiliere M.ddp -o M.o -O n --module-linken=false --list-defs-linken=false && objcopy --wildcard -L ddp_ddpmain -L '__unnamed_*' M.o; " + link.replace("[objects]", "M1.o .. Mk.o " + L + "/ddp_list_types_defs.o"),
        "modules-separate/listdefs-linked": "kddp kompiliere prog.ddp -o prog.o -O n --module-linken=false --list-defs-linken=true (the one object that carries the list definitions); the modules exactly as in "
                                            "modules-separate/listdefs-external (declarations only: two objects compiled with --list-defs-linken=true both define ddp_*list* strongly and cannot be linked together); "
                                            + link.replace("[objects]", "M1.o .. Mk.o"),
    }


# ------------------------------------------------------------------------------------------------
# observation
# ------------------------------------------------------------------------------------------------
def observed(rc, out, err):
    o = out.decode("utf-8", "replace")
    e = err.decode("utf-8", "replace")
    if "AddressSanitizer" in e or "LeakSanitizer" in e or rc == 97:
        return ("sanitizer", o, e[-600:])
    if rc == -9 and e == "timeout":
        return ("timeout", o, "")
    if rc == 0:
        return ("ok", o, "")
    if rc < 0 or "Segmentation" in e:
        return ("crash", o, "exit %d %s" % (rc, e[-300:]))
    if rc == 1 and "Laufzeitfehler" in e:
        return ("err", o, error_identity(e), e[-400:])
    return ("exit", o, "exit %d %s" % (rc, e[-300:]))


def error_identity(stderr):
    """which run-time error: the message line. The compiler's own error format strings are not NUL-terminated
    (setupErrorStrings: constant.NewCharArrayFromString), so ddp_runtime_error prints whatever bytes follow them in the
    executable (e.g. "...Falsche TypumwandlungC.utf8", or address bytes that change from run to run); that tail depends
    on the memory layout and is not part of the property"""
    msg = stderr[stderr.index("Laufzeitfehler"):]
    line = msg.split("\n")[0]
    for k in ("Falsche Typumwandlung", "Invalider UTF8 Wert im Text", "noch nicht implementiert"):
        if k in line:
            line = line[:line.index(k) + len(k)]
    return line


TRAILING = [0]     # comparisons in which two error messages differed only by bytes after the message


def same(a, b):
    """the property's equality: class; for defined behaviour also stdout, exit status and the error message"""
    if a[0] != b[0]:
        return False
    if a[0] in ("crash", "sanitizer", "nondeterministic"):
        return True
    if a[0] == "err" and a[1] == b[1] and a[2] == b[2] and a[3:] != b[3:]:
        TRAILING[0] += 1       # same error, different bytes after the message
    return a[1] == b[1] and a[2] == b[2]


def brief(o):
    return [o[0], o[1][-600:], o[2][-300:]]


# ------------------------------------------------------------------------------------------------
# sources
# ------------------------------------------------------------------------------------------------
class Source:
    def __init__(self, kind, files, main, meta=None, prog=None, indir=None):
        self.kind, self.files, self.main, self.meta, self.prog, self.indir = kind, files, main, meta or {}, prog, indir
        self.path = None    # absolute path of the main file once materialised

    def label(self):
        """what a canonical key says about the source"""
        return "arith: %s" % self.meta.get("op") if self.kind == "arith" else self.kind

    def text(self):
        if self.files:
            return "\n".join("[ %s ]\n%s" % (n, t) for n, t in self.files.items())
        return open(self.path, encoding="utf-8", errors="replace").read()

    def replay_files(self):
        if self.files:
            return dict(self.files)
        out = {}
        for f in [self.path] + [m for m in import_closure(self.path, "/nonexistent-ddppath") if os.path.exists(m)]:
            out[os.path.relpath(f, os.path.dirname(self.path))] = open(f, encoding="utf-8", errors="replace").read()
        return out


def src_c08(meta, prog):
    return Source("c08gen", {"prog.ddp": c08gen.render(prog)}, "prog.ddp", meta=dict(meta, gen=meta.get("kind")), prog=prog)


PUB = [("Die Funktion ", "Die öffentliche Funktion "), ("Wir nennen die Kombination aus", "Wir nennen die öffentliche Kombination aus"),
       ("\tdem Text name ", "\tdem öffentlichen Text name "), ("\tder Zahlen Liste werte ", "\tder öffentlichen Zahlen Liste werte "), ("\tder Zahl anzahl ", "\tder öffentlichen Zahl anzahl ")]
PUBDECL = [("Die Zahlen Liste ", "Die öffentliche Zahlen Liste "), ("Die Text Liste ", "Die öffentliche Text Liste "), ("Der Text ", "Der öffentliche Text "),
           ("Die Zahl ", "Die öffentliche Zahl "), ("Der Datensatz ", "Der öffentliche Datensatz "), ("Der Buchstabe ", "Der öffentliche Buchstabe ")]


def publicise(txt):
    for a, bb in PUB:
        txt = txt.replace(a, bb)
    return txt


def src_c08_split(meta, prog):
    """the same generated program, cut into two files: Kombination, show functions, globals and functions form a module
    (everything public), the main file imports it and holds the top-level statements"""
    vt = {}
    glob = c08gen.r_stmts(prog["globals"], vt, 0)
    full = c08gen.render(dict(globals=prog["globals"], funs=prog["funs"], main=prog["main"]))    # main only decides the imports
    full = full[:len(full) - len("\n".join(c08gen.r_stmts(prog["main"], dict(vt), 0)) + "\n")]
    gtxt = "\n".join(glob)
    end = 'zeige den Datensatz <x>"\n\n'      # last line of the prelude (imports, Kombination, show functions)
    assert end in full, "unexpected layout of c08gen.render"
    pre = full[:full.index(end) + len(end)]
    assert full[len(pre):].startswith(gtxt), "unexpected layout of c08gen.render"
    funs = full[len(pre) + len(gtxt):]
    gl = []
    for line in glob:
        for a, bb in PUBDECL:
            if line.startswith(a):
                line = bb + line[len(a):]
                break
        gl.append(line)
    lib_txt = publicise(pre) + "\n".join(gl) + publicise(funs)
    main_txt = 'Binde "Duden/Ausgabe" ein.\nBinde "Duden/Listen" ein.\nBinde "lager" ein.\n\n' + "\n".join(c08gen.r_stmts(prog["main"], vt, 0)) + "\n"
    return Source("c08gen-split", {"prog.ddp": main_txt, "lager.ddp": lib_txt}, "prog.ddp", meta=dict(meta, gen=meta.get("kind")), prog=prog)


# ---- Duden-using programs ----------------------------------------------------------------------------------------------
WORDS = ["Hallo Welt", "", "a", "äöü ß", "Bier, Bar, Baer", "mayonara", "  gepolstert  ", "eins zwei  drei", "€uro 프렌즈", "xyzxyzxy", "Test", "kathrin", "karolin", "12", "-7", "abc"]
CHARS = ["a", "e", " ", "y", "ä", "€", ",", "x", "B"]


class DudenGen:
    """random straight-line programs over Duden/Listen, Duden/Texte, Duden/Mathe, Duden/Zahlen; every statement prints"""

    def __init__(self, rng):
        self.r = rng

    def z(self, lo=-9, hi=30):
        return str(self.r.randint(lo, hi))

    def pz(self):
        return str(self.r.randint(1, 40))

    def k(self):
        return ("%d,%d" % (self.r.randint(-20, 20), self.r.randint(0, 99))).replace("-0,", "0,")

    def pk(self):
        return "%d,%d" % (self.r.randint(0, 9), self.r.randint(1, 99))

    def t(self):
        return '"%s"' % self.r.choice(WORDS)

    def c(self):
        return "'%s'" % self.r.choice(CHARS)

    def zl(self):
        n = self.r.randint(1, 6)
        return "(eine Liste, die aus %s besteht)" % ", ".join(self.z() for _ in range(n))

    def kl(self):
        n = self.r.randint(1, 5)
        return "(eine Liste, die aus %s besteht)" % ", ".join(self.pk() for _ in range(n))

    def tl(self):
        n = self.r.randint(1, 4)
        return "(eine Liste, die aus %s besteht)" % ", ".join(self.t() for _ in range(n))

    def cl(self):
        n = self.r.randint(1, 5)
        return "(eine Liste, die aus %s besteht)" % ", ".join(self.c() for _ in range(n))

    def pair(self, el):
        """two list literals of equal length (the element-wise functions index the second by the first's positions)"""
        n = self.r.randint(1, 5)
        return tuple("(eine Liste, die aus %s besteht)" % ", ".join(el() for _ in range(n)) for _ in range(2))

    def templates(self):
        z, pz, k, pk, t, c, zl, kl, tl, cl = self.z, self.pz, self.k, self.pk, self.t, self.c, self.zl, self.kl, self.tl, self.cl
        P = "Schreibe (%s) auf eine Zeile."
        show = {"listZ": "Schreibe listZ auf eine Zeile.", "listK": "Schreibe listK auf eine Zeile.", "listT": "Schreibe listT auf eine Zeile.",
                "listC": "Schreibe listC auf eine Zeile.", "text": "Schreibe text auf eine Zeile."}
        lst = lambda: self.r.choice(["listZ", "listK", "listT", "listC"])
        el = {"listZ": z, "listK": k, "listT": t, "listC": c}

        def mut(fmt):
            def f():
                l = lst()
                return fmt.format(l=l, e=el[l](), n=self.r.randint(1, 3), m=self.r.randint(2, 7)) + "\n" + show[l]
            return f
        T = [
            # ---- Listen
            mut("Füge {e} an {l} an."), mut("Stelle {e} vor {l}."), mut("Setze {e} an die Stelle 1 von {l}."),
            mut("Setze die Elemente in {l} an die Stelle 1 von {l}."), mut("Lösche das Element an der Stelle 1 aus {l}."),
            mut("Lösche alle Elemente von {n} bis {m} aus {l}."), mut("Fülle {l} mit {e}."),
            mut("Speichere {l} gespiegelt in {l}."), mut("Speichere die ersten {n} Elemente von {l} in {l}."), mut("Speichere die letzten {m} Elemente von {l} in {l}."),
            lambda: P % ("listZ %s enthält" % z()), lambda: P % ("listT %s enthält" % t()), lambda: P % ("der Index von %s in listZ" % z()),
            lambda: P % ("der Index von %s in listT" % t()), lambda: P % ("der Index von %s in listC" % c()),
            lambda: "Schreibe den Wahrheitswert (%s leer ist) auf eine Zeile." % lst(),
            lambda: P % ("%s gespiegelt" % zl()), lambda: P % ("die ersten %s Elemente von %s" % (pz(), tl())), lambda: P % ("die letzten %s Elemente von %s" % (pz(), kl())),
            lambda: "Schreibe den Text (%s aneinandergehängt) auf eine Zeile." % cl(),
            lambda: P % ("eine aufsteigende Zahlen Liste von %s bis %s" % (z(-9, 3), z(3, 15))), lambda: P % ("eine absteigende Zahlen Liste von %s bis %s" % (z(3, 15), z(-9, 3))),
            lambda: P % ("eine lineare Kommazahlen Liste von %s bis %s mit %d Elementen" % (pk(), pk(), self.r.randint(2, 9))),
            lambda: P % ("die Summe aller Zahlen in %s" % zl()), lambda: P % ("das Produkt aller Zahlen in %s" % zl()), lambda: P % ("die Summe aller Kommazahlen in %s" % kl()),
            lambda: P % ("die Summe aller Zahlen in listZ"), lambda: P % ("das Produkt aller Kommazahlen in %s" % kl()),
            lambda: P % ("jede Zahl aus %s mit %s addiert" % self.pair(z)), lambda: P % ("jede Zahl aus %s mit %s multipliziert" % self.pair(z)),
            lambda: P % ("jeden Text aus %s mit %s verkettet" % self.pair(t)), lambda: P % ("alle Texte in %s aneinandergehängt" % tl()),
            # ---- Texte
            lambda: P % ("%s %s enthält" % (t(), c())), lambda: P % ("%s %s enthält" % (t(), t())), lambda: P % ("%s am Anfang von %s steht" % (c(), t())),
            lambda: P % ("%s am Ende von %s steht" % (t(), t())), lambda: P % ("%s an %s gespalten" % (t(), c())), lambda: P % ("%s an %s gespalten" % (t(), '" "')),
            lambda: P % ("%s mit %s verglichen kleiner als 0 ist" % (t(), t())), lambda: P % ("%s mit %s ' ' links gepolstert" % (t(), pz())),
            lambda: P % ("%s mit %s '*' rechts gepolstert" % (t(), pz())), lambda: P % ("%s mit allen ' ' davor und danach entfernt" % t()),
            lambda: P % ("%s mit allen ' ' davor entfernt" % t()), lambda: P % ("%s mit den ersten %s Buchstaben entfernt" % (t(), z())),
            lambda: P % ("%s mit den letzten %s Buchstaben entfernt" % (t(), z())), lambda: P % ("%s mit dem Trennzeichen '-' zum Text verbunden" % tl()),
            lambda: P % ("%s mit dem Trennzeichen ';' zum Text verbunden" % zl()), lambda: P % ("alle Worte in %s" % t()), lambda: P % ("den Index von %s in %s" % (t(), t())),
            lambda: P % ("die Anzahl der %s Buchstaben in %s" % (c(), t())), lambda: P % ("die Anzahl der Subtexte %s in %s" % (t(), t())),
            lambda: P % ("die Buchstaben in %s" % t()), lambda: P % ("die Bytes von %s" % t()), lambda: P % ("die Levenshtein-Distanz zwischen %s und %s" % (t(), t())),
            lambda: P % ("text groß geschrieben"), lambda: P % ("%s klein geschrieben" % t()), lambda: P % ("alle Indizes vom Subtext %s in %s" % (t(), t())),
            lambda: P % ("%s in eine Zahl umgewandelt werden kann" % t()),
            lambda: "Füge %s an text an.\n%s" % (t(), show["text"]), lambda: "Füge %s an text an.\n%s" % (c(), show["text"]), lambda: "Stelle %s vor text.\n%s" % (t(), show["text"]),
            lambda: "Entferne %s Buchstaben am Anfang von text.\n%s" % (z(-2, 4), show["text"]), lambda: "Entferne %s Buchstaben am Ende von text.\n%s" % (z(-2, 4), show["text"]),
            lambda: "Entferne alle ' ' vor text.\n" + show["text"], lambda: "Setze %s an die Stelle 1 von text.\n%s" % (t(), show["text"]),
            lambda: "Speichere (text verkettet mit %s) in text.\n%s" % (t(), show["text"]),
            # ---- Mathe
            lambda: P % ("die größere Zahl von %s und %s" % (z(), z())), lambda: P % ("die kleinere Zahl von %s, %s und %s" % (z(), z(), z())),
            lambda: P % ("%s zwischen %s und %s" % (z(), z(-9, 3), z(3, 30))), lambda: P % ("das Vorzeichen von %s" % z()), lambda: P % ("die größere Zahl von %s und %s" % (k(), k())),
            lambda: P % ("%s nach unten gerundet" % k()), lambda: P % ("%s nach oben gerundet" % k()), lambda: P % ("%s trunkiert" % k()), lambda: P % ("%s auf 1 Stellen gerundet" % pk()),
            lambda: P % ("der größte gemeinsame Teiler von %s und %s" % (pz(), pz())), lambda: P % ("das kleinste gemeinsame Vielfache von %s und %s" % (pz(), pz())),
            lambda: P % ("alle Primfaktoren von %s" % pz()), lambda: P % ("alle Teiler von %s" % pz()), lambda: P % ("%s zum quadrat" % pk()), lambda: P % ("%s durch %s teilbar ist" % (pz(), pz())),
            lambda: P % ("%s eine gerade Zahl ist" % z()), lambda: P % ("%s Fakultät" % z(0, 12)), lambda: P % ("(der Sinus von %s) mal 1000,0 trunkiert" % pk()),
            lambda: P % ("(der Kosinus von %s) mal 1000,0 trunkiert" % pk()), lambda: P % ("(der natürlicher Logarithmus von %s) mal 1000,0 trunkiert" % pk()),
            # ---- Zahlen
            lambda: P % ("%s Dutzend" % pz()), lambda: P % ("%s Million" % pz()), lambda: P % ("%s in Hexadezimal" % pz()), lambda: P % ('die Hexadezimalzahl "%x"' % self.r.randint(0, 70000)),
            lambda: P % ("zwei Drittel"), lambda: P % ("der maximale Wert einer Zahl minus %s" % pz()), lambda: P % ("hundert plus %s" % z()), lambda: P % ("anderthalb mal %s" % pz()),
            # ---- control flow around library calls
            lambda: "Für jede Zahl i von 1 bis %d, mache:\n\tFüge (i mal %s) an listZ an.\n%s" % (self.r.randint(1, 5), z(), show["listZ"]),
            lambda: "Für jeden Text w in (alle Worte in %s), mache:\n\tFüge (w groß geschrieben) an listT an.\n%s" % (t(), show["listT"]),
            lambda: "Wenn (listZ %s enthält), dann:\n\tLeere listZ.\nSonst:\n\tFüge %s an listZ an.\n%s" % (z(), z(), show["listZ"]),
            lambda: "Wenn die Länge von listT größer als %d ist, dann:\n\tLösche das Element an der Stelle 1 aus listT.\n%s" % (self.r.randint(1, 4), show["listT"]),
        ]
        return T

    HEAD = '''Binde "Duden/Ausgabe" ein.
Binde "Duden/Listen" ein.
Binde "Duden/Texte" ein.
Binde "Duden/Mathe" ein.
Binde "Duden/Zahlen" ein.

'''

    def state(self):
        return ("Die Zahlen Liste listZ ist %s.\nDie Kommazahlen Liste listK ist %s.\nDie Text Liste listT ist %s.\nDie Buchstaben Liste listC ist %s.\nDer Text text ist %s.\n\n"
                % (self.zl()[1:-1], self.kl()[1:-1], self.tl()[1:-1], self.cl()[1:-1], self.t()))

    def program(self, nst=None):
        T = self.templates()
        n = nst or self.r.randint(12, 28)
        body = [self.r.choice(T)() for _ in range(n)]
        return self.HEAD + self.state() + "\n".join(body) + "\n"

    def every_template(self):
        """one program per template (used once per run in the thorough tier and by the self test)"""
        return [(i, self.HEAD + self.state() + f() + "\n") for i, f in enumerate(self.templates())]


def src_duden(rng, n):
    g = DudenGen(rng)
    return [Source("duden", {"prog.ddp": g.program()}, "prog.ddp", meta=dict(n=i)) for i in range(n)]


# ---- multi-module programs -----------------------------------------------------------------------------------------------
def multi_module(rng, i):
    """main imports `formen` (Kombination + functions + a global) and `zaehler` (globals, functions with Referenz parameters,
    itself importing `formen` in half of the programs); whole-module and selective imports"""
    r = rng
    a, bq, cq = r.randint(1, 9), r.randint(1, 9), r.randint(2, 5)
    w1, w2 = r.choice(WORDS[3:]), r.choice(WORDS[3:])
    dep = r.random() < 0.5
    sel = r.random() < 0.5
    formen = '''Binde "Duden/Ausgabe" ein.
Binde "Duden/Listen" ein.

Wir nennen die öffentliche Kombination aus
	der öffentlichen Zahl breite mit Standardwert %d,
	der öffentlichen Zahl hoehe mit Standardwert %d,
	dem öffentlichen Text etikett mit Standardwert "%s",
	der öffentlichen Zahlen Liste marken mit Standardwert eine leere Zahlen Liste,
ein Rechteck, und erstellen sie so:
	"ein Rechteck mit breite <breite> und hoehe <hoehe>" oder
	"ein beschriftetes Rechteck <etikett> mit breite <breite>"

Die öffentliche Zahl formen_gezaehlt ist 0.
Der öffentliche Text formen_protokoll ist "start".
Die öffentliche Zahlen Liste formen_flaechen ist eine leere Zahlen Liste.

Die öffentliche Funktion flaeche mit dem Parameter r vom Typ Rechteck, gibt eine Zahl zurück, macht:
	Erhöhe formen_gezaehlt um 1.
	Füge ((breite von r) mal (hoehe von r)) an formen_flaechen an.
	Gib (breite von r) mal (hoehe von r) zurück.
Und kann so benutzt werden:
	"die Fläche von <r>"

Die öffentliche Funktion strecke mit den Parametern r und f vom Typ Rechteck Referenz und Zahl, gibt nichts zurück, macht:
	Speichere (breite von r) mal f in breite von r.
	Füge f an (marken von r) an.
	Speichere formen_protokoll verkettet mit "|" verkettet mit (etikett von r) in formen_protokoll.
Und kann so benutzt werden:
	"Strecke <r> um <f>"

Die öffentliche Funktion zeige_rechteck mit dem Parameter r vom Typ Rechteck, gibt nichts zurück, macht:
	Schreibe (etikett von r).
	Schreibe ':'.
	Schreibe (breite von r).
	Schreibe 'x'.
	Schreibe (hoehe von r).
	Schreibe ' '.
	Schreibe (marken von r) auf eine Zeile.
Und kann so benutzt werden:
	"Zeige das Rechteck <r>"

Die öffentliche Funktion kopie_gestreckt mit den Parametern r und f vom Typ Rechteck und Zahl, gibt ein Rechteck zurück, macht:
	Speichere (breite von r) mal f in breite von r.
	Speichere (etikett von r) verkettet mit "'" in etikett von r.
	Gib r zurück.
Und kann so benutzt werden:
	"<r> um <f> gestreckt"
''' % (a, bq, w1)
    zaehler = '''Binde "Duden/Ausgabe" ein.
Binde "Duden/Texte" ein.
%s
Die öffentliche Zahl stand ist %d.
Die öffentliche Text Liste verlauf ist eine Liste, die aus "%s" besteht.

Die öffentliche Funktion zaehle mit dem Parameter schritt vom Typ Zahl, gibt eine Zahl zurück, macht:
	Erhöhe stand um schritt.
	Speichere verlauf verkettet mit (stand als Text) in verlauf.
	Gib stand zurück.
Und kann so benutzt werden:
	"zähle um <schritt> weiter"

Die öffentliche Funktion haenge_an mit den Parametern ziel und wort vom Typ Text Referenz und Text, gibt nichts zurück, macht:
	Speichere ziel verkettet mit (wort groß geschrieben) in ziel.
	Speichere verlauf verkettet mit wort in verlauf.
Und kann so benutzt werden:
	"Hänge <wort> groß an <ziel>"

Die öffentliche Funktion verlauf_text gibt einen Text zurück, macht:
	Gib (verlauf mit dem Trennzeichen ',' zum Text verbunden) zurück.
Und kann so benutzt werden:
	"der Verlauf als Text"
%s''' % ('Binde "formen" ein.\n' if dep else "", cq, w2,
         '''
Die öffentliche Funktion zaehle_flaeche mit dem Parameter r vom Typ Rechteck, gibt eine Zahl zurück, macht:
	Gib (zähle um (die Fläche von r) weiter) zurück.
Und kann so benutzt werden:
	"zähle die Fläche von <r> dazu"
''' if dep else "")
    imp = 'Binde "formen" ein.\n' + ('Binde zaehle, haenge_an, verlauf_text, stand und verlauf%s aus "zaehler" ein.\n' % (" und zaehle_flaeche" if False else "") if sel and not dep else 'Binde "zaehler" ein.\n')
    st = []
    st.append("Das Rechteck r1 ist ein Rechteck mit breite %d und hoehe %d." % (r.randint(1, 9), r.randint(1, 9)))
    st.append('Das Rechteck r2 ist ein beschriftetes Rechteck "%s" mit breite %d.' % (r.choice(WORDS[3:]), r.randint(1, 9)))
    st.append('Der Text t ist "%s".' % r.choice(WORDS))
    pool = [
        lambda: "Schreibe (die Fläche von r%d) auf eine Zeile." % r.randint(1, 2),
        lambda: "Strecke r%d um %d.\nZeige das Rechteck r%d." % (r.randint(1, 2), r.randint(2, 4), r.randint(1, 2)),
        lambda: "Zeige das Rechteck (r%d um %d gestreckt).\nZeige das Rechteck r1.\nZeige das Rechteck r2." % (r.randint(1, 2), r.randint(2, 5)),
        lambda: "Speichere (r%d um %d gestreckt) in r%d.\nZeige das Rechteck r1.\nZeige das Rechteck r2." % (r.randint(1, 2), r.randint(2, 5), r.randint(1, 2)),
        lambda: "Schreibe (zähle um %d weiter) auf eine Zeile." % r.randint(-3, 9),
        lambda: 'Hänge "%s" groß an t.\nSchreibe t auf eine Zeile.' % r.choice(WORDS),
        lambda: "Hänge t groß an t.\nSchreibe t auf eine Zeile.",
        lambda: "Schreibe (der Verlauf als Text) auf eine Zeile.",
        lambda: "Schreibe stand auf eine Zeile.\nSchreibe verlauf auf eine Zeile.",
        lambda: "Schreibe formen_gezaehlt auf eine Zeile.\nSchreibe formen_protokoll auf eine Zeile.\nSchreibe formen_flaechen auf eine Zeile.",
        lambda: "Speichere %d in stand.\nSchreibe (zähle um 1 weiter) auf eine Zeile." % r.randint(0, 50),
        lambda: "Speichere formen_protokoll verkettet mit t in formen_protokoll.\nSchreibe formen_protokoll auf eine Zeile.",
        lambda: "Füge %d an (marken von r%d) an.\nZeige das Rechteck r%d." % (r.randint(0, 99), r.randint(1, 2), r.randint(1, 2)),
        lambda: "Speichere r1 in r2.\nStrecke r1 um 3.\nZeige das Rechteck r1.\nZeige das Rechteck r2.",
        lambda: "Für jede Zahl i von 1 bis %d, mache:\n\tStrecke r1 um i.\n\tSchreibe (zähle um i weiter) auf eine Zeile.\nZeige das Rechteck r1." % r.randint(1, 4),
    ]
    if dep:
        pool.append(lambda: "Schreibe (zähle die Fläche von r%d dazu) auf eine Zeile." % r.randint(1, 2))
    for _ in range(r.randint(6, 14)):
        st.append(r.choice(pool)())
    st.append("Zeige das Rechteck r1.\nZeige das Rechteck r2.\nSchreibe t auf eine Zeile.\nSchreibe (der Verlauf als Text) auf eine Zeile.\nSchreibe formen_protokoll auf eine Zeile.")
    main = 'Binde "Duden/Ausgabe" ein.\nBinde "Duden/Listen" ein.\n' + imp + "\n" + "\n".join(st) + "\n"
    return Source("modules", {"prog.ddp": main, "formen.ddp": formen, "zaehler.ddp": zaehler}, "prog.ddp", meta=dict(n=i, dependent=dep, selective=sel and not dep))


# ---- arithmetic at the edge of what the emitted LLVM instructions define -------------------------------------------------
MINZ = "(0 minus 9223372036854775807 minus 1)"
ARITH = {
    # op label: (type of a, type of b or None, expression over a and b, operand pairs outside the instruction's domain, pairs inside)
    "modulo by zero": ("Zahl", "Zahl", "a modulo b", [("7", "0"), ("-3", "0"), ("0", "0")], [("7", "3"), ("-7", "2"), ("0", "5")]),
    "minimal Zahl modulo -1": ("Zahl", "Zahl", "a modulo b", [(MINZ, "-1")], [(MINZ, "1"), ("9223372036854775807", "-1")]),
    "shift count outside 0..63": ("Zahl", "Zahl", "a um b Bit nach links verschoben", [("1", "64"), ("5", "65"), ("3", "1000"), ("1", "-1")], [("1", "63"), ("5", "0"), ("-1", "1")]),
    "right shift count outside 0..63": ("Zahl", "Zahl", "a um b Bit nach rechts verschoben", [("1024", "64"), ("-8", "200"), ("7", "-3")], [("1024", "3"), ("-8", "63")]),
    "Kommazahl to Zahl outside the Zahl range": ("Kommazahl", None, "a als Zahl", [("10,0 hoch 30",), ("0 minus (10,0 hoch 30)",), ("0,0 durch 0,0",), ("1,0 durch 0,0",), ("9223372036854775807,0 mal 2,0",)],
                                               [("3,9",), ("-2,5",), ("4611686018427387904,0",), ("0,0",)]),
    # |minimal Zahl| is the minimal Zahl again (two's complement): a sign test of the result must not be folded away
    "sign of the Betrag of the minimal Zahl": ("Zahl", None, "((der Betrag von a) kleiner als 0 ist) als Zahl", [(MINZ,), ("(0 minus 4611686018427387904) mal 2",)], [("-5",), ("7",), ("0 minus 9223372036854775807",)]),
}
ARITH_FORMS = ("literal", "variable", "parameter", "list element")


def arith_program(op, pair, form, inside):
    ta, tb, expr, _, _ = ARITH[op]
    s = 'Binde "Duden/Ausgabe" ein.\n\n'
    two = tb is not None
    if form == "literal":
        e = re.sub(r"\ba\b", "(%s)" % pair[0], expr)
        if two:
            e = re.sub(r"\bb\b", "(%s)" % pair[1], e)
        body = "Schreibe (%s) auf eine Zeile.\n" % e
    elif form == "variable":
        body = "Die %s a ist %s.\n" % (ta, pair[0]) + ("Die %s b ist %s.\n" % (tb, pair[1]) if two else "") + "Schreibe (%s) auf eine Zeile.\n" % expr
    elif form == "parameter":
        if two:
            s += ("Die Funktion rechne mit den Parametern a und b vom Typ %s und %s, gibt eine Zahl zurück, macht:\n\tGib %s zurück.\nUnd kann so benutzt werden:\n\t\"rechne <a> mit <b>\"\n\n" % (ta, tb, expr))
            body = "Schreibe (rechne (%s) mit (%s)) auf eine Zeile.\n" % pair
        else:
            s += ("Die Funktion rechne mit dem Parameter a vom Typ %s, gibt eine Zahl zurück, macht:\n\tGib %s zurück.\nUnd kann so benutzt werden:\n\t\"rechne <a>\"\n\n" % (ta, expr))
            body = "Schreibe (rechne (%s)) auf eine Zeile.\n" % pair[0]
    else:
        lt = {"Zahl": "Zahlen Liste", "Kommazahl": "Kommazahlen Liste"}[ta]
        e = re.sub(r"\ba\b", "(werte an der Stelle 1)", expr)
        if two:
            e = re.sub(r"\bb\b", "(werte an der Stelle 2)", e)
        body = "Die %s werte ist eine Liste, die aus %s besteht.\nSchreibe (%s) auf eine Zeile.\n" % (lt, ", ".join("(%s)" % x for x in pair), e)
    # nothing is printed before the operation: what an LLVM `undef` shows is whatever the argument register holds
    s += body + 'Schreibe "nach" auf eine Zeile.\n'
    return Source("arith", {"prog.ddp": s}, "prog.ddp", meta=dict(op=op if not inside else "inside the domain (control)", instruction=op, operands=list(pair), form=form))


def src_arith(rng, n_out, n_in):
    cells_out = [(op, p, f) for op in ARITH for p in ARITH[op][3] for f in ARITH_FORMS]
    cells_in = [(op, p, f) for op in ARITH for p in ARITH[op][4] for f in ARITH_FORMS]
    rng.shuffle(cells_out)
    rng.shuffle(cells_in)
    if n_out < len(cells_out):
        # every op at least once, in different forms
        first = []
        for i, op in enumerate(ARITH):
            first.append(next(c for c in cells_out if c[0] == op and c[2] == ARITH_FORMS[i % 4]))
        cells_out = first + [c for c in cells_out if c not in first]
    return [arith_program(op, p, f, False) for (op, p, f) in cells_out[:n_out]] + [arith_program(op, p, f, True) for (op, p, f) in cells_in[:n_in]]


# ---- a value parameter written through a Referenz callee that stands inside an argument of another call ------------------
NESTED_TYPES = {
    "T": dict(val="Text", ref="Text Referenz", decl="Der Text", lits=['"Hallo Welt"', '"abc"', '"ein etwas laengerer Text mit mehr als dreissig Zeichen"'],
              writes=['Speichere "veraendert" in r.', 'Speichere r verkettet mit "+angehaengt und lang genug fuer einen neuen Puffer" in r.', "Speichere 'X' in r an der Stelle 1."]),
    "ZL": dict(val="Zahlen Liste", ref="Zahlen Listen Referenz", decl="Die Zahlen Liste", lits=["eine Liste, die aus 1, 2, 3 besteht", "eine Liste, die aus 5 besteht", "eine Liste, die aus 4, 8, 15, 16, 23, 42, 4, 8, 15, 16, 23, 42 besteht"],
               writes=["Speichere (eine Liste, die aus 9, 9 besteht) in r.", "Speichere r verkettet mit 77 in r.", "Speichere 42 in r an der Stelle 1.", "Füge 13 an r an."]),
    "TL": dict(val="Text Liste", ref="Text Listen Referenz", decl="Die Text Liste", lits=['eine Liste, die aus "a", "b" besteht', 'eine Liste, die aus "eins", "zwei", "drei", "vier", "fuenf", "sechs", "sieben" besteht'],
               writes=['Speichere (eine Liste, die aus "neu" besteht) in r.', 'Speichere r verkettet mit "hinten" in r.', 'Speichere "ersetzt" in r an der Stelle 1.', 'Füge "dran" an r an.']),
}
NESTED_FORMS = {
    # how the Referenz call `ersetze p` is nested inside an argument of another call
    "argument of a function": "Gib das Doppelte von (ersetze p) zurück.",
    "argument of a Duden function": "Gib die größere Zahl von (ersetze p) und 0 zurück.",
    "two levels deep": "Gib das Doppelte von (das Doppelte von (ersetze p)) zurück.",
    "argument of a call statement": "Schreibe (das Doppelte von (ersetze p)) auf eine Zeile.\n\tGib 0 zurück.",
    "second argument": "Gib die Summe von 1 und (ersetze p) zurück.",
    "inside an operator inside an argument": "Gib das Doppelte von ((ersetze p) plus 1) zurück.",
}
NESTED_TEMPLATE = """Binde "Duden/Ausgabe" ein.
Binde "Duden/Listen" ein.
Binde "Duden/Mathe" ein.

Die Funktion Ersetze mit dem Parameter r vom Typ %s, gibt eine Zahl zurück, macht:
	%s
	Gib %d zurück.
Und kann so benutzt werden:
	"ersetze <r>"

Die Funktion Doppelt mit dem Parameter n vom Typ Zahl, gibt eine Zahl zurück, macht:
	Gib n mal 2 zurück.
Und kann so benutzt werden:
	"das Doppelte von <n>"

Die Funktion Summe mit den Parametern a und b vom Typ Zahl und Zahl, gibt eine Zahl zurück, macht:
	Gib a plus b zurück.
Und kann so benutzt werden:
	"die Summe von <a> und <b>"

Die Funktion Halte mit dem Parameter p vom Typ %s, gibt eine Zahl zurück, macht:
	%s
Und kann so benutzt werden:
	"halte <p>"

Die Funktion Haupt gibt nichts zurück, macht:
	%s original ist %s.
	%s zweites ist original.
	Die Zahl n ist halte original.
	Schreibe n auf eine Zeile.
	Schreibe original auf eine Zeile.
	Schreibe zweites auf eine Zeile.
	Speichere (halte zweites) in n.
	Schreibe zweites auf eine Zeile.
Und kann so benutzt werden:
	"führe den Test aus"

führe den Test aus.
Schreibe "ende" auf eine Zeile.
"""


def nested_call_program(rng, ty, form, write):
    t = NESTED_TYPES[ty]
    lit = rng.choice(t["lits"])
    src = NESTED_TEMPLATE % (t["ref"], write, rng.randint(1, 9), t["val"], NESTED_FORMS[form], t["decl"], lit, t["decl"])
    return Source("nested-call", {"prog.ddp": src}, "prog.ddp", meta=dict(ty=ty, form=form, write=write))


def src_nested(rng, n):
    cells = [(ty, f, w) for ty in NESTED_TYPES for f in NESTED_FORMS for w in NESTED_TYPES[ty]["writes"]]
    rng.shuffle(cells)
    if n < len(cells):
        # every nesting form and every type before anything repeats
        pick, forms, tys = [], set(), set()
        for c in cells:
            if c[1] not in forms or c[0] not in tys:
                pick.append(c)
                forms.add(c[1])
                tys.add(c[0])
        cells = pick + [c for c in cells if c not in pick]
    return [nested_call_program(rng, *c) for c in cells[:n]]


# ---- operations that must stop with a Laufzeitfehler although their result is never used ------------------------------------
DEAD = {
    # label: (parameter list, declaration of an unused local from the failing operation, (plain declaration, assignment form), good call, [bad calls])
    "Text index": ("mit den Parametern t und i vom Typ Text und Zahl", "Der Buchstabe b ist t an der Stelle i.", ("Der Buchstabe b ist 'x'.", "Speichere (t an der Stelle i) in b."),
                   '"abc" bei 2', ['"abc" bei 10', '"abc" bei 0', '"" bei 1', '"aeoe" bei -1']),
    "Zahlen Liste index": ("mit den Parametern t und i vom Typ Zahlen Liste und Zahl", "Die Zahl b ist t an der Stelle i.", ("Die Zahl b ist 0.", "Speichere (t an der Stelle i) in b."),
                           "(eine Liste, die aus 1, 2, 3 besteht) bei 2", ["(eine Liste, die aus 1, 2, 3 besteht) bei 4", "(eine Liste, die aus 1, 2, 3 besteht) bei 0", "(eine leere Zahlen Liste) bei 1"]),
    "Text Liste index": ("mit den Parametern t und i vom Typ Text Liste und Zahl", "Der Text b ist t an der Stelle i.", ('Der Text b ist "".', "Speichere (t an der Stelle i) in b."),
                         '(eine Liste, die aus "a", "b" besteht) bei 1', ['(eine Liste, die aus "a", "b" besteht) bei 3', '(eine Liste, die aus "a", "b" besteht) bei -2']),
    "Text slice with crossed bounds": ("mit den Parametern t und i vom Typ Text und Zahl", "Der Text b ist t im Bereich von i bis 2.", ('Der Text b ist "".', "Speichere (t im Bereich von i bis 2) in b."),
                                       '"abcdef" bei 1', ['"abcdef" bei 5', '"abcdef" bei 3']),
    "Zahlen Liste slice with crossed bounds": ("mit den Parametern t und i vom Typ Zahlen Liste und Zahl", "Die Zahlen Liste b ist t im Bereich von i bis 2.", ("Die Zahlen Liste b ist eine leere Zahlen Liste.", "Speichere (t im Bereich von i bis 2) in b."),
                                               "(eine Liste, die aus 1, 2, 3, 4 besteht) bei 2", ["(eine Liste, die aus 1, 2, 3, 4 besteht) bei 4"]),
    "Variable cast to the wrong type": ("mit den Parametern t und i vom Typ Text und Zahl", "Die Zahl b ist v als Zahl.", ("Die Zahl b ist 0.", "Speichere (v als Zahl) in b."),
                                        '"x" bei 1', ['"x" bei 0', '"x" bei 2']),
}
DEAD_FORMS = ("declaration", "assignment")
DEAD_TEMPLATE = """Binde "Duden/Ausgabe" ein.

Die Funktion Pruefe %s, gibt eine Zahl zurück, macht:
%s	Gib i zurück.
Und kann so benutzt werden:
	"prüfe <t> bei <i>"

Die Funktion Haupt gibt nichts zurück, macht:
	Schreibe "vorher" auf eine Zeile.
	Schreibe (prüfe %s) auf eine Zeile.
	Schreibe "mitte" auf eine Zeile.
	Schreibe (prüfe %s) auf eine Zeile.
	Schreibe "nachher" auf eine Zeile.
Und kann so benutzt werden:
	"führe den Test aus"

führe den Test aus.
"""


def dead_error_program(rng, op, form, bad):
    params, decl, (d0, asg), good, _ = DEAD[op]
    pre = ""
    if op.startswith("Variable"):
        pre = "\tDie Variable v ist t.\n\tWenn i gleich 1 ist, dann:\n\t\tSpeichere 7 in v.\n"
    body = pre + ("\t" + decl + "\n" if form == "declaration" else "\t" + d0 + "\n\t" + asg + "\n")
    return Source("dead-error", {"prog.ddp": DEAD_TEMPLATE % (params, body, good, bad)}, "prog.ddp", meta=dict(op=op, form=form, bad=bad))


def src_dead(rng, n):
    cells = [(op, f, b) for op in DEAD for f in DEAD_FORMS for b in DEAD[op][4]]
    rng.shuffle(cells)
    if n < len(cells):
        pick, ops = [], set()
        for c in cells:
            if c[0] not in ops:
                pick.append(c)
                ops.add(c[0])
        cells = pick + [c for c in cells if c not in pick]
    return [dead_error_program(rng, *c) for c in cells[:n]]


# ---- upstream goldens ----------------------------------------------------------------------------------------------------
GOLDEN_SKIP = re.compile(r"Befehlszeilenargumente|Duden/(Regex|Komprimierung|Netzwerk|Uri|Eingabe|Zufall|Zeit|Dateisystem|UnterProzess|Umgebungsvariablen|Kryptographie|Befehlszeile|Laufzeit\b.*Arbeitsverzeichnis)")


def goldens(copy_root):
    """every directory D of tests/testdata/{kddp,stdlib} holding D/<name of D>.ddp and expected.txt (kddp_test.go:134-160),
    from a private copy of testdata; programs that need stdin, the command line, the clock, randomness, the file system,
    the environment or an unavailable external library are left out (named in the evidence)"""
    out, skipped = [], []
    src_root = os.path.join(vlib.REPO, "tests", "testdata")
    if not os.path.isdir(src_root):
        return out, skipped
    shutil.copytree(src_root, copy_root)
    for d, dirs, fs in os.walk(copy_root):
        dirs.sort()
        base = os.path.basename(d)
        main = os.path.join(d, base + ".ddp")
        if not (os.path.exists(main) and "expected.txt" in fs):
            continue
        rel = os.path.relpath(d, copy_root)
        why = None
        if "input.txt" in fs:
            why = "reads stdin"
        else:
            for f in [main] + import_closure(main, "/nonexistent-ddppath"):
                if os.path.exists(f) and GOLDEN_SKIP.search(strip_comments(open(f, encoding="utf-8", errors="replace").read())):
                    why = "uses " + GOLDEN_SKIP.search(strip_comments(open(f, encoding="utf-8", errors="replace").read())).group(0)
                    break
        if why:
            skipped.append((rel, why))
            continue
        s = Source("golden", None, main, meta=dict(dir=rel))
        s.path = main
        out.append(s)
    return out, skipped


# ------------------------------------------------------------------------------------------------
# running one source in all configurations
# ------------------------------------------------------------------------------------------------
class Runner:
    def __init__(self, b, sc):
        self.b, self.sc = b, sc
        self.bu = Builder(b)
        self.n = 0
        self.lock = threading.Lock()
        self.runs = 0
        self.twice = True      # thorough: every executable twice; quick: only non-ok outcomes and the arith kind

    def materialise(self, s):
        if s.path:
            return
        with self.lock:
            self.n += 1
            d = os.path.join(self.sc, "s%d" % self.n)
        os.makedirs(d)
        for name, txt in s.files.items():
            open(os.path.join(d, name), "w", encoding="utf-8").write(txt)
        s.path = os.path.join(d, s.main)

    def outdir(self):
        with self.lock:
            self.n += 1
            d = os.path.join(self.sc, "o%d" % self.n)
        os.makedirs(d)
        return d

    def run_level(self, s, opt, links=((True, True), (True, False), (False, True), (False, False)), asan=False, twice=None):
        """{(opt, ml, ll): outcome} for one -O level; outcome = (class, stdout, detail) or ('build', stage, log)"""
        self.materialise(s)
        od = self.outdir()
        res = {}
        modobjs, mlog, clo = None, "", []
        if any(not ml for ml, _ in links):
            modobjs, mlog, clo = self.bu.module_objects(s.path, opt, od)
        for ml, ll in links:
            cfg = (opt, ml, ll)
            if not ml and modobjs is None:
                res[cfg] = ("build", "module", mlog)
                continue
            exe = os.path.join(od, "p_%d%d" % (ml, ll))
            r = self.bu.build(s.path, exe, cfg, modobjs or [], asan=asan)
            if r["stage"] != "ok":
                extra = ""
                if not ml and r["stage"] == "link" and os.path.exists(exe + ".o"):
                    unk = self.bu.check_closure(exe + ".o", modobjs)
                    if unk:
                        extra = " [modules referenced by the object but not found by the import scan: %s]" % unk
                res[cfg] = ("build", r["stage"], (r["out"][-1500:] + extra))
                continue
            if not ml:
                unk = self.bu.check_closure(exe + ".o", modobjs)
                if unk:
                    res[cfg] = ("build", "closure", "the object references module init functions the import scan did not find: %s" % unk)
                    continue
            res[cfg] = self.run_exe(exe, s, asan)
            again_wanted = self.twice if twice is None else twice
            if res[cfg][0] not in ("timeout",) and (again_wanted or s.kind == "arith" or res[cfg][0] != "ok"):
                # a second run of the same executable: output that changes from run to run (values derived from addresses,
                # i.e. LLVM undef/poison or reads of freed storage) is its own class
                again = self.run_exe(exe, s, asan)
                if not same(res[cfg], again):
                    res[cfg] = ("nondeterministic", "", "run 1: %r; run 2: %r" % (brief(res[cfg])[:2], brief(again)[:2]))
            for ext in ("", ".o"):
                try:
                    os.remove(exe + ext)
                except OSError:
                    pass
        shutil.rmtree(od, ignore_errors=True)
        return res

    def run_exe(self, exe, s, asan=False):
        rc, out, err = self.b.run(exe, timeout=60 if asan else 30, cwd=os.path.dirname(s.path))
        if rc == -9:
            rc, out, err = self.b.run(exe, timeout=120, cwd=os.path.dirname(s.path))   # once more, patiently: a loaded machine
        with self.lock:
            self.runs += 1
        return observed(rc, out, err)

    def run_all(self, s, opts=OPTS):
        """all levels of one source at once (used by attribution and shrinking, which are sequential otherwise)"""
        self.materialise(s)
        res = {}
        with ThreadPoolExecutor(max_workers=len(opts)) as ex:
            for r in ex.map(lambda o: self.run_level(s, o), opts):
                res.update(r)
        return res


# ------------------------------------------------------------------------------------------------
# analysis of the 12 outcomes of one source
# ------------------------------------------------------------------------------------------------
def partition(levels, get):
    """'O0=O1|O2' style description of which levels agree"""
    groups = []
    for o in levels:
        for g in groups:
            if same(get(g[0]), get(o)):
                g.append(o)
                break
        else:
            groups.append([o])
    return "|".join("=".join("O%d" % o for o in g) for g in groups)


def analyse(R, levels=OPTS):
    """differences along each dimension; returns list of (dimension, description, cfg_a, cfg_b)"""
    diffs = []
    links = [(ml, ll) for ml in (True, False) for ll in (True, False)]
    # opt
    parts = {}
    for (ml, ll) in links:
        lv = [o for o in levels if (o, ml, ll) in R]      # the quick tier runs a subset of the 12 configurations
        if len(lv) < 2:
            continue
        p = partition(lv, lambda o: R[(o, ml, ll)])
        if "|" in p:
            parts.setdefault(p, []).append((ml, ll))
    for p, ls in sorted(parts.items()):
        g = p.split("|")
        a = int(g[0].split("=")[0][1:])
        bb = int(g[1].split("=")[0][1:])
        diffs.append(("opt", p, (a,) + ls[0], (bb,) + ls[0], [link_name(*l) for l in ls]))
    # modules
    at = [(o, ll) for o in levels for ll in (True, False) if (o, True, ll) in R and (o, False, ll) in R and not same(R[(o, True, ll)], R[(o, False, ll)])]
    if at:
        o, ll = at[0]
        diffs.append(("modules", "separate objects vs one LLVM module at " + ",".join(sorted({"O%d" % x[0] for x in at})), (o, True, ll), (o, False, ll), ["O%d/%s" % (x[0], "listdefs-linked" if x[1] else "listdefs-external") for x in at]))
    at = [(o, ml) for o in levels for ml in (True, False) if (o, ml, True) in R and (o, ml, False) in R and not same(R[(o, ml, True)], R[(o, ml, False)])]
    if at:
        o, ml = at[0]
        diffs.append(("listdefs", "external object vs linked in at " + ",".join(sorted({"O%d" % x[0] for x in at})), (o, ml, True), (o, ml, False), ["O%d/%s" % (x[0], "modules-linked" if x[1] else "modules-separate") for x in at]))
    return diffs


_UNDEF = re.compile(r"undefined reference to `([^']+)'")
_GENERIC_INST = re.compile(r"-[^\s']*_mod_[0-9a-f]{64}")


def separate_unbuildable(builds):
    """A principled reason why the modules-separate mode cannot build a program: every undefined symbol of every failed link
    belongs to an instantiation of a generic Kombination (mangled `<type arguments>-<name>_mod_<hash of the DECLARING module>`,
    helper.go:201-219). ir_struct_type.go:73-84,100-102 defines the functions of an instantiation only in the declaring module,
    and only for the instantiations the current compiler process has parsed; compiled on its own, the declaring module has
    never seen the instantiation its importer asks for, so no object defines it."""
    syms = set()
    for c, r in builds.items():
        if r[1] != "link":
            return None
        found = _UNDEF.findall(r[2])
        if not found:
            return None
        syms.update(found)
    if syms and all(_GENERIC_INST.search(x) for x in syms):
        return "generic Kombination instantiated by an importing module: %s" % sorted(syms)[0][:120]
    return None


def facts_of(s):
    if s.prog is None:
        return None
    try:
        return sorted(x for x in c08gen.reference(s.prog)[2] if x in ("A", "G", "P"))
    except Exception:
        return None


def judge(rn, s, R):
    """canonical violations of one source: list of (key, what, replay)"""
    out = []
    files = s.replay_files()

    def replay(ca, cb, extra=None):
        d = dict(files=files, main=s.main if s.files else os.path.basename(s.path), kind=s.kind, meta=s.meta, config_a=cfg_name(ca), config_b=cfg_name(cb),
                 output_a=brief(R[ca]), output_b=brief(R[cb]), all_outcomes={cfg_name(c): [R[c][0], hashlib.sha1(repr(R[c][1:]).encode()).hexdigest()[:8]] for c in sorted(R)},
                 how=recipe_text(rn.b))
        if extra:
            d.update(extra)
        return d
    builds = {c: r for c, r in R.items() if r[0] == "build"}
    if builds:
        good = [c for c in R if c not in builds]
        c0 = sorted(builds)[0]
        if not good:
            return [("source does not build in any configuration (%s)" % s.kind, builds[c0][2][-300:], dict(files=files, kind=s.kind, meta=s.meta, stage=builds[c0][1], log=builds[c0][2]))]
        why = separate_unbuildable(builds)
        if why and all(not c[1] for c in builds) and all(c[1] for c in good):
            # principled: the modules-separate mode cannot build this program at all; compare the remaining configurations
            s.meta["modules_separate_unbuildable"] = why
            R = dict(R)
            for c in builds:
                R[c] = R[(c[0], True, c[2])]
        else:
            key = "build: %s builds in some configurations only (%s fail at stage %s)" % (s.kind, ",".join(sorted({link_name(c[1], c[2]) for c in builds})) + " at " + ",".join(sorted({"O%d" % c[0] for c in builds})), builds[c0][1])
            out.append((key, "%s fails to build (%s) while %s builds" % (cfg_name(c0), builds[c0][2][-300:], cfg_name(good[0])),
                        dict(files=files, kind=s.kind, meta=s.meta, config_a=cfg_name(c0), config_b=cfg_name(good[0]), log=builds[c0][2], how=recipe_text(rn.b))))
            return out
    if all(same(R[CONFIGS[0]], R[c]) for c in R):
        return out
    # (1) differences that do not involve -O 2
    for dim, desc, ca, cb, where in analyse(R, levels=(0, 1)):
        out.append(("%s: %s [%s]" % (dim, desc, s.label()), "%s gives %r, %s gives %r (%s)" % (cfg_name(ca), brief(R[ca])[:2], cfg_name(cb), brief(R[cb])[:2], where), replay(ca, cb, dict(where=where))))
    # (2) -O 2 against the lower levels, link mode by link mode (where O0 and O1 already differ, -O 2 only counts when it
    #     agrees with neither)
    links = [(ml, ll) for ml in (True, False) for ll in (True, False) if all((o, ml, ll) in R for o in OPTS)]
    o2 = [l for l in links if same(R[(0,) + l], R[(1,) + l]) and not same(R[(2,) + l], R[(0,) + l])]
    o2x = [l for l in links if not same(R[(0,) + l], R[(1,) + l]) and not same(R[(2,) + l], R[(0,) + l]) and not same(R[(2,) + l], R[(1,) + l])]
    if o2x:
        ml, ll = o2x[0]
        out.append(("opt: O0|O1|O2 [%s]" % s.label(), "three different behaviours in %s: %r / %r / %r" % (link_name(ml, ll), brief(R[(0, ml, ll)])[:2], brief(R[(1, ml, ll)])[:2], brief(R[(2, ml, ll)])[:2]),
                    replay((1, ml, ll), (2, ml, ll), dict(where=[link_name(*l) for l in o2x]))))
    if o2:
        ml, ll = o2[0]
        facts = facts_of(s)
        tail = "[%s]" % s.label()
        extra = dict(o2_differs_in=[link_name(*l) for l in o2])
        removed = None
        if s.prog is not None:
            de = (src_c08 if s.kind == "c08gen" else src_c08_split)(s.meta, c08gen.deelide(s.prog))
            D = rn.run_level(de, 2, links=o2)
            removed = all(D[(2,) + l][0] != "build" and same(D[(2,) + l], R[(0,) + l]) for l in o2)
            extra.update(aliasing_facts=facts, deelided_source=de.files, deelided_O2={link_name(*l): brief(D[(2,) + l]) for l in o2})
            tail = "%s aliasing facts %s; removed by deelide: %s" % (s.kind, ",".join(facts) if facts else "none", "yes" if removed else "no")
        out.append(("opt: O2 differs from O0=O1; %s" % tail, "%s gives %r, %s gives %r; differs in %s" % (cfg_name((0, ml, ll)), brief(R[(0, ml, ll)])[:2], cfg_name((2, ml, ll)), brief(R[(2, ml, ll)])[:2], extra["o2_differs_in"]),
                    replay((0, ml, ll), (2, ml, ll), extra)))
        if removed:
            return out      # the -O 2 executables of this source read freed/changed storage: their mutual differences are consequences
    # (3) link-mode differences at -O 2 only
    for dim, desc, ca, cb, where in analyse(R, levels=(2,)):
        if dim == "opt":
            continue
        out.append(("%s: %s [%s]" % (dim, desc, s.label()), "%s gives %r, %s gives %r (%s)" % (cfg_name(ca), brief(R[ca])[:2], cfg_name(cb), brief(R[cb])[:2], where), replay(ca, cb, dict(where=where))))
    return out


# ------------------------------------------------------------------------------------------------
# shrinking of unknown violations (cheap, bounded)
# ------------------------------------------------------------------------------------------------
def shrink_text(rn, s, key, budget=24):
    """delete top-level statement groups of the main file while the same key is reported"""
    if not s.files:
        return s
    cur = s
    lines = cur.files[cur.main].split("\n")
    i = len(lines) - 1
    while i >= 0 and budget > 0:
        ln = lines[i]
        if not ln.strip() or ln.startswith("Binde") or ln.startswith("\t") or ln.startswith("Die ") or ln.startswith("Der ") or ln.startswith("Das ") or ln.startswith("Sonst"):
            i -= 1
            continue
        j = i + 1
        while j < len(lines) and (lines[j].startswith("\t") or lines[j].startswith("Sonst")):
            j += 1
        cand = lines[:i] + lines[j:]
        files = dict(cur.files)
        files[cur.main] = "\n".join(cand)
        t = Source(cur.kind, files, cur.main, meta=cur.meta)
        budget -= 1
        try:
            R = rn.run_all(t)
            if any(k == key for k, _, _ in judge(rn, t, R)):
                cur, lines = t, cand
        except Exception:
            pass
        i -= 1
    return cur


def shrink_prog(rn, s, key, budget=24):
    if s.prog is None:
        return s
    mk = src_c08 if s.kind == "c08gen" else src_c08_split
    cur = s
    changed = True
    while changed and budget > 0:
        changed = False
        p = cur.prog
        for where in ["main"] + list(range(len(p["funs"]))):
            ss = p["main"] if where == "main" else p["funs"][where]["body"]
            for i in range(len(ss) - 1, -1, -1):
                if budget <= 0:
                    break
                q = copy.deepcopy(p)
                del (q["main"] if where == "main" else q["funs"][where]["body"])[i]
                try:
                    ref = c08gen.reference(q)
                    if ref[0] == "fuel" or "D" in ref[2]:
                        continue
                    t = mk(cur.meta, q)
                    budget -= 1
                    R = rn.run_all(t)
                    if any(k == key for k, _, _ in judge(rn, t, R)):
                        cur, changed = t, True
                        break
                except Exception:
                    continue
            if changed:
                break
    return cur


# ------------------------------------------------------------------------------------------------
def main():
    os.environ.setdefault("GOMAXPROCS", "2")     # 16 parallel kddp processes with 16 GC threads each thrash
    ck = Check(PID, "other")
    b = Build()
    ck.cov["trusted_base"] = vlib.TRUSTED_COMMON + [
        "coq/Lower/Opt2Link.v models symbol resolution only (association lists symbol -> definition | declaration, merge into one module vs. resolution across objects, list runtime functions defined in the program object or in the prebuilt object); injective mangling (C10) and the identity of the prebuilt list definitions with the linked-in ones are hypotheses of the theorem, not facts about /repo",
        "LLVM 14 (the 16 passes of llvm_bindings.go:63-94, the IR linker llvm.LinkModules, the code generator), objcopy, gcc/ld and glibc are outside every model: for them this check is purely differential",
        "no oracle: a behaviour that is wrong in the same way in all 12 configurations is invisible here (C08, C06, C17 judge single configurations)",
        "the import closure of a source is found by a Python scan of its `Binde ... ein.` statements and cross-checked against the module-init symbols the separately compiled main object references (nm -u)",
        "attribution of an -O 2 difference of a c08gen program to the parameter-copy elision uses c08gen.deelide (value-neutral rewrite) and the aliasing facts observed by c08gen's value-semantics interpreter",
    ]
    ck.coq()
    ok, lg = b.ensure_native()
    if not ok:
        ck.violation("build", "kddp/runtime do not build from the current tree", dict(log=lg[-3000:]), no_input=True)
        ck.finish()
    sc = vlib.scratch()
    rn = Runner(b, sc)
    rng = ck.rng
    quick = ck.quick
    # ---------------- sources
    sources = []
    cdir = os.path.join(vlib.VERIF, "corpus", PID)
    if os.path.isdir(cdir):
        for fn in sorted(os.listdir(cdir)):
            if fn.endswith(".json"):
                try:
                    d = json.load(open(os.path.join(cdir, fn)))
                    sources.append(Source(d.get("kind", "corpus"), d["files"], d["main"], meta=dict(corpus=fn)))
                except Exception as ex:
                    log("[corpus] unreadable %s: %s" % (fn, ex))
    ncorpus = len(sources)
    dropped = dict(fuel=0, undefined_D=0)

    def usable(p):
        r = c08gen.reference(p)
        if r[0] == "fuel":
            dropped["fuel"] += 1
            return False
        if "D" in r[2]:
            dropped["undefined_D"] += 1
            return False
        return True
    # (a) c08gen programs
    mat = [x for x in c08gen.matrix(rng) if usable(x[1])]
    shp = [x for x in c08gen.shape_programs(rng) if usable(x[1])]
    if quick:
        rng.shuffle(mat)
        # at most two types per aliasing shape family, nine shape programs, a slice of the matrix
        per_shape, shp2 = {}, []
        for m, p in shp:
            if per_shape.get(m["shape"], 0) < 1 and len(shp2) < 9:
                per_shape[m["shape"]] = per_shape.get(m["shape"], 0) + 1
                shp2.append((m, p))
        # the matrix cells in which a non-primitive value is passed by value (the one place where -O 2 changes the
        # compiler's own code generation): every mutation form once, mutated by the callee, plus one `return` cell
        cells, seen_mut = [], set()
        for m, p in mat:
            if m["construct"] == "valuearg" and m["who"] == "B" and m["mutation"] not in seen_mut:
                seen_mut.add(m["mutation"])
                cells.append((m, p))
        cells += [x for x in mat if x[0]["construct"] == "return"][:1]
        shp, mat = shp2[:3], cells[:3]
    nrand = 2 if quick else 150
    g_all = c08gen.RandGen(rng)
    rnd = []
    while len(rnd) < nrand:
        p = g_all.program()
        if usable(p):
            rnd.append((dict(kind="random", n=len(rnd)), p))
    for m, p in mat + shp + rnd:
        sources.append(src_c08(m, p))
    # (c1) the same kind of program cut into two files
    nsplit = 2 if quick else 70
    pool = shp + rnd + mat
    for m, p in [pool[i] for i in sorted(rng.sample(range(len(pool)), min(nsplit, len(pool))))]:
        sources.append(src_c08_split(m, p))
    # (b) Duden programs
    sources += src_duden(rng, 3 if quick else 80)
    if not quick:
        sources += [Source("duden", {"prog.ddp": t}, "prog.ddp", meta=dict(template=i)) for i, t in DudenGen(rng).every_template()]
    # (c2) multi-module programs
    sources += [multi_module(rng, i) for i in range(3 if quick else 60)]
    # (e) arithmetic whose LLVM instruction is undefined for the operands (and controls inside the domain)
    sources += src_arith(rng, 6 if quick else 64, 1 if quick else 56)
    # (f) a value parameter whose only write is a Referenz call nested in an argument of another call; (g) errors whose result is dead
    sources += src_nested(rng, 5 if quick else 69)
    sources += src_dead(rng, 6 if quick else 25)
    # (h) value parameters of generic / monomorphic callees, same module / imported module, called directly / from inside
    #     another function, always with a LOCAL variable as argument (c08gen.generic_param_programs); quick: one
    #     same-module generic program per parameter type and two others
    gpp = c08gen.generic_param_programs()
    if quick:
        same = [it for it in gpp if it[0]["gp"][1] == "generic" and it[0]["gp"][2] == "same"]
        rng.shuffle(same)
        pick, tys = [], set()
        for it in same:
            if it[0]["gp"][0] not in tys:
                pick.append(it)
                tys.add(it[0]["gp"][0])
        fwd = [it for it in gpp if it[0]["gp"][1] == "forward" and it[0]["gp"][2] == "same"]
        rng.shuffle(fwd)
        rest = [it for it in gpp if it not in same and it not in fwd]
        rng.shuffle(rest)
        gpp = pick + fwd[:2] + rest[:1]
    # (h') callees that are no plain call: overloaded operators with Referenz parameters, a sibling argument that hands the
    #      variable to a nested call by Referenz (operand programs behave alike at every level: left to C08)
    ckp = [it for it in c08gen.callee_kind_programs() if it[0]["ck"][0] != "operand"]
    if quick:
        zl = [it for it in ckp if it[0]["ck"][1] == "ZL"]
        tx = [it for it in ckp if it[0]["ck"][1] != "ZL"]
        rng.shuffle(tx)
        ckp = zl + tx[:1]
    gpp = gpp + [(dict(d, gp=list(d["ck"])), dict(kp, files={})) for d, kp in ckp]
    for d, gp in gpp:
        files = {"prog.ddp": gp["raw"].replace("@MOD@", "gmod")}
        for k, v in gp["files"].items():
            files[k.replace("@MOD@", "gmod") + ".ddp"] = v
        sources.append(Source("generic-param", files, "prog.ddp", meta=dict(gp=list(d["gp"]), name=d["name"])))
    # (d) upstream goldens
    gold, gskipped = goldens(os.path.join(sc, "testdata"))
    if quick:
        gold_all = len(gold)
        multi = [g for g in gold if import_closure(g.path, b.dir) and any(not m.startswith(os.path.join(b.dir, "Duden")) for m in import_closure(g.path, b.dir))]
        rest = [g for g in gold if g not in multi]
        rng.shuffle(rest)
        gold = multi[:2] + rest[:2]
    else:
        gold_all = len(gold)
    sources += gold
    # ---------------- run: one job per (source, -O level)
    for s in sources:
        rn.materialise(s)
    ALL_LINKS = ((True, True), (True, False), (False, True), (False, False))
    rn.twice = not quick
    if quick:
        # 6 of the 12 configurations: the default link mode at every level, the three other link modes at one level
        # (level 0 for the arith kind, where -O 0 is the level at which no LLVM pass runs; otherwise drawn per source)
        side = [0 if s.kind == "arith" else rng.choice(OPTS) for s in sources]
        jobs = [(i, o, ALL_LINKS if o == side[i] else ALL_LINKS[:1]) for i in range(len(sources)) for o in OPTS]
    else:
        jobs = [(i, o, ALL_LINKS) for i in range(len(sources)) for o in OPTS]

    def job(iol):
        i, o, links = iol
        try:
            return rn.run_level(sources[i], o, links=links)
        except Exception as ex:
            return {(o, ml, ll): ("build", "harness", repr(ex)) for ml, ll in links}
    results = vlib.pmap(job, jobs)
    per = {}
    for (i, o, _), r in zip(jobs, results):
        per.setdefault(i, {}).update(r)
    # ---------------- judge
    by_kind, classes, keys, plain_keys = {}, {}, {}, {}
    uncompilable = []
    nondet_everywhere = {}
    sep_unbuildable = []
    n_shrunk = 0
    n_diff_sources = 0
    for i, s in enumerate(sources):
        R = per[i]
        by_kind[s.kind] = by_kind.get(s.kind, 0) + 1
        for c in R:
            classes[R[c][0]] = classes.get(R[c][0], 0) + 1
        if all(r[0] == "build" for r in R.values()):
            c0 = sorted(R)[0]
            if s.kind == "golden":
                # e.g. needs pcre2/libarchive, or an external .c file only kddp's own link step would compile
                uncompilable.append((s.meta.get("dir"), R[c0][1], R[c0][2].strip().splitlines()[-1][:160] if R[c0][2].strip() else ""))
                continue
        base = R[CONFIGS[0]]
        if base[0] != "build" and base[1]:
            ck.nontrivial(s.text())
        if all(r[0] == "nondeterministic" for r in R.values()):
            nondet_everywhere[s.label()] = nondet_everywhere.get(s.label(), 0) + 1
        vs = judge(rn, s, R)
        plain_keys[i] = [k for k, _, _ in vs]
        if vs:
            n_diff_sources += 1
        if s.meta.get("modules_separate_unbuildable"):
            sep_unbuildable.append((s.kind, s.meta.get("dir") or s.meta.get("n"), s.meta["modules_separate_unbuildable"]))
        for key, what, replay in vs:
            is_new = ck.violation(key, what, replay)
            keys[key] = keys.get(key, 0) + 1
            if is_new and keys[key] == 1 and i >= ncorpus and not key.startswith("source does not build") and not key.startswith("build:") and n_shrunk < 2:
                n_shrunk += 1      # shrinking costs 12 builds per candidate: only the first two unknown keys of a run
                small = shrink_prog(rn, s, key, budget=10) if s.prog is not None else shrink_text(rn, s, key, budget=10)
                if small is not s:
                    replay["shrunk_files"] = small.files
                if small.files and os.path.realpath(vlib.REPO) == "/repo":     # mutation runs (VERIF_REPO=copy) do not feed the corpus
                    os.makedirs(cdir, exist_ok=True)
                    json.dump(dict(key=key, kind=small.kind, files=small.files, main=small.main), open(os.path.join(cdir, "v_%s.json" % hashlib.sha1(key.encode()).hexdigest()[:10]), "w"), ensure_ascii=False, indent=1)
    # ---------------- sanitizer flavour: the error class "sanitizer" at each -O level (default link mode)
    asan_pool = [i for i, s in enumerate(sources) if s.kind in ("c08gen", "c08gen-split", "modules", "duden", "nested-call") and all(r[0] != "build" for r in per[i].values())]
    rng.shuffle(asan_pool)
    asan_pool = asan_pool[: (3 if quick else 100)]
    ajobs = [(i, o) for i in asan_pool for o in OPTS]

    def ajob(io):
        i, o = io
        try:
            return rn.run_level(sources[i], o, links=((True, True),), asan=True)
        except Exception as ex:
            return {(o, True, True): ("build", "harness", repr(ex))}
    ares = vlib.pmap(ajob, ajobs)
    aper = {}
    for (i, o), r in zip(ajobs, ares):
        aper.setdefault(i, {}).update(r)
    n_asan_diff = 0
    for i in asan_pool:
        A = aper[i]
        s = sources[i]
        if any(r[0] == "build" for r in A.values()):
            continue
        p = partition(OPTS, lambda o: A[(o, True, True)])
        if "|" not in p:
            continue
        n_asan_diff += 1
        if p == "O0=O1|O2" and any(k.startswith("opt: O2 differs from O0=O1") for k in plain_keys.get(i, ())):
            continue    # already reported from the plain run
        tail = "[%s]" % s.label()
        extra = {}
        if s.prog is not None and p == "O0=O1|O2":
            facts = facts_of(s)
            de = (src_c08 if s.kind == "c08gen" else src_c08_split)(s.meta, c08gen.deelide(s.prog))
            D = rn.run_level(de, 2, links=((True, True),), asan=True)
            removed = D[(2, True, True)][0] != "build" and same(D[(2, True, True)], A[(0, True, True)])
            tail = "%s aliasing facts %s; removed by deelide: %s" % (s.kind, ",".join(facts) if facts else "none", "yes" if removed else "no")
            extra = dict(aliasing_facts=facts, deelided_O2=brief(D[(2, True, True)]))
        key = ("opt: O2 differs from O0=O1; " + tail) if p == "O0=O1|O2" else "opt: sanitizer flavour, levels %s %s" % (p, tail)
        ck.violation(key, "sanitizer flavour (runtime and stdlib built with -fsanitize=address, leak check on): levels %s; -O 0 %r, -O 2 %r" % (p, brief(A[(0, True, True)])[::2], brief(A[(2, True, True)])[::2]),
                     dict(files=s.replay_files(), kind=s.kind, meta=s.meta, asan=True, outcomes={"O%d" % o: brief(A[(o, True, True)]) for o in OPTS}, **extra))
        keys[key] = keys.get(key, 0) + 1
    ck.count(rn.runs)
    # ---------------- observation outside the property: objects of two DDP modules as kddp writes them at -O 0
    raw_probe = "not run"
    first = next((s for s in sources if s.kind == "c08gen" and s.path), None)
    if first is not None:
        try:
            raw_probe = rn.bu.probe_raw_objects(first.path, rn.outdir()) or "links"
        except Exception as ex:
            raw_probe = "probe failed: %r" % ex
    # ---------------- evidence
    nsrc = len(sources) - len(uncompilable)
    ck.cov.update(dict(
        sources=nsrc, by_kind=by_kind, configurations=[cfg_name(c) for c in CONFIGS] if not quick else "6 per source: O0,O1,O2 x modules-linked/listdefs-linked, plus the 3 other link modes at one level (O0 for the arith kind, drawn per source otherwise); thorough: all 12", executable_runs=rn.runs, outcome_classes=classes, sources_with_a_difference=n_diff_sources,
        keys=keys, dropped=dropped, goldens_total=gold_all, goldens_used=sum(1 for s in sources if s.kind == "golden") - len(uncompilable), goldens_skipped=gskipped,
        goldens_not_compilable_in_this_sandbox=uncompilable, sanitizer_sources=len(asan_pool), sanitizer_level_differences=n_asan_diff, build_counters=rn.bu.cpu, recipes=recipe_text(b),
        error_messages_differing_only_in_trailing_bytes=TRAILING[0], nondeterministic_in_every_configuration=nondet_everywhere, modules_separate_not_buildable=sep_unbuildable, raw_O0_separate_objects_link=raw_probe,
        rule="evaluations = executable runs (source x configuration; thorough: each executable twice, quick: a second run only for non-ok outcomes and the arith kind; plus sanitizer-flavour runs and attribution/shrink re-runs); distinct_nontrivial = distinct source texts that built and whose baseline run (O0, everything linked) printed something; every source prints the state it mutates",
        distribution="(a) c08gen: construct x mutation x type matrix, aliasing shapes, random programs (2-4 globals, 1-3 functions, value/Referenz parameters, aliasing bias 0.5-0.6), without the programs whose reference run flags D; "
                     "(b) straight-line programs of 12-28 statements drawn uniformly from %d call templates over Duden/Listen, Texte, Mathe, Zahlen with random literals (thorough: plus one program per template); "
                     "(c) c08gen programs cut into main + module, and main + 2 own modules (public Kombination, globals, functions with Referenz parameters; selective or whole import; second module importing the first in half of them); "
                     "(d) upstream goldens of tests/testdata/{kddp,stdlib}; "
                     "(f) nested-call: a Text/Zahlen Liste/Text Liste value parameter whose only write is a Referenz call standing inside an argument of another call (6 nesting forms x 3-4 write forms), called with a local variable that is printed afterwards; "
                     "(g) dead-error: Text/list indexing out of range, slices with crossed bounds, a Variable cast to the wrong type, inside a function, the result in an unused local (declaration or assignment), prints before and after; "
                     "(e) one arithmetic operation per program whose LLVM instruction (srem, shl, lshr, fptosi) is undefined or poison for the operands, operands as literals / globals / parameters / list elements, and the same operations inside their domain as controls"
                     % len(DudenGen(rng).templates()),
        excluded="c08gen programs whose value-semantics reference run flags D (a Referenz to a part of a variable whose container the callee replaces): undefined at every level (a C08 finding), they crash nondeterministically; programs flagged S (assignment of a variable to itself through aliases) are included since /repo commit 6711de1 made that defined; goldens that read stdin/argv/clock/random/file system/environment or need pcre2/libarchive"))
    ck.sample(dict(kind="c08gen", configurations=12, expected="identical (class, stdout, exit status/error message) in all of them"))
    for s in sources:
        if s.kind in ("modules", "duden", "arith") and s.kind not in [x.get("kind") for x in ck.cov["samples"]]:
            ck.sample(dict(kind=s.kind, meta=s.meta, main=s.files[s.main][-400:]))
    ck.finish(explanation=(
        "level other/partial. PROVED (Coq, coq/Props/C11.v): which definition a symbol reference is bound to does not depend on the linking mode (imported modules merged into one LLVM module or left as separate "
        "objects; list runtime functions defined in the program object or only declared there and defined in ddp_list_types_defs.o), for every program in which symbol names are injective per (module, name) (C10's "
        "mangled_distinct; a hypothesis here, derived from an injective mangling function in C11_wf_of_injective_mangling) and the prebuilt list definitions are the ones the compiler would link in; both tools accept "
        "such a program in every mode and the order in which the modules reach the IR linker (a Go map iteration) is irrelevant; without either hypothesis resolution can differ (two refutation theorems). The compiler's "
        "own -O 2 transformation (parameter-copy elision, compiler.go:2059-2067, 435-448, const_func_param.go) is C08's model: C11_O2_elision_refuted re-exports the witness that the elided run differs from the copying "
        "run (what -O 0/-O 1 emit); this check rediscovers that defect as a known finding. ONLY DIFFERENTIALLY TESTED: LLVM's pass pipeline (llvm_bindings.go:63-94: instcombine, loop-deletion, loop-unroll, "
        "strip-dead-prototypes, mem2reg, adce, argpromotion, simplifycfg, constmerge, deadargelim, dse, inline, function-attrs, globaldce, globalopt, indvars), the IR linker, the code generator, objcopy, gcc/ld. "
        "Observations: (1) in the modules-linked path optimizeModule runs regardless of -O (interface.go:259), so '-O 0 modules-linked' already runs the LLVM passes while '-O 0 modules-separate' runs none "
        "(interface.go:185): the only configurations in which the emitted IR is executed as written are O0/modules-separate/*. (2) The -O 2 annotator visits the imported modules too (parser/interface.go:89-92 "
        "VisitModuleRec), so call sites in the main module and the separately compiled callee agree about elided copies. (3) Configuration modules-separate/listdefs-linked: kddp emits strong definitions of the list "
        "functions into every object compiled with --list-defs-linken=true, so only the main object is compiled that way and the module objects carry declarations. (4) kddp itself never compiles or links imported "
        "modules in the modules-separate mode (linker/link.go only adds external .c/.o/.a dependencies); the check does it with the same flags and makes every module object's ddp_ddpmain local. (5) Objects written "
        "at -O 0 without module linking export their anonymous string constants as global symbols __unnamed_N (compiler.go:796: external linkage, no name; no pass internalises them), so two such objects do not link "
        "as written (field raw_O0_separate_objects_link); the check makes them local with objcopy, which is what the IR linker does when it merges modules. (6) Each executable is run twice; output that changes "
        "from run to run (address-derived garbage: LLVM undef/poison, freed storage) is the class 'nondeterministic', equal only to itself; sources that are nondeterministic in all 12 configurations are listed in "
        "nondeterministic_in_every_configuration (no C11 difference, but undefined behaviour of the language construct at every level). "
        "(7) A program that instantiates an imported generic Kombination with type arguments the declaring module never uses itself cannot be built with separate modules at all: the instantiation's copy/free/"
        "compare functions and vtable are emitted only by the declaring module and only for the instantiations the running compiler process has parsed (ir_struct_type.go:73-84, 100-102), so the separately "
        "compiled declaring module does not define them (undefined reference at link time); such sources are listed in modules_separate_not_buildable and compared over the 6 modules-linked configurations only. "
        "(8) Goldens whose link needs an external .c file or library that only kddp's own link step provides fail in every configuration and are listed in goldens_not_compilable_in_this_sandbox."))


if __name__ == "__main__":
    main()
