#!/usr/bin/env python3
"""C12 — a Text is a sequence of Unicode code points.
Proof: coq/Props/C12.v over coq/Rt/Str.v (byte/capacity model of utf8.c, operators.c, ddptypes.c, the
compiler's text loop) against coq/Rt/StrSpec.v (code-point lists).
Tie: harness/c/rtdrive.c executes operation histories on the runtime built from the current tree, the
extracted model (extract/c12_driver.ml) runs the same file, and a Python reference on lists of code
points (the specification) judges every answer of the implementation directly.
Legs: all ddpchar values -2..0x110010 (every Unicode scalar value) through char_to_string /
num_bytes_char / num_bytes / string_to_char / casts; every lead+continuation byte sequence through the
decoder; every text of length <= 3 over one 1-, 2-, 3- and 4-byte character under every operation and
every index -1..len+2; random histories mixing all producers; an ASan build on a sample; compiled DDP
programs (text loops, comparisons, casts) through kddp."""
import itertools
import os
import re
import subprocess
import sys

sys.path.insert(0, os.path.dirname(os.path.abspath(__file__)))
import vlib
from vlib import Check, Build, log

PID = "C12"
ALPHA = [0x61, 0xE4, 0x20AC, 0x1F600]                 # 1-, 2-, 3-, 4-byte representative
BOUNDARY = [0x01, 0x7F, 0x80, 0x7FF, 0x800, 0xD7FF, 0xE000, 0xFFFD, 0xFFFF, 0x10000, 0x10FFFF]
NREG = 4
UNSTORABLE = [0, 0xD800, 0xDFFF, 0x110000, -1, -0x80000000, 0x7FFFFFFF]   # ddpchar values that are not text characters


def enc(cs):
    return "".join(map(chr, cs)).encode("utf-8")


def hexs(b):
    return b.hex() if b else "-"


def clen(c):
    return 1 if c < 0x80 else 2 if c < 0x800 else 3 if c < 0x10000 else 4


def is_scalar(c):
    return 0 <= c < 0xD800 or 0xE000 <= c <= 0x10FFFF


def tchar(c):
    """a character of a Text: a Unicode scalar value other than U+0000 (the terminator)"""
    return is_scalar(c) and c != 0


def s_char(c):
    return [c] if tchar(c) else []


def view(hexblock):
    """code points of the C string stored in a block (hex), None if it is not valid UTF-8"""
    if hexblock == "-":
        return []
    b = bytes.fromhex(hexblock)
    z = b.find(b"\0")
    if z < 0:
        return None
    try:
        return [ord(ch) for ch in b[:z].decode("utf-8")]
    except UnicodeDecodeError:
        return None


# ---- operations: tuples (code, args...) as in rtdrive.c ------------------------------------------------
def op_line(op):
    k = op[0]
    if k == "L":
        return "L %d %s" % (op[1], hexs(enc(op[2])))
    return " ".join([k] + [str(x) for x in op[1:]])


def hist_lines(h):
    return ["H"] + [op_line(o) for o in h]


def clamp(i, lo, hi):
    t = lo if i < lo else i
    return hi if t > hi else t


class Spec:
    """the specification: four registers holding lists of code points"""

    def __init__(self):
        self.r = [[] for _ in range(NREG)]

    def step(self, op):
        """returns ('=', cps) for producers, a result line for observers, 'E' for a Laufzeitfehler"""
        k, r = op[0], self.r
        if k == "L":
            r[op[1]] = list(op[2]); return ("=", r[op[1]])
        if k == "C":
            r[op[1]] = list(r[op[2]]); return ("=", r[op[1]])
        if k == "K":
            r[op[1]] = r[op[2]] + r[op[3]]; return ("=", r[op[1]])
        if k == "S":
            r[op[1]] = r[op[2]] + s_char(op[3]); return ("=", r[op[1]])
        if k == "P":
            r[op[1]] = s_char(op[2]) + r[op[3]]; return ("=", r[op[1]])
        if k == "X":
            src = r[op[2]]
            if not src:
                r[op[1]] = []; return ("=", [])
            a, b = clamp(op[3], 1, len(src)), clamp(op[4], 1, len(src))
            if b < a:
                return "E"
            r[op[1]] = src[a - 1:b]; return ("=", r[op[1]])
        if k == "T":
            r[op[1]] = s_char(op[2]); return ("=", r[op[1]])
        if k == "M":
            r[op[1]] = []; return ("=", [])      # the empty Text, as an allocated {"\\0", 1}
        if k == "R":
            t = r[op[1]]
            if not (1 <= op[3] <= len(t)) or not tchar(op[2]):
                return "E"            # outside the text, or a value that cannot be stored in a Text
            r[op[1]] = t[:op[3] - 1] + [op[2]] + t[op[3]:]; return ("=", r[op[1]])
        if k == "I":
            t = r[op[1]]
            return "i %d" % t[op[2] - 1] if 1 <= op[2] <= len(t) else "E"
        if k == "N":
            return "i %d" % len(r[op[1]])
        if k == "Q":
            return "b %d" % (1 if r[op[1]] == r[op[2]] else 0)
        if k == "F":
            t = r[op[1]]
            return "l" + (" " + ",".join(map(str, t)) if t else "")
        if k == "W":
            return "w " + hexs(enc(r[op[1]]))
        raise ValueError(op)


def shrinking_replaces(h):
    """indices of replace operations that store a character with a shorter encoding (per the spec)"""
    s, out = Spec(), []
    for n, op in enumerate(h):
        if op[0] == "R" and tchar(op[2]) and 1 <= op[3] <= len(s.r[op[1]]) and clen(op[2]) < clen(s.r[op[1]][op[3] - 1]):
            out.append(n)
        if s.step(op) == "E":
            break
    return out


def describe(h):
    """canonical one-line description of a history (the key of a violation)"""
    s, words = Spec(), []
    for op in h:
        k = op[0]
        if k == "R":
            t = s.r[op[1]]
            if not tchar(op[2]):
                words.append("replace-unstorable(%d)" % op[2])
            elif 1 <= op[3] <= len(t):
                o, n = clen(t[op[3] - 1]), clen(op[2])
                words.append("replace-%s(%d->%d)" % ("shorter" if n < o else "longer" if n > o else "equal", o, n))
            else:
                words.append("replace-outside")
        elif k == "L":
            words.append("lit(%s)" % ",".join(str(clen(c)) for c in op[2]))
        else:
            w = {"M": "empty-owned", "C": "copy", "K": "concat", "S": "concat-char", "P": "char-concat", "X": "slice", "T": "char-to-text",
                 "I": "index", "N": "length", "Q": "equal", "F": "iterate", "W": "print"}[k]
            ch = {"S": 3, "P": 2, "T": 2}.get(k)
            if ch is not None and not tchar(op[ch]):
                w += "(unstorable %d)" % op[ch]
            words.append(w)
        if s.step(op) == "E":
            break
    return "history: " + " ".join(words)


def judge(h, lines):
    """first step at which the implementation's transcript contradicts the specification, or None.
    lines = output lines of one history (without the H)"""
    s = Spec()
    for n, op in enumerate(h):
        want = s.step(op)
        got = lines[n] if n < len(lines) else "(no output)"
        if isinstance(want, tuple):
            if not got.startswith("= "):
                return n, "expected text %s, implementation answered %r" % (want[1], got)
            v = view(got.split()[2])
            if v != want[1]:
                return n, "expected text %s, register holds %s (%s)" % (want[1], v, got)
        else:
            if got != want:
                return n, "expected %r, implementation answered %r" % (want, got)
            if want == "E":
                return None
    return None


def run_tool(cmd, lines, timeout=900, env=None):
    p = subprocess.run(cmd, input=("\n".join(lines) + "\n").encode(), capture_output=True, timeout=timeout, env=env)
    return p.returncode, p.stdout.decode("utf-8", "replace").splitlines(), p.stderr.decode("utf-8", "replace")


def split_hist(outlines):
    hs = []
    for l in outlines:
        if l == "H":
            hs.append([])
        elif hs:
            hs[-1].append(l)
    return hs


def run_histories(cmd, hists, jobs=vlib.NCPU, env=None, fork_cmd=None):
    """run many histories through a driver in parallel shards; returns the transcript per history"""
    if not hists:
        return []
    n = max(1, min(jobs, len(hists) // 200 + 1))
    shards = [hists[i::n] for i in range(n)]

    def one(sh):
        body = []
        for h in sh:
            body += hist_lines(h)
        rc, out, err = run_tool(cmd, body, env=env)
        res = split_hist(out)
        if (rc != 0 or len(res) != len(sh)) and fork_cmd is not None:
            # the process died inside a history: run every history in its own child process
            rc, out, err = run_tool(fork_cmd, body, env=env)
            res = split_hist(out)
        if len(res) != len(sh):
            raise RuntimeError("%s: %d transcripts for %d histories (rc=%d) %s" % (cmd[0], len(res), len(sh), rc, err[-500:]))
        return res
    parts = vlib.pmap(one, shards, jobs=n)
    out = [None] * len(hists)
    for k, part in enumerate(parts):
        for j, r in enumerate(part):
            out[k + j * n] = r
    return out


# ---- generators ----------------------------------------------------------------------------------------------
def short_texts(maxlen=3):
    for n in range(maxlen + 1):
        for t in itertools.product(ALPHA, repeat=n):
            yield list(t)


def exhaustive_histories():
    """every text of length <= 3 over the class alphabet x every operation x every index -1..len+2"""
    hs = []
    texts = list(short_texts())
    for t in texts:
        base = [("L", 0, t)]
        idx = range(-1, len(t) + 3)
        hs.append(base + [("N", 0), ("F", 0), ("W", 0), ("C", 1, 0), ("Q", 0, 1), ("Q", 0, 0), ("N", 1)])
        for i in idx:
            hs.append(base + [("I", 0, i)])
            for j in idx:
                hs.append(base + [("X", 1, 0, i, j), ("N", 1), ("F", 1), ("W", 1)])
            for c in ALPHA:
                # replacement followed by every consumer, each judged separately
                tail = [("R", 0, c, i)]
                hs.append(base + tail + [("N", 0), ("W", 0)])
                hs.append(base + tail + [("F", 0)])
                hs.append(base + tail + [("L", 1, [0x58]), ("K", 2, 0, 1), ("W", 2), ("N", 2)])
                hs.append(base + tail + [("S", 2, 0, 0xE4), ("W", 2)])
                hs.append(base + tail + [("P", 2, 0x20AC, 0), ("W", 2)])
                hs.append(base + tail + [("I", 0, max(1, len(t)))])
                hs.append(base + tail + [("X", 1, 0, 1, len(t) + 1), ("W", 1)])
                if 1 <= i <= len(t):
                    exp = t[:i - 1] + [c] + t[i:]
                    hs.append(base + tail + [("L", 1, exp), ("Q", 0, 1)])
                    hs.append(base + tail + [("L", 1, exp), ("Q", 1, 0)])
        for c in UNSTORABLE:
            hs.append(base + [("S", 1, 0, c), ("W", 1), ("N", 1), ("F", 1), ("Q", 0, 1), ("Q", 1, 0)])
            hs.append(base + [("P", 1, c, 0), ("W", 1), ("N", 1), ("F", 1), ("Q", 0, 1), ("Q", 1, 0)])
            hs.append(base + [("T", 1, c), ("N", 1), ("W", 1), ("F", 1), ("K", 2, 1, 0), ("K", 3, 0, 1), ("Q", 2, 3), ("L", 2, []), ("Q", 1, 2), ("Q", 2, 1)])
            for i in idx:
                hs.append(base + [("R", 0, c, i)])
        for c in ALPHA:
            hs.append(base + [("S", 1, 0, c), ("W", 1), ("N", 1), ("F", 1)])
            hs.append(base + [("P", 1, c, 0), ("W", 1), ("N", 1), ("F", 1)])
            hs.append([("T", 0, c), ("N", 0), ("W", 0), ("I", 0, 1), ("F", 0)])
    for t in texts:
        for pre in ([("M", 0), ("L", 1, t)], [("M", 0), ("M", 1), ("S", 1, 1, 0)] if not t else [("M", 0), ("C", 1, 0), ("K", 1, 1, 0), ("L", 1, t)]):
            hs.append(pre + [("Q", 0, 1), ("Q", 1, 0), ("K", 2, 0, 1), ("K", 3, 1, 0), ("Q", 2, 3), ("W", 2), ("N", 2), ("F", 2)])
    own = [("M", 0)]
    hs.append(own + [("N", 0), ("F", 0), ("W", 0), ("C", 1, 0), ("Q", 0, 1), ("Q", 1, 0), ("Q", 0, 0), ("L", 2, []), ("Q", 0, 2), ("Q", 2, 0), ("C", 3, 2), ("Q", 0, 3), ("Q", 3, 0)])
    for i in range(-1, 3):
        hs.append(own + [("I", 0, i)])
        hs.append(own + [("R", 0, 0x61, i)])
        for j in range(-1, 3):
            hs.append(own + [("X", 1, 0, i, j), ("N", 1), ("L", 2, []), ("Q", 1, 2), ("Q", 2, 1)])
    for c in ALPHA + UNSTORABLE:
        hs.append(own + [("S", 1, 0, c), ("W", 1), ("N", 1), ("L", 2, s_char(c)), ("Q", 1, 2), ("Q", 2, 1)])
        hs.append(own + [("P", 1, c, 0), ("W", 1), ("N", 1), ("L", 2, s_char(c)), ("Q", 1, 2), ("Q", 2, 1)])
    for a in texts:
        for b in texts:
            hs.append([("L", 0, a), ("L", 1, b), ("K", 2, 0, 1), ("N", 2), ("W", 2), ("Q", 0, 1), ("Q", 1, 0)])
    return hs


def rand_char(rng):
    r = rng.random()
    if r < 0.06:
        return rng.choice(UNSTORABLE + [rng.randint(0xD800, 0xDFFF), rng.randint(0x110000, 0x7FFFFFFF), rng.randint(-0x80000000, -1)])
    if r < 0.55:
        return rng.choice(ALPHA)
    if r < 0.7:
        return rng.choice(BOUNDARY)
    k = rng.choice([1, 2, 3, 4])
    lo, hi = [(1, 0x7F), (0x80, 0x7FF), (0x800, 0xFFFF), (0x10000, 0x10FFFF)][k - 1]
    while True:
        c = rng.randint(lo, hi)
        if is_scalar(c):
            return c


def rand_text(rng, maxlen=6):
    return [c for c in (rand_char(rng) for _ in range(rng.randint(0, maxlen))) if tchar(c)]


def rand_history(rng, maxlen=12):
    h = []
    s = Spec()
    for _ in range(rng.randint(2, maxlen)):
        r, a, b = rng.randrange(NREG), rng.randrange(NREG), rng.randrange(NREG)
        live = [k for k in range(NREG) if s.r[k]]
        if live and rng.random() < 0.8:
            a = rng.choice(live)
        la = len(s.r[a])
        x = rng.random()
        if x < 0.03:
            op = ("M", r)
        elif x < 0.16 or not live:
            op = ("L", r, rand_text(rng))
        elif x < 0.22:
            op = ("C", r, a)
        elif x < 0.34:
            op = ("K", r, a, b)
        elif x < 0.40:
            op = ("S", r, a, rand_char(rng))
        elif x < 0.46:
            op = ("P", r, rand_char(rng), a)
        elif x < 0.56:
            op = ("X", r, a, rng.randint(-1, la + 2), rng.randint(-1, la + 2))
        elif x < 0.59:
            op = ("T", r, rand_char(rng))
        elif x < 0.74:
            # replace by a shorter / equal / longer character on purpose
            i = rng.randint(1, la) if la and rng.random() < 0.9 else rng.randint(-1, la + 2)
            op = ("R", a, rand_char(rng), i)
        elif x < 0.80:
            op = ("I", a, rng.randint(1, la) if la and rng.random() < 0.8 else rng.randint(-1, la + 2))
        elif x < 0.85:
            op = ("N", a)
        elif x < 0.92:
            op = ("Q", a, b)
        elif x < 0.96:
            op = ("F", a)
        else:
            op = ("W", a)
        h.append(op)
        if s.step(op) == "E":
            break
    return h


# ---- DDP programs ------------------------------------------------------------------------------------------------
def ddp_char(c):
    return "(%d als Buchstabe)" % c if c >= 0 else "((0 minus %d) als Buchstabe)" % -c


def ddp_text(cs):
    s = "".join(map(chr, cs))
    if any(ch in s for ch in '"\\\n\r\t') or any(c < 0x20 or c == 0x7F for c in cs):
        return None
    return '"%s"' % s


def ddp_program(h):
    """DDP source performing the history and printing every observation on its own line; None when the
    history uses something the translator does not render"""
    L = ['Binde "Duden/Ausgabe" ein.'] + (['Binde "Duden/Umgebungsvariablen" ein.'] if any(op[0] == "M" for op in h) else []) + [""]
    for k in range(NREG):
        L.append('Der Text r%d ist "".' % k)
    L.append("Die Zahl zaehler ist 0.")
    for op in h:
        k = op[0]
        if k == "L":
            t = ddp_text(op[2])
            if t is None:
                return None
            L.append("Speichere %s in r%d." % (t, op[1]))
        elif k == "M":
            # Hole_Umgebungsvariable of a variable that is set to the empty string (run_limited sets it)
            L.append('Speichere (der Wert der Umgebungsvariable "C12_LEER") in r%d.' % op[1])
        elif k == "C":
            L.append("Speichere r%d in r%d." % (op[2], op[1]))
        elif k == "K":
            L.append("Speichere r%d verkettet mit r%d in r%d." % (op[2], op[3], op[1]))
        elif k == "S":
            L.append("Speichere r%d verkettet mit %s in r%d." % (op[2], ddp_char(op[3]), op[1]))
        elif k == "P":
            L.append("Speichere %s verkettet mit r%d in r%d." % (ddp_char(op[2]), op[3], op[1]))
        elif k == "X":
            if op[3] < 0 or op[4] < 0:
                return None
            L.append("Speichere (r%d im Bereich von %d bis %d) in r%d." % (op[2], op[3], op[4], op[1]))
        elif k == "T":
            L.append("Speichere (%s als Text) in r%d." % (ddp_char(op[2]), op[1]))
        elif k == "R":
            if op[3] < 0:
                return None
            L.append("Speichere %s in r%d an der Stelle %d." % (ddp_char(op[2]), op[1], op[3]))
        elif k == "I":
            if op[2] < 0:
                return None
            L.append("Schreibe die Zahl ((r%d an der Stelle %d) als Zahl)." % (op[1], op[2]))
            L.append("Schreibe den Buchstaben '\\n'.")
        elif k == "N":
            L.append("Schreibe die Zahl (die Länge von r%d)." % op[1])
            L.append("Schreibe den Buchstaben '\\n'.")
        elif k == "Q":
            L.append("Schreibe den Wahrheitswert (r%d gleich r%d ist)." % (op[1], op[2]))
            L.append("Schreibe den Buchstaben '\\n'.")
        elif k == "F":
            L.append("Speichere 0 in zaehler.")
            L.append("Für jeden Buchstaben b in r%d, mache:" % op[1])
            L.append("\tSchreibe die Zahl (b als Zahl).")
            L.append("\tSchreibe den Buchstaben ','.")
            L.append("\tErhöhe zaehler um 1.")
            L.append("\tWenn zaehler gleich 64 ist, verlasse die Schleife.")
            L.append("Schreibe den Buchstaben '\\n'.")
        elif k == "W":
            L.append("Schreibe den Text r%d." % op[1])
            L.append("Schreibe den Buchstaben '\\n'.")
    return "\n".join(L) + "\n"


def ddp_expected(h):
    """(stdout bytes, exit status) the specification prescribes for ddp_program(h)"""
    s, out = Spec(), b""
    for op in h:
        r = s.step(op)
        if r == "E":
            return out, 1
        if isinstance(r, tuple):
            continue
        k = op[0]
        if k in ("I", "N"):
            out += r.split()[1].encode() + b"\n"
        elif k == "Q":
            out += ("wahr" if r == "b 1" else "falsch").encode() + b"\n"
        elif k == "F":
            out += "".join("%d," % c for c in s.r[op[1]]).encode() + b"\n"
        elif k == "W":
            out += enc(s.r[op[1]]) + b"\n"
    return out, 0


def run_limited(exe, timeout=8, limit=1 << 16):
    """run a program, keep at most `limit` bytes of stdout (a looping program prints without end)"""
    p = subprocess.Popen(["timeout", "-k", "1", str(timeout), exe], stdout=subprocess.PIPE, stderr=subprocess.DEVNULL, env=dict(os.environ, C12_LEER=""))
    data = b""
    try:
        while len(data) < limit:
            chunk = p.stdout.read(min(4096, limit - len(data)))
            if not chunk:
                break
            data += chunk
        if len(data) >= limit:
            p.kill()
    finally:
        p.stdout.close()
        rc = p.wait()
    return rc, data


FIXED_PROGRAMS = [
    # the empty Text that owns a buffer (value of an empty environment variable) against the literal ""
    [("M", 0), ("N", 0), ("L", 1, []), ("Q", 1, 0), ("Q", 0, 1), ("C", 2, 0), ("Q", 2, 1), ("K", 3, 0, 1), ("Q", 3, 0), ("F", 0), ("W", 0),
     ("S", 3, 0, 0xE4), ("W", 3), ("X", 2, 0, 1, 3), ("Q", 2, 0), ("I", 0, 1)],
    # text loops, comparisons and conversions over 1..4-byte characters
    [("L", 0, [0x48, 0xE4, 0x20AC, 0x1F600]), ("F", 0), ("N", 0), ("I", 0, 4), ("I", 0, 2), ("W", 0),
     ("X", 1, 0, 2, 3), ("W", 1), ("K", 2, 1, 0), ("F", 2), ("Q", 2, 0), ("C", 3, 2), ("Q", 3, 2), ("I", 0, 5)],
    [("T", 0, 0x10FFFF), ("S", 1, 0, 0x7F), ("P", 2, 0x800, 1), ("F", 2), ("N", 2), ("W", 2), ("R", 2, 0x1F600, 2), ("F", 2), ("W", 2)],
    [("L", 0, [0x61, 0x62]), ("R", 0, 0xE4, 1), ("L", 1, [0xE4, 0x62]), ("Q", 0, 1), ("Q", 1, 0), ("F", 0), ("X", 2, 0, 5, 1)],
    # the in-place replacement by a shorter character, then every consumer; self-assignment of a text
    [("L", 0, [0x48, 0xE4, 0x6C, 0x6C, 0x6F]), ("R", 0, 0x61, 2), ("W", 0), ("N", 0), ("L", 1, [0x58]), ("K", 2, 0, 1), ("W", 2), ("N", 2)],
    [("L", 0, [0x20AC, 0x78]), ("R", 0, 0x61, 1), ("L", 1, [0x61, 0x20AC]), ("R", 1, 0x78, 2), ("W", 0), ("W", 1), ("Q", 0, 1)],
    [("L", 0, [0xE4, 0x62]), ("R", 0, 0x61, 1), ("F", 0), ("C", 0, 0), ("W", 0), ("P", 0, 0x1F600, 0), ("C", 0, 0), ("F", 0)],
]


# ---- the check -------------------------------------------------------------------------------------------------------
def main():
    ck = Check(PID, "proof")
    b = Build()
    ck.cov["trusted_base"] = vlib.TRUSTED_COMMON + [
        "glibc c32rtomb/mbrtoc32 under the C.utf8 locale (link-time setlocale shim) = section variables enc/dec of Rt/Str.v; the concrete instance glibc_enc/glibc_dec of Rt/StrSpec.v is compared with libc on every ddpchar value -2..0x110010 and every lead+continuation sequence on every run",
        "harness/c/rtdrive.c: operands of the consuming concatenations are deep-copied first (as the compiler does for variables); Laufzeitfehler intercepted with --wrap=ddp_runtime_error; the text loop of compiler.go is transcribed around the real utf8_string_to_char (the compiled-program leg runs the real loop)",
        "Python reference on lists of code points (str/list slicing, UTF-8 by Python's codec) = the property's specification oracle; its decoder is cross-checked against the Coq definition cps on every model state",
        "the empty Text has two representations, {NULL,0} (literals, every runtime operation) and the allocated {\"\\0\",1} that C producers of the stdlib return (env.c, string_builder.c, filesystem.c, strings.c ...): repr/wf admit both, rtdrive op M constructs the second one, compiled programs obtain it from an empty environment variable",
        "blocks are lists of bytes, NULL = empty block, realloc/alloc contents = -1 until written (never observed), memcmp/memcpy out of block = OOB regardless of early exit",
    ]
    ok_coq = ck.coq()
    okn, lg = b.ensure_native()
    if not okn:
        ck.violation("harness-build", "the tree does not build: " + lg[-400:], dict(log=lg[-3000:]), no_input=True)
        ck.finish()
    wrap = ["-Wl,--wrap=ddp_runtime_error"]
    rt, lg1 = b.ensure_c("rtdrive", ["rtdrive.c"], extra=wrap)
    rta, lg2 = b.ensure_c("rtdrive_asan", ["rtdrive.c"], extra=wrap, asan=True)
    model = vlib.model_bin("c12")
    if not rt or not rta:
        ck.violation("harness-build", "rtdrive does not build against the runtime of this tree: " + (lg1 + lg2)[-500:], dict(log=(lg1 + lg2)[-3000:]), no_input=True)
        ck.finish()
    if not os.path.exists(model):
        ck.broken_obligation("extracted model driver extract/_build/c12 missing (make setup)", "")
        ck.finish()
    asan_env = dict(os.environ, ASAN_OPTIONS="detect_leaks=0:exitcode=97:abort_on_error=0")
    IMPL = [rt]
    IMPL_FORK = [rt, "fork"]
    MODEL = [model]
    stats = dict(scalars=0, sequences=0, histories_exhaustive=0, histories_random=0, histories_asan=0, programs=0, operations=0,
                 model_oob_or_stuck=0, op_kinds={})
    import time
    tlast = [time.time()]

    def lap(name):
        now = time.time()
        log("[c12] %-28s %6.1fs" % (name, now - tlast[0]))
        stats.setdefault("seconds", {})[name] = round(now - tlast[0], 1)
        tlast[0] = now
    model_mismatch = []      # (what, detail) where implementation satisfied the spec but differs from the model
    py_vs_cps = []

    # ------------------------------------------------------------------------------------------------------------
    def compare_with_model(h, impl, mod, label):
        """model/implementation correspondence on one history; returns True when they agree on everything
        the model defines"""
        for n in range(max(len(impl), len(mod))):
            m = mod[n] if n < len(mod) else "(none)"
            i = impl[n] if n < len(impl) else "(none)"
            mcore = m.split(" ; ")[0]
            if mcore in ("OOB", "UNDEF"):
                stats["model_oob_or_stuck"] += 1
                return True           # undefined behaviour from here on: the implementation is unconstrained
            if m.startswith("= ") and " ; " in m:
                pv = view(m.split()[2])
                cv = m.split(" ; ")[1].strip()
                cvl = None if cv == "!" else ([int(x) for x in cv.split(",")] if cv else [])
                if pv != cvl and len(py_vs_cps) < 3:
                    py_vs_cps.append((m, pv, cvl))
            if mcore == "STUCK":
                stats["model_oob_or_stuck"] += 1
            if i != mcore:
                if len(model_mismatch) < 5:
                    model_mismatch.append((label, dict(history=hist_lines(h), step=n, implementation=i, model=m)))
                return False
            if mcore in ("E", "STUCK"):
                return True
        return True

    def impl_one(h):
        rc, out, _ = run_tool(IMPL, hist_lines(h))
        if rc != 0:
            out = run_tool(IMPL_FORK, hist_lines(h))[1]
        return split_hist(out)[0]

    def violates(h):
        return judge(h, impl_one(h)) is not None

    def shrink(h):
        """greedy: drop operations, then drop characters of literals, then lower indices"""
        cur = list(h)
        changed = True
        while changed:
            changed = False
            for i in range(len(cur)):
                cand = cur[:i] + cur[i + 1:]
                if cand and violates(cand):
                    cur, changed = cand, True
                    break
        budget = 30
        changed = True
        while changed and budget > 0:
            changed = False
            for i, op in enumerate(cur):
                cands = []
                if op[0] == "L":
                    cands = [("L", op[1], op[2][:k] + op[2][k + 1:]) for k in range(len(op[2]))]
                elif op[0] in ("I", "R", "X"):
                    for pos in ({"I": [2], "R": [3], "X": [3, 4]}[op[0]]):
                        if op[pos] > 1:
                            cands.append(tuple(list(op[:pos]) + [op[pos] - 1] + list(op[pos + 1:])))
                for c in cands:
                    budget -= 1
                    cand = cur[:i] + [c] + cur[i + 1:]
                    if violates(cand):
                        cur, changed = cand, True
                        break
                if changed or budget <= 0:
                    break
        return cur

    def report(h, impl, verdict, leg):
        """the implementation contradicts the specification on history h"""
        n, what = verdict
        stats["contradictions"] = stats.get("contradictions", 0) + 1
        if len(ck.violations) >= 6:
            return            # enough minimised replays; further contradictions are only counted
        small = shrink(h)
        o = impl_one(small)
        v = judge(small, o)
        key = describe(small)
        s = Spec()
        want = []
        for op in small:
            r = s.step(op)
            want.append("= %s" % r[1] if isinstance(r, tuple) else r)
            if r == "E":
                break
        new = ck.violation(key, "step %d: %s" % (v[0] + 1, v[1]) if v else what,
                           dict(leg=leg, history=hist_lines(small), implementation=o, specification=want, original=hist_lines(h),
                                how="feed the history lines to .cache/<hash>/bin/rtdrive-* (stdin)"))
        if new:
            os.makedirs(os.path.join(vlib.VERIF, "corpus", PID), exist_ok=True)
            name = re.sub(r"[^a-z0-9]+", "_", key.lower())[:80]
            with open(os.path.join(vlib.VERIF, "corpus", PID, name + ".txt"), "w") as fh:
                fh.write("\n".join(hist_lines(small)) + "\n")

    def process(hists, leg):
        impl = run_histories(IMPL, hists, fork_cmd=IMPL_FORK)
        mod = run_histories(MODEL, hists)
        failing = []
        for h, i, m in zip(hists, impl, mod):
            ck.count(len(i))
            stats["operations"] += len(h)
            for op in h:
                stats["op_kinds"][op[0]] = stats["op_kinds"].get(op[0], 0) + 1
            if len(h) >= 3 and any(op[0] in "KSPXR" for op in h) and any(len(enc(op[2])) > len(op[2]) for op in h if op[0] == "L"):
                ck.nontrivial(repr(h))
            v = judge(h, i)
            compare_with_model(h, i, m, leg)   # disagreements are recorded in model_mismatch
            if v is not None:
                failing.append((h, i, v))
        for h, i, v in failing:
            report(h, i, v, leg)
        return impl, mod

    def parse_hist_file(path):
        hs, cur = [], None
        for l in open(path):
            f = l.split()
            if not f:
                continue
            if f[0] == "H":
                cur = []
                hs.append(cur)
            elif cur is not None:
                if f[0] == "L":
                    bs = b"" if f[2] == "-" else bytes.fromhex(f[2])
                    cur.append(("L", int(f[1]), [ord(c) for c in bs.decode("utf-8")]))
                else:
                    cur.append(tuple([f[0]] + [int(x) for x in f[1:]]))
        return hs

    # 0. corpus first -------------------------------------------------------------------------------------------------
    cdir = os.path.join(vlib.VERIF, "corpus", PID)
    corpus = []
    if os.path.isdir(cdir):
        for fn in sorted(os.listdir(cdir)):
            if fn.endswith(".txt"):
                corpus += parse_hist_file(os.path.join(cdir, fn))
    if corpus:
        ci, cm = process(corpus, "corpus")
        ck.sample(dict(leg="corpus", history=hist_lines(corpus[0]), implementation=ci[0], model=cm[0]))
    stats["corpus_histories"] = len(corpus)

    lap("build+coq+corpus")
    # 1. every ddpchar value -2 .. 0x110010: char_to_string, num_bytes_char, num_bytes, string_to_char, casts --------
    LO, HI = -2, 0x110010
    nsh = 16
    step = (HI - LO) // nsh + 1
    ranges = [(LO + k * step, min(HI, LO + (k + 1) * step - 1)) for k in range(nsh)]
    # far outside the code space (5- and 6-byte forms of old UTF-8, the int32 limits)
    ranges += [(v, v) for v in (0x1FFFFF, 0x200000, 0x3FFFFFF, 0x4000000, 0x7FFFFFFF, -0x80000000, -0x7FFFFFFF, -1000)]
    ranges += [(lo, lo + 64) for lo in [ck.rng.randint(0x110011, 0x7FFFFF00) for _ in range(40)] + [ck.rng.randint(-0x80000000, -70) for _ in range(20)]]

    def scal(rg):
        line = ["U %d %d" % rg]
        return run_tool([rt], line)[1], run_tool(MODEL, line)[1]
    for (lo, hi), (il, ml) in zip(ranges, vlib.pmap(scal, ranges)):
        if len(il) != hi - lo + 1 or len(ml) != hi - lo + 1:
            ck.broken_obligation("scalar leg: %d/%d lines for range %d..%d" % (len(il), len(ml), lo, hi), "")
            continue
        for c, a, m in zip(range(lo, hi + 1), il, ml):
            stats["scalars"] += 1
            if tchar(c):
                e = chr(c).encode("utf-8")
                want = "u %d %d %s00 %d %d %d %d" % (c, len(e) + 1, e.hex(), len(e), len(e), c, c)
                if a != want and stats.setdefault("scalar_contradictions", 0) < 5:
                    stats["scalar_contradictions"] += 1
                    ck.violation("scalar U+%04X per-character operations" % c, "expected %r, implementation %r" % (want, a),
                                 dict(input="U %d %d" % (c, c), implementation=a, specification=want, how="echo 'U c c' | rtdrive"))
                ck.nontrivial(("u", c))
            else:
                # not a Unicode scalar value: refused — the empty text "\0" of capacity 1, no width, nothing decoded
                # (also U+0000, the terminator): converted to the empty Text {NULL, 0}
                want = "u %d 0 - %d -1 - %d" % (c, 1 if c == 0 else -1, c)
                if a != want and stats.setdefault("scalar_contradictions", 0) < 5:
                    stats["scalar_contradictions"] += 1
                    ck.violation("non-scalar ddpchar %d per-character operations" % c, "expected %r (refused), implementation %r" % (want, a),
                                 dict(input="U %d %d" % (c, c), implementation=a, specification=want, how="echo 'U c c' | rtdrive"))
            if a != m and len(model_mismatch) < 5:
                model_mismatch.append(("scalar", dict(input="U %d %d" % (c, c), implementation=a, model=m)))
    ck.count(stats["scalars"])

    lap("scalars")
    # 2. decoder on every lead + continuation sequence ---------------------------------------------------------------
    seqs = ["D %d 2 1 255" % lead for lead in range(0x80, 0x100)] + ["D %d 3 128 191" % lead for lead in range(0xE0, 0xF0)]
    seqs += ["D %d 3 %d %d" % (lead, 0x7E, 0x81) for lead in range(0xE0, 0xF0)] + ["D %d 3 %d %d" % (lead, 0xBE, 0xC1) for lead in range(0xE0, 0xF0)]
    if ck.quick:
        seqs += ["D 240 4 128 191", "D 244 4 128 191"] + ["D %d 4 %d %d" % (lead, 0x8E, 0x91) for lead in range(0xF0, 0x100)]
    else:
        seqs += ["D %d 4 128 191" % lead for lead in range(0xF0, 0xF8)] + ["D %d 4 %d %d" % (lead, 0x7E, 0x91) for lead in range(0xF0, 0x100)]
    # random byte strings (malformed stream)
    for _ in range(2000 if ck.quick else 20000):
        n = ck.rng.randint(1, 6)
        bs = bytes(ck.rng.choice([ck.rng.randint(1, 255), ck.rng.choice([0x80, 0xBF, 0xC0, 0xC2, 0xE0, 0xED, 0xF0, 0xF4, 0xF5, 0xFF, 0x41])]) for _ in range(n))
        seqs.append("V " + bs.hex())
    groups = [seqs[i::16] for i in range(16)]

    def seqrun(g):
        return run_tool([rt], g)[1], run_tool(MODEL, g)[1]
    for il, ml in vlib.pmap(seqrun, groups):
        if len(il) != len(ml):
            ck.broken_obligation("decoder leg: %d implementation lines vs %d model lines" % (len(il), len(ml)), "")
            continue
        for a, m in zip(il, ml):
            stats["sequences"] += 1
            f = a.split()
            bs = bytes.fromhex(f[1])
            try:
                txt = bs.decode("utf-8")
            except UnicodeDecodeError:
                txt = None
            if txt is not None and "\0" not in txt:
                # valid UTF-8: decoded width / first code point / number of code points are prescribed
                first = txt[0]
                want = (len(first.encode("utf-8")), ord(first), len(txt), len(first.encode("utf-8")))
                got = (int(f[2]), int(f[3]) if f[3] != "-" else None, int(f[4]), int(f[5]))
                if got != want and stats.setdefault("decoder_contradictions", 0) < 5:
                    stats["decoder_contradictions"] += 1
                    ck.violation("decode valid sequence %s" % bs.hex(), "expected (width, code point, length, indicated) %s, implementation %s" % (want, got),
                                 dict(input="V " + bs.hex(), implementation=a, specification=want))
            if a != m and len(model_mismatch) < 5:
                model_mismatch.append(("decoder", dict(input="V " + f[1], implementation=a, model=m)))
    ck.count(stats["sequences"])

    # casts Zahl <-> Buchstabe
    zs = [0, 1, -1, 127, 128, 0x10FFFF, 0x110000, 2**31 - 1, 2**31, -2**31, -2**31 - 1, 2**32, 2**32 + 65, 2**63 - 1, -2**63] + \
         [ck.rng.randint(-2**63, 2**63 - 1) for _ in range(300)] + [ck.rng.randint(-2**33, 2**33) for _ in range(300)]
    zl = ["Z %d" % z for z in zs]
    ia, ma = run_tool([rt], zl)[1], run_tool(MODEL, zl)[1]
    for z, a, m in zip(zs, ia, ma):
        want = "z %d" % ((z + 2**31) % 2**32 - 2**31)
        ck.count()
        if a != want:
            ck.violation("cast Zahl->Buchstabe->Zahl %d" % z, "expected %s got %s" % (want, a), dict(input="Z %d" % z, implementation=a, specification=want))
        if a != m and len(model_mismatch) < 5:
            model_mismatch.append(("cast", dict(input="Z %d" % z, implementation=a, model=m)))

    lap("decoder+casts")
    # 3. all short texts x all operations x all indices ------------------------------------------------------------------
    exh = exhaustive_histories()
    stats["histories_exhaustive"] = len(exh)
    ei, em = process(exh, "exhaustive")
    ck.sample(dict(leg="exhaustive", history=hist_lines(exh[len(exh) // 3]), implementation=ei[len(exh) // 3], model=em[len(exh) // 3]))

    lap("exhaustive short texts")
    # 4. random histories ---------------------------------------------------------------------------------------------------
    nrand = 5000 if ck.quick else 100000
    rnd = [rand_history(ck.rng) for _ in range(nrand)]
    stats["histories_random"] = nrand
    ri, rm = process(rnd, "random")
    ck.sample(dict(leg="random", history=hist_lines(rnd[0]), implementation=ri[0], model=rm[0]))
    prod = {"shorter": 0, "equal": 0, "longer": 0}
    for h in rnd:
        for w in describe(h).split():
            for k in prod:
                if w.startswith("replace-" + k):
                    prod[k] += 1
    stats["random_replacements"] = prod
    stats["random_history_length_hist"] = {str(n): sum(1 for h in rnd if len(h) == n) for n in range(1, 13)}

    lap("random histories")
    # 5. ASan flavour on a sample: over-reads the native build cannot show ----------------------------------------------------
    nas = 400 if ck.quick else 4000
    sample = corpus + exh[::max(1, len(exh) // (nas // 2))] + rnd[:nas // 2]
    stats["histories_asan"] = len(sample)
    def asan_run(hs):
        """in-process under ASan; the process dies at the first report, the rest is resumed in a new one"""
        out, pending = [], list(hs)
        while pending:
            body = []
            for h in pending:
                body += hist_lines(h)
            rc, lines, err = run_tool([rta, "flush"], body, env=asan_env)
            res = split_hist(lines)
            if rc == 0 and len(res) == len(pending):
                out += res
                break
            if not res:
                raise RuntimeError("rtdrive_asan produced nothing (rc=%d): %s" % (rc, err[-300:]))
            res[-1].append("!exit %d" % rc)
            out += res
            pending = pending[len(res):]
        return out
    shards = [sample[i::8] for i in range(8)]
    parts = vlib.pmap(asan_run, shards, jobs=8)
    ai = [None] * len(sample)
    for k, part in enumerate(parts):
        for j, r in enumerate(part):
            ai[k + j * 8] = r
    am = run_histories(MODEL, sample)
    asan_reports = 0
    for h, i, m in zip(sample, ai, am):
        ck.count()
        died = [l for l in i if l.startswith("!")]
        mcores = [x.split(" ; ")[0] for x in m]
        if died:
            asan_reports += 1
            pos = len(i) - 1
            predicted = pos < len(mcores) and mcores[pos] in ("OOB", "UNDEF")
            if not predicted:
                if len(model_mismatch) < 5:
                    model_mismatch.append(("asan", dict(history=hist_lines(h), implementation=i, model=m,
                                                        what="sanitizer report / crash at a step where the model predicts a defined result")))
    stats["asan_reports"] = asan_reports

    lap("asan sample")
    # 6. compiled programs ----------------------------------------------------------------------------------------------------------
    progs = list(FIXED_PROGRAMS)
    want_n = 10 if ck.quick else 60
    tries = 0
    while len(progs) < len(FIXED_PROGRAMS) + want_n and tries < 5000:
        tries += 1
        h = rand_history(ck.rng, 10)
        if ddp_program(h) is None or not any(op[0] in "FQWIN" for op in h):
            continue
        m = split_hist(run_tool(MODEL, hist_lines(h))[1])[0]
        if any(x.split(" ; ")[0] in ("OOB", "UNDEF") for x in m):
            continue      # undefined behaviour: the compiled program's output is not determined
        progs.append(h)
    sd = vlib.scratch()

    def prog(job):
        n, h = job
        src = os.path.join(sd, "p%d.ddp" % n)
        open(src, "w").write(ddp_program(h))
        res = []
        for opt in ((0, 2) if n % 3 == 0 else (0,)):
            exe = os.path.join(sd, "p%d_O%d" % (n, opt))
            r = b.compile(src, exe, opt=opt)
            if r["stage"] != "ok":
                res.append((opt, "build", r["out"][-300:], None))
                continue
            rc, out = run_limited(exe)
            if rc == 124:
                rc, out = run_limited(exe, timeout=60)   # an overloaded machine, not the program
            res.append((opt, "ran", rc, out))
        return res
    for (n, h), res in zip(enumerate(progs), vlib.pmap(prog, list(enumerate(progs)))):
        wout, wrc = ddp_expected(h)
        for opt, st, rc, out in res:
            stats["programs"] += 1
            ck.count()
            if st == "build":
                ck.violation("program does not compile: " + describe(h), "kddp/link failed: %s" % rc, dict(source=ddp_program(h), log=rc), no_input=False)
                continue
            if (rc, out) != (wrc, wout):
                what = "compiled program (-O %d): expected exit %d stdout %r, got exit %d stdout %r" % (opt, wrc, wout[:200], rc, out[:200])
                key = "program " + describe(h)
                ck.violation(key, what, dict(source=ddp_program(h), optimisation=opt, expected_stdout=wout.decode("utf-8", "replace"),
                                             expected_exit=wrc, stdout=out[:2000].decode("utf-8", "replace"), exit=rc))
    ck.sample(dict(leg="program", source=ddp_program(progs[0]), expected=ddp_expected(progs[0])[0].decode("utf-8", "replace")))

    lap("compiled programs")
    # ---- triage of model / implementation disagreements -----------------------------------------------------------------------
    if py_vs_cps:
        ck.broken_obligation("the Python decoder of the oracle and the Coq abstraction cps disagree on a model state: %s" % (py_vs_cps[0],), "")
    if model_mismatch and not ck.violations:
        leg, d = model_mismatch[0]
        ck.broken_obligation("correspondence Rt/Str.v <-> runtime fails in leg %s although the implementation met the specification on everything explored: %s"
                             % (leg, d), "")
    elif model_mismatch:
        log("[note] model/implementation disagreements next to real violations: %s" % (model_mismatch[0],))
    ck.cov.update(stats)
    ck.cov.update(dict(
        exhaustive=True,
        exhaustive_spaces=["every ddpchar value -2..0x110010 (all 1,112,064 Unicode scalar values, all surrogates, neighbours outside the code space)",
                           "every 2-byte sequence lead 0x80..0xFF x second byte 0x01..0xFF; every 3-byte sequence lead 0xE0..0xEF x continuation bytes; 4-byte: "
                           + ("leads 0xF0 and 0xF4 x all continuation bytes + a band for every lead" if ck.quick else "every lead 0xF0..0xF7 x all continuation bytes"),
                           "every text of length <= 3 over {a, ä, €, 😀} x every operation x every index -1..len+2 x every replacement character; every ordered pair of such texts through concatenation and equality"],
        input_distribution=dict(alphabet="55% class representatives, 15% boundary scalars, 30% uniform within a random encoding length",
                                history_length="2..12 operations on 4 registers", producers="literal, copy, concat, concat-char, char-concat, slice, char-to-text, replace"),
        rule="non-trivial history = at least 3 operations, one of concat/slice/replace and a literal with a multi-byte character; non-trivial scalar = every text character (scalar value except U+0000); distinct by content",
        assumptions_note="theorems quantify over codecs satisfying codec_ok; glibc's codec is checked against utf8_enc on every scalar value on every run",
    ))
    ck.assumptions = ["the alphabet of texts is every Unicode scalar value except U+0000, which a NUL-terminated Text cannot hold (C12_nul_not_representable); "
                      "U+0000 and non-scalar ddpchar values convert to the empty Text, append nothing, and cannot be stored (Laufzeitfehler)"]
    ck.finish("theorems: full for literal/copy/length/index/slice/concat/char concat/char-to-text/replace/equality/iteration/print/casts/codec and for "
              "all histories over texts and every ddpchar value (C12_wf_preserved_all_chars), on both representations of the empty Text (C12_two_empty_texts: equal in both operand orders); limitation C12_nul_not_representable; "
              "C12_old_replace_shorter_refuted and the string_equal_old clauses of C12_two_empty_texts document the repaired defects on the old definitions")


if __name__ == "__main__":
    main()
