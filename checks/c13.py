#!/usr/bin/env python3
"""C13 — the token stream is a faithful, positioned partition of the source.
Proof: coq/Props/C13.v over coq/Lex/ScanModel.v (transcription of scanner.go on code points) and
coq/Lex/Utf8.v. Tie: the real scanner (harness scanx: scanner.Scan / scanner.ScanAlias) and the
extracted model scan the same byte strings (exhaustive short strings over class representatives,
grammar-guided random sources, an invalid-UTF-8 stream); independently of the model a Python
specification (positions by counting, partition by walking the source, lexical classes by regular
expressions, indentation by counting) judges every token stream of the implementation."""
import itertools
import json
import os
import re
import subprocess
import sys
from concurrent.futures import ProcessPoolExecutor

sys.path.insert(0, os.path.dirname(os.path.abspath(__file__)))
import vlib
from vlib import Check, Build, log
from c20 import regen_tokens

PID = "C13"
BLANK = " \t\r\n"


# ------------------------------------------------------------------------------------------------
# tables regenerated from /repo
# ------------------------------------------------------------------------------------------------
def keyword_table():
    """keyword spellings -> ordinal, parsed back from the regenerated coq/Gen/Tokens.v"""
    kw = {}
    txt = open(os.path.join(vlib.COQ, "Gen", "Tokens.v")).read()
    for m in re.finditer(r"\(\[([0-9; ]*)\], (\d+)\)", txt):
        word = "".join(chr(int(x)) for x in m.group(1).split(";") if x.strip())
        kw[word] = int(m.group(2))
    return kw


# ------------------------------------------------------------------------------------------------
# the specification, executable (independent of the Coq model)
# ------------------------------------------------------------------------------------------------
def positions(s, l0, c0):
    """(line, column) of every offset 0..len(s): 1-based (from the base), counted in code points"""
    out = []
    l, c = l0, c0
    for ch in s:
        out.append((l, c))
        if ch == "\n":
            l, c = l + 1, 1
        else:
            c += 1
    out.append((l, c))
    return out


ALPHA = "a-zA-ZäöüÄÖÜß_"
RE_WORD = re.compile("[%s][%s0-9]*" % (ALPHA, ALPHA))
RE_NUM = re.compile(r"[0-9]+(?:,[0-9]+)?")
RE_STR = re.compile(r'"(?:[^"\\]|\\.)*"', re.S)
RE_CHR = re.compile(r"'(?:[^'\\]|\\.)*'", re.S)
RE_APAR = re.compile(r"<[^>]*>?", re.S)
PUNCT = {"-": "NEGATE", ".": "DOT", ",": "COMMA", ":": "COLON", "(": "LPAREN", ")": "RPAREN"}


def ref_lex(s, alias, tt, kw):
    """the lexical rules: list of (type ordinal, start, end) incl. the final EOF"""
    out = []
    i, n = 0, len(s)
    while True:
        while i < n and s[i] in BLANK:
            i += 1
        if i >= n:
            out.append((tt["EOF"], n, n))
            return out
        ch = s[i]
        m = RE_WORD.match(s, i)
        if m:
            w = m.group(0)
            t = kw.get(w, kw.get(w.lower(), tt["IDENTIFIER"]))
            out.append((t, i, m.end())); i = m.end(); continue
        m = RE_NUM.match(s, i)
        if m:
            out.append((tt["FLOAT"] if "," in m.group(0) else tt["INT"], i, m.end())); i = m.end(); continue
        if ch in "\"'":
            m = (RE_STR if ch == '"' else RE_CHR).match(s, i)
            if m:
                out.append((tt["STRING"] if ch == '"' else tt["CHAR"], i, m.end())); i = m.end()
            else:
                out.append((tt["ILLEGAL"], i, n)); i = n
            continue
        if ch == "[":
            d, j = 1, i + 1
            while d > 0 and j < n:
                d += 1 if s[j] == "[" else -1 if s[j] == "]" else 0
                j += 1
            out.append((tt["COMMENT"], i, j)); i = j; continue
        if ch == "<" and alias:
            m = RE_APAR.match(s, i)
            out.append((tt["ALIAS_PARAMETER"], i, m.end())); i = m.end(); continue
        if s.startswith("...", i):
            out.append((tt["ELIPSIS"], i, i + 3)); i += 3; continue
        out.append((tt[PUNCT.get(ch, "SYMBOL")], i, i + 1)); i += 1


def line_indent(s, ls):
    """tabs + completed groups of four consecutive spaces in the blank run at the start of a line"""
    ind = run = 0
    j = ls
    while j < len(s) and s[j] in " \t\r":
        if s[j] == " ":
            run += 1
            if run == 4:
                ind, run = ind + 1, 0
        else:
            run = 0
            if s[j] == "\t":
                ind += 1
        j += 1
    return ind


def spec_indent(s, spans, k, i0):
    """indentation depth of token k: that of the line on which the token ends; a line that begins
    inside a token (multi-line text, comment) has depth 0"""
    a, b = spans[k]
    ls = s.rfind("\n", 0, b) + 1
    for (x, y) in spans[:k + 1]:
        if x < ls <= y and x != y:
            return 0
    return line_indent(s, ls) + (i0 if ls == 0 else 0)


def judge(s, mode, base, toks, tt, kw, names):
    """returns None or (canonical key, description) of the first contradiction with the property"""
    l0, c0, i0 = base
    n = len(s)
    alias = mode == "A"
    mode = "A" if alias else "N"      # ModeStrictCapitalization must yield the same tokens as ModeNone
    eofs = [i for i, t in enumerate(toks) if t[0] == tt["EOF"]]
    if eofs != [len(toks) - 1]:
        return ("eof mode=%s count=%d last=%s" % (mode, len(eofs), bool(toks) and toks[-1][0] == tt["EOF"]),
                "the stream has %d EOF tokens at indices %s of %d tokens" % (len(eofs), eofs, len(toks)))
    pos = positions(s, l0, c0)
    spans = []
    prev = 0
    for k, (ty, lit, ind, sl, sc, el, ec) in enumerate(toks):
        nm = names.get(ty, "KEYWORD")
        a = prev
        while a < n and s[a] in BLANK:
            a += 1
        if ty == tt["ILLEGAL"]:
            b = n
        else:
            b = a + len(lit)
            if s[a:b] != lit or (b == a) != (ty == tt["EOF"]):
                return ("partition mode=%s type=%s" % (mode, nm),
                        "token %d (%s) has literal %r but the source continues with %r at offset %d after blanks" % (k, nm, lit, s[a:a + len(lit) + 3], a))
        if ty == tt["EOF"] and a != n:
            return ("partition mode=%s type=EOF early" % mode, "EOF token although %r is left at offset %d" % (s[a:a + 8], a))
        spans.append((a, b))
        if (sl, sc) != pos[a]:
            return ("position mode=%s field=start" % mode,
                    "token %d (%s %r) at code-point offset %d: Range.Start=%s, counted position %s" % (k, nm, lit, a, (sl, sc), pos[a]))
        if (el, ec) != pos[b]:
            return ("position mode=%s field=end" % mode,
                    "token %d (%s %r) ends at code-point offset %d: Range.End=%s, counted position %s" % (k, nm, lit, b, (el, ec), pos[b]))
        prev = b
    ref = ref_lex(s, alias, tt, kw)
    got = [(t[0], a, b) for t, (a, b) in zip(toks, spans)]
    if ref != got:
        k = next(i for i in range(min(len(ref), len(got)) + 1) if i >= len(ref) or i >= len(got) or ref[i] != got[i])
        r = ref[k] if k < len(ref) else None
        g = got[k] if k < len(got) else None
        return ("kind mode=%s want=%s got=%s" % (mode, names.get(r[0], "KEYWORD") if r else None, names.get(g[0], "KEYWORD") if g else None),
                "token %d: lexical rules give %s over %r, scanner gives %s over %r" % (k, r, s[r[1]:r[2]] if r else None, g, s[g[1]:g[2]] if g else None))
    for k, (ty, lit, ind, sl, sc, el, ec) in enumerate(toks):
        want = spec_indent(s, spans, k, i0)
        if ind != want:
            return ("indent mode=%s" % mode,
                    "token %d (%s %r) has Indent=%d, the line it ends on has depth %d" % (k, names.get(ty, "KEYWORD"), lit, ind, want))
    return None


# ------------------------------------------------------------------------------------------------
# tools
# ------------------------------------------------------------------------------------------------
def case_line(c):
    mode, base, bs = c
    return "%s %d %d %d %s" % (mode, base[0], base[1], base[2], bs.hex())


def run_tool(exe, cases):
    p = subprocess.run([exe], input="".join(case_line(c) + "\n" for c in cases), capture_output=True, text=True, timeout=3000)
    if p.returncode != 0:
        raise RuntimeError("%s failed: %s" % (exe, p.stderr[-2000:]))
    out = p.stdout.splitlines()
    if len(out) != len(cases):
        raise RuntimeError("%s: %d answers for %d cases" % (exe, len(out), len(cases)))
    return out


def parse_out(line):
    if not line.startswith("OK"):
        return None
    toks = []
    for f in line[3:].split("|"):
        x = f.split(",")
        lit = bytes.fromhex(x[1]).decode("utf-8", errors="replace") if x[1] != "-" else None
        toks.append((int(x[0]), lit, int(x[2]), int(x[3]), int(x[4]), int(x[5]), int(x[6])))
    return toks


def normalise(line, illegal):
    """drop what is not observable: the message text stored as Literal of an ILLEGAL token"""
    if not line.startswith("OK"):
        return line
    return "OK " + "|".join(re.sub(r"^%d,[0-9a-f]*," % illegal, "%d,-," % illegal, f) for f in line[3:].split("|"))


_G = {}


def _work(chunk):
    """one shard: run both tools, judge every answer of the implementation, diff against the model"""
    scanx, model, tt, kw, names = _G["scanx"], _G["model"], _G["tt"], _G["kw"], _G["names"]
    impl = run_tool(scanx, chunk)
    mod = run_tool(model, chunk)
    viol, mism = [], []
    stats = dict(tokens=0, err=0, types={}, nontrivial=[])
    for c, io, mo in zip(chunk, impl, mod):
        mode, base, bs = c
        try:
            s = bs.decode("utf-8")
        except UnicodeDecodeError:
            s = None
        toks = parse_out(io)
        if s is None:
            stats["err"] += 1
            if toks is not None:
                viol.append((c, "utf8-gate mode=%s accepted" % mode, "invalid UTF-8 %s is scanned into %d tokens instead of being refused" % (bs.hex(), len(toks))))
        elif toks is None:
            viol.append((c, "utf8-gate mode=%s refused" % mode, "valid UTF-8 %s is refused (%s)" % (bs.hex(), io)))
        else:
            j = judge(s, mode, base, toks, tt, kw, names)
            if j:
                viol.append((c, j[0], j[1]))
            stats["tokens"] += len(toks)
            for t in toks:
                stats["types"][t[0]] = stats["types"].get(t[0], 0) + 1
            if len(toks) >= 2:
                stats["nontrivial"].append((mode, bs))
        if normalise(io, tt["ILLEGAL"]) != mo:
            mism.append((c, io, mo))
    return viol, mism, stats


# ------------------------------------------------------------------------------------------------
# inputs
# ------------------------------------------------------------------------------------------------
REPS22 = ["a", "B", "ß", "§", "€", "\U0001F600", "1", ",", ".", '"', "'", "\\", "[", "]", "<", ">", " ", "\t", "\r", "\n", "-", "("]
REPS12 = ["a", "1", ",", ".", '"', "\\", "[", "]", "<", ">", " ", "\n"]
REPS14 = REPS12 + ["\t", "'"]


def exhaustive_cases(quick):
    srcs = []
    for ln in range(0, 4):
        for tup in itertools.product(REPS22, repeat=ln):
            srcs.append("".join(tup))
    n3 = len(srcs)
    if quick:
        for tup in itertools.product(REPS14, repeat=4):
            srcs.append("".join(tup))
    else:
        for tup in itertools.product(REPS12, repeat=4):
            srcs.append("".join(tup))
        for tup in itertools.product(REPS12, repeat=5):
            srcs.append("".join(tup))
    cases = []
    for s in srcs:
        b = s.encode()
        cases.append(("N", (1, 1, 0), b))
        cases.append(("A", (1, 1, 0), b))
    return cases, n3, len(srcs) - n3


def gen_source(rng, kws):
    def word():
        r = rng.random()
        if r < 0.55:
            w = rng.choice(kws)
            v = rng.random()
            if v < 0.25:
                w = w[0].upper() + w[1:]
            elif v < 0.35:
                w = w.upper()
            elif v < 0.42:
                w = w.lower()
            elif v < 0.47:
                w = w + rng.choice(["n", "1", "_", "ß", "E"])
            elif v < 0.5:
                w = "".join(ch.upper() if rng.random() < 0.5 else ch for ch in w)
            return w
        alpha = "abcxyzäöüßABCXYZÄÖÜ_"
        return rng.choice(alpha) + "".join(rng.choice(alpha + "0123456789") for _ in range(rng.randint(0, 6)))

    def body(q):
        out = []
        for _ in range(rng.randint(0, 6)):
            r = rng.random()
            if r < 0.5:
                out.append(rng.choice(["a", "Z", " ", "ä", "€", "\U0001F600", "1", ",", ".", "[", "]", "<", ">", "'" if q == '"' else '"', "\t", "    "]))
            elif r < 0.7:
                out.append("\\" + rng.choice(["a", "b", "n", "r", "t", "\\", q]))
            elif r < 0.78:
                out.append("\\" + rng.choice(["x", "'" if q == '"' else '"', "0", " ", "\n", "ä"]))
            elif r < 0.9:
                out.append(rng.choice(["\n", "\r\n", "\n\t", "\n    ", "\n  \t"]))
            else:
                out.append(word())
        return "".join(out)

    def comment(depth=0):
        out = ["["]
        for _ in range(rng.randint(0, 5)):
            r = rng.random()
            if r < 0.2 and depth < 3:
                out.append(comment(depth + 1))
            elif r < 0.4:
                out.append(rng.choice(["\n", "\r\n", "\n\t\t", "\n     "]))
            else:
                out.append(rng.choice(["x", "ä", " ", '"', "'", "\\", "1,2", "<a>", word()]))
        out.append("]" if rng.random() < 0.93 else "")
        return "".join(out)

    def tok():
        r = rng.random()
        if r < 0.30:
            return word()
        if r < 0.40:
            d = "".join(rng.choice("0123456789") for _ in range(rng.randint(1, 5)))
            v = rng.random()
            if v < 0.4:
                return d
            if v < 0.8:
                return d + "," + "".join(rng.choice("0123456789") for _ in range(rng.randint(1, 4)))
            return d + rng.choice([",", ",,2", ",2,3", ".5", "a", ",a", "..."])
        if r < 0.52:
            return '"' + body('"') + ('"' if rng.random() < 0.95 else "")
        if r < 0.60:
            v = rng.random()
            inner = rng.choice(["a", "Ü", "€", "\\n", "\\'", "\\\\", "ab", "", "\n", "\\x", "\U0001F600"]) if v < 0.8 else body("'")
            return "'" + inner + ("'" if rng.random() < 0.95 else "")
        if r < 0.70:
            return comment()
        if r < 0.80:
            v = rng.random()
            if v < 0.6:
                return "<" + word() + ">"
            if v < 0.9:
                return rng.choice(["<>", "<1a>", "<a b>", "<a", "<", "<<a>>", "<a<b>", "< a>", "<ä€>", "<a\tb>", "<wahr>"])
            return rng.choice(["<a\nb>", "<\n>", "<a\r\nb", "<a\n\tb>", "<\n    x>", "<a\n\n"])
        if r < 0.92:
            return rng.choice([".", ",", ":", "(", ")", "-", "...", "..", "....", ". ..", "-1", "(a)"])
        return rng.choice(["?", "!", "+", "*", "/", "=", ";", "~", "§", "€", "\U0001F600", ">", "]", "\\", "<", "{", "}", "|", "\x00", "\x0b", "\xa0", " "])

    def glue():
        r = rng.random()
        if r < 0.25:
            return ""
        if r < 0.55:
            return " "
        if r < 0.65:
            return " " * rng.randint(2, 9)
        if r < 0.72:
            return rng.choice(["\t", " \t", "\t ", "\r", " \r "])
        nl = rng.choice(["\n", "\r\n", "\n\n", " \n", "\n\r\n"])
        ind = rng.choice(["", "", "\t", "\t\t", "    ", "        ", "   ", "     ", "  \t", "\t    ", "    \t", "  \t  ", "\r\t", "    \r    ", " \t   \t"])
        return nl + ind

    out = [glue() if rng.random() < 0.3 else ""]
    for _ in range(rng.randint(1, 10)):
        out.append(tok())
        out.append(glue())
    return "".join(out)


INVALID_SEQS = [b"\x80", b"\xbf", b"\xc0\x80", b"\xc1\xbf", b"\xc2", b"\xc3", b"\xc3\x28", b"\xe0\x80\x80", b"\xe0\x9f\xbf", b"\xe2\x82", b"\xe2\x28\xa1",
                b"\xed\xa0\x80", b"\xed\xbf\xbf", b"\xf0\x80\x80\x80", b"\xf0\x8f\xbf\xbf", b"\xf0\x9f\x98", b"\xf0\x9f", b"\xf0", b"\xf4\x90\x80\x80",
                b"\xf5\x80\x80\x80", b"\xf8\x88\x80\x80\x80", b"\xfe", b"\xff", b"\xef\xbf", b"\xf0\x28\x8c\xbc", b"\xf0\x90\x28\xbc", b"\xf0\x28\x8c\x28"]
BOUNDARY = [0x00, 0x7f, 0x80, 0x8f, 0x90, 0x9f, 0xa0, 0xbf, 0xc0, 0xff]


def utf8_cases(rng, quick, kws):
    cases = []
    # exhaustive: every byte string of length <= 2
    for ln in range(1, 3):
        for tup in itertools.product(range(256), repeat=ln):
            cases.append(("N", (1, 1, 0), bytes(tup)))
    n_exh = len(cases)
    # every leading byte >= 0xC0 with boundary values in the continuation positions
    for b0 in range(0xc0, 0x100):
        for ln in (2, 3):
            for tup in itertools.product(BOUNDARY, repeat=ln):
                cases.append(("N", (1, 1, 0), bytes((b0,) + tup)))
    # ill-formed sequences embedded in otherwise valid sources, both modes
    for i in range(300 if quick else 3000):
        pre = gen_source(rng, kws).encode()
        post = gen_source(rng, kws).encode()
        bad = rng.choice(INVALID_SEQS)
        cut = rng.randint(0, len(pre))
        mode = "A" if i % 3 == 0 else "N"
        cases.append((mode, (1, 1, 0), pre[:cut] + bad + post))
    return cases, n_exh


# ------------------------------------------------------------------------------------------------
def ensure_model():
    """(re)build the OCaml driver of the extracted model: `make coq` re-extracts coq/c13_model.ml whenever
    Gen/Tokens.v changed, the native driver has to follow"""
    import fcntl
    exe = vlib.model_bin("c13")
    deps = [os.path.join(vlib.COQ, "c13_model.ml"), os.path.join(vlib.VERIF, "extract", "c13_driver.ml"), os.path.join(vlib.VERIF, "extract", "common.ml")]
    if os.path.exists(exe) and all(os.path.exists(d) and os.path.getmtime(d) <= os.path.getmtime(exe) for d in deps):
        return exe
    with open(os.path.join(vlib.COQ, ".make.lock"), "w") as lf:
        fcntl.flock(lf, fcntl.LOCK_EX)
        try:
            p = subprocess.run(["make", "--no-print-directory", "-C", os.path.join(vlib.VERIF, "extract"), "_build/c13"], capture_output=True, text=True, timeout=600)
            if p.returncode != 0:
                log("[c13] building the model driver failed: " + (p.stdout + p.stderr)[-800:])
        finally:
            fcntl.flock(lf, fcntl.LOCK_UN)
    return vlib.model_bin("c13")


def shrink(case, key, probe):
    """greedy deletion of code points (valid sources) or bytes while the same key is reported"""
    mode, base, bs = case
    try:
        units = list(bs.decode("utf-8"))
        enc = lambda u: "".join(u).encode()
    except UnicodeDecodeError:
        units = [bytes([b]) for b in bs]
        enc = lambda u: b"".join(u)
    changed = True
    while changed and len(units) > 1:
        changed = False
        for i in range(len(units)):
            cand = units[:i] + units[i + 1:]
            if probe((mode, base, enc(cand))) == key:
                units = cand
                changed = True
                break
    return (mode, base, enc(units))


def main():
    ck = Check(PID, "proof")
    b = Build()
    ck.cov["trusted_base"] = vlib.TRUSTED_COMMON + [
        "code points instead of bytes inside the model: offsets count code points, literals are compared after re-encoding with Lex/Utf8.encode (proved inverse of decode on valid input)",
        "diagnostics of the scanner (error handler calls, capitalisation mode) and the message text stored in ILLEGAL tokens are outside the model and outside the comparison",
        "strings.ToLower modelled on the identifier alphabet only (A-Z, Ä, Ö, Ü)",
        "Python specification oracle: positions by counting, partition by walking the source, lexical classes as regular expressions, indentation by counting; Python's strict UTF-8 decoder for the gate",
        "ScanAlias is driven with a STRING token `\"`+source+`\"` at a chosen line/column/indent; positions are judged relative to that base",
    ]
    import time
    t0 = time.time()
    tt = regen_tokens(b, ck)
    ck.coq()
    t_coq = time.time() - t0
    scanx, lg = b.ensure_go("scanx")
    model = ensure_model()
    if not scanx:
        ck.violation("harness-build", "scanx does not build against /repo: " + lg[-500:], dict(log=lg[-3000:]), no_input=True)
        ck.finish()
    if not os.path.exists(model) or tt is None:
        ck.broken_obligation("extracted model driver missing (make setup)", "")
        ck.finish()
    kw = keyword_table()
    names = {v: k for k, v in tt.items() if k not in ("TRUE", "FALSE")}
    kws = sorted(kw)
    _G.update(scanx=scanx, model=model, tt=tt, kw=kw, names=names)

    # ---- inputs -------------------------------------------------------------------------------
    cases = []
    corpus_dir = os.path.join(vlib.VERIF, "corpus", PID)
    os.makedirs(corpus_dir, exist_ok=True)
    for f in sorted(os.listdir(corpus_dir)):
        if f.endswith(".json"):
            d = json.load(open(os.path.join(corpus_dir, f)))
            cases.append((d["mode"], tuple(d["base"]), bytes.fromhex(d["source_hex"])))
    n_corpus = len(cases)
    if ck.replay:
        d = json.load(open(ck.replay))
        d = d.get("replay", d)
        cases = [(d["mode"], tuple(d["base"]), bytes.fromhex(d["source_hex"]))]
    else:
        exh, n3, n45 = exhaustive_cases(ck.quick)
        cases += exh
        n_rand = 20000 if ck.quick else 200000
        for i in range(n_rand):
            s = gen_source(ck.rng, kws).encode()
            cases.append(("N" if i % 10 else "S", (1, 1, 0), s))
            base = (1, 1, 0) if i % 2 else (ck.rng.randint(1, 90), ck.rng.randint(1, 70), ck.rng.randint(0, 5))
            cases.append(("A", base, s))
        ucases, n_uexh = utf8_cases(ck.rng, ck.quick, kws)
        cases += ucases

    # ---- run ----------------------------------------------------------------------------------
    nshard = max(1, min(vlib.NCPU * 4, len(cases) // 200 + 1))
    size = (len(cases) + nshard - 1) // nshard
    shards = [cases[i:i + size] for i in range(0, len(cases), size)]
    t1 = time.time()
    with ProcessPoolExecutor(max_workers=vlib.NCPU) as ex:
        results = list(ex.map(_work, shards))
    t_run = time.time() - t1
    log("[c13] %d cases in %d shards: coq+translators %.0fs, correspondence+judging %.0fs" % (len(cases), len(shards), t_coq, t_run))
    ck.cov["phase_seconds"] = dict(coq_and_translators=round(t_coq, 1), correspondence_and_judging=round(t_run, 1))
    ck.count(len(cases))
    viol, mism = [], []
    tokens = err = 0
    types = {}
    for v, m, st in results:
        viol += v
        mism += m
        tokens += st["tokens"]
        err += st["err"]
        for k, n in st["types"].items():
            types[k] = types.get(k, 0) + n
        for x in st["nontrivial"]:
            ck.nontrivial(x)

    def probe(c):
        v, _, _ = _work([c])
        return v[0][1] if v else None

    # ---- 1. the implementation against the specification ------------------------------------------
    seen = {}
    for c, key, what in viol:
        if key not in seen or len(c[2]) < len(seen[key][0][2]):
            seen[key] = (c, what)
    for key, (c, what) in sorted(seen.items())[:12]:
        small = shrink(c, key, probe)
        v, _, _ = _work([small])
        what = v[0][2] if v else what
        replay = dict(mode=small[0], base=list(small[1]), source_hex=small[2].hex(), source=small[2].decode("utf-8", errors="replace"),
                      implementation=run_tool(scanx, [small])[0], model=run_tool(model, [small])[0],
                      how="echo '%s' | .cache/<hash>/go-*/scanx   (mode line0 col0 indent0 hex; answer: type,literalhex,indent,startline,startcol,endline,endcol|...)" % case_line(small))
        if ck.violation(key, what, replay):
            json.dump(dict(mode=small[0], base=list(small[1]), source_hex=small[2].hex(), key=key),
                      open(os.path.join(corpus_dir, "%s.json" % re.sub(r"[^A-Za-z0-9]+", "_", key)[:80]), "w"))

    # ---- 2. model against implementation ------------------------------------------------------------
    if mism:
        mism.sort(key=lambda x: len(x[0][2]))
        c, io, mo = mism[0]
        # search the neighbourhood of the disagreeing input for a contradiction with the specification
        found = None
        units = list(c[2].decode("utf-8", errors="ignore"))
        neigh = []
        for i in range(len(units) + 1):
            for r in REPS22:
                neigh.append((c[0], c[1], "".join(units[:i] + [r] + units[i:]).encode()))
                if i < len(units):
                    neigh.append((c[0], c[1], "".join(units[:i] + [r] + units[i + 1:]).encode()))
        v, _, _ = _work(neigh[:4000]) if neigh else ([], 0, 0)
        for cc, key, what in v:
            if ck.violation(key, what, dict(mode=cc[0], base=list(cc[1]), source_hex=cc[2].hex(), source=cc[2].decode("utf-8", errors="replace"), found_by="neighbour search around a model/implementation disagreement")):
                found = cc
                break
        if not found and not ck.violations:
            ck.broken_obligation("correspondence ScanModel vs scanner.go fails on %d inputs; smallest: %s -> implementation %s, model %s" % (len(mism), case_line(c), io, mo),
                                 json.dumps(dict(mode=c[0], base=list(c[1]), source_hex=c[2].hex())))

    if not ck.replay:
        ck.cov.update(dict(
            cases=len(cases), corpus_cases=n_corpus, exhaustive=True,
            exhaustive_len_le3_over_22_representatives=n3, exhaustive_len4_5=n45, both_modes=True,
            random_sources=n_rand, utf8_exhaustive_byte_strings_len_le2=n_uexh, utf8_stream=len(ucases), refused=err,
            tokens=tokens, token_type_histogram={names.get(k, "kw%d" % k): n for k, n in sorted(types.items()) if k in names},
            keyword_tokens=sum(n for k, n in types.items() if k not in names), distinct_keyword_types=sum(1 for k in types if k not in names),
            model_mismatches=len(mism),
            rule="sources = all strings of length <=3 over 22 class representatives and of length 4%s over %d representatives, in normal and alias mode; %d grammar-guided random sources "
                 "(every keyword spelling of the regenerated table incl. transliterations, capitalised/upper-case forms, literals with escapes, nested/multi-line comments, CRLF, indentation) "
                 "each in normal (1 in 10 with ModeStrictCapitalization) and alias mode (half with a random base line/column/indent); all byte strings of length <=2 and boundary continuations for the UTF-8 gate; "
                 "non-trivial = valid source with at least one token before EOF, distinct by (mode, bytes)" % ("" if ck.quick else "-5", 14 if ck.quick else 12, n_rand)))
        for c in (cases[n_corpus + 2 * n3 + 5], cases[-len(ucases) - 2], cases[-1]):
            ck.sample(dict(case=case_line(c), implementation=run_tool(scanx, [c])[0], model=run_tool(model, [c])[0]))
    ck.finish()


if __name__ == "__main__":
    main()
