#!/usr/bin/env python3
"""C14 — type equivalence is lawful; aliases are transparent, definitions opaque; initialisation and
assignment agree; a definition converts only explicitly, to and from its own base.

Proof: coq/Props/C14.v over the model coq/Types/{Ty,Assign}.v (for all types).
Tie 1 (exhaustive): every type of the closure of {6 primitives, Variable, 2 Kombinationen} under
  list/alias/definition to depth 3 (+ twin aliases/definitions of the same base, + void/type-parameter
  extras): every exported ddptypes predicate on every type and every ordered pair, real code (typex)
  vs extracted model (extract/_build/c14); the laws (reflexive, symmetric, transitive, alias
  substitution, list congruence, opacity) are checked on the implementation's own answers, and every
  Equal / IsNumeric / IsAny answer is judged by an independent canonical-form oracle.
Tie 2 (exhaustive to depth 2 in thorough, depth 1 + seeded sample in quick): for every ordered pair
  (T, V) expressible in DDP source a tiny program puts a value of type V where T is required
  (initialiser, assignment, `v als T`, `x als T` as assignment target) and is run through the real
  parser.Parse; verdict = the diagnostic on that line; judged by the property oracle and compared
  with init_ok / assign_ok / cast_ok / cast_assignable_ok of the model."""
import fcntl
import hashlib
import json
import os
import subprocess
import sys
import time

sys.path.insert(0, os.path.dirname(os.path.abspath(__file__)))
import vlib
from vlib import Check, Build, log

PID = "C14"
CORPUS = os.path.join(vlib.VERIF, "corpus", PID)

# ---- types -------------------------------------------------------------------------------------
# ('P',c) c in ZKBWCT | ('N',) void | ('V',) Variable | ('L',t) | ('A',id,t) | ('D',id,t) | ('S',id) | ('G',id) | ('I',id,t)
PRIMS = "ZKBWCT"


def spec(t):
    k = t[0]
    if k == "P":
        return t[1]
    if k in "NV":
        return k
    if k == "L":
        return "L(" + spec(t[1]) + ")"
    if k in "ADI":
        return "%s#%d(%s)" % (k, t[1], spec(t[2]))
    return "%s#%d" % (k, t[1])


def parse_spec(s):
    pos = [0]

    def num():
        while s[pos[0]] != "#":
            pos[0] += 1
        pos[0] += 1
        st = pos[0]
        while pos[0] < len(s) and s[pos[0]].isdigit():
            pos[0] += 1
        return int(s[st:pos[0]])

    def go():
        c = s[pos[0]]
        pos[0] += 1
        if c in PRIMS:
            return ("P", c)
        if c in "NV":
            return (c,)
        if c == "L":
            pos[0] += 1
            e = go()
            pos[0] += 1
            return ("L", e)
        if c in "SG":
            return (c, num())
        if c in "ADI":
            i = num()
            pos[0] += 1
            u = go()
            pos[0] += 1
            return (c, i, u)
        raise ValueError(s)
    t = go()
    if pos[0] != len(s):
        raise ValueError(s)
    return t


def shape(t):
    """spec without ids (for violation keys)"""
    k = t[0]
    if k == "P":
        return t[1]
    if k in "NV":
        return k
    if k == "L":
        return "L(" + shape(t[1]) + ")"
    if k in "ADI":
        return "%s(%s)" % (k, shape(t[2]))
    return k


def size(t):
    return 1 + (size(t[-1]) if t[0] in "LADI" else 0)


# ---- the property's oracle (independent of the model): canonical forms --------------------------
def canon(t):
    """aliases (and resolved type parameters) are transparent everywhere; definitions, Kombinationen
    and type parameters are identified by their object"""
    k = t[0]
    if k == "P":
        return t[1]
    if k in "NV":
        return k
    if k == "L":
        return "L(" + canon(t[1]) + ")"
    if k in "AI":
        return canon(t[2])
    return "%s#%d" % (k, t[1])


def o_equal(a, b):
    return canon(a) == canon(b)


def o_numeric(t):
    return canon(t) in ("Z", "K", "B")


def o_any(t):
    return canon(t) == "V"


def o_void(t):
    return canon(t) == "N"


def top_def(t):
    while t[0] in "AI":
        t = t[2]
    return t if t[0] == "D" else None


def o_assign(T, V):
    return o_equal(T, V) or (o_numeric(T) and o_numeric(V)) or (o_any(T) and not o_void(V))


def base_related(T, V):
    dT, dV = top_def(T), top_def(V)
    return bool((dV and o_equal(dV[2], T)) or (dT and o_equal(dT[2], V)))


def o_cast(T, V, ref):
    """set of verdicts the property allows for converting a V into T; None = the property is silent"""
    if ref:
        # a reference is only ever re-labelled, never converted: admissible exactly for equivalent types and between a
        # definition and its own base AT THE TOP of the type (a definition nested in a list type is opaque like any other)
        if base_related(T, V):
            return {True}
        if o_equal(T, V):
            return {True, False}
        return {False}
    if not (top_def(T) or top_def(V)) or o_any(T) or o_any(V) or o_void(V):
        return None
    if base_related(T, V):
        return {True}
    if o_equal(T, V):
        return {True, False}   # no conversion at all
    return {False}


def tu_canon(t):
    """canonical TrueUnderlying (only used to name the mechanism of the known reference-cast finding)"""
    while t[0] in "ADI":
        t = t[2]
    return canon(t)


# ---- population ----------------------------------------------------------------------------------
class Pop:
    def __init__(self):
        self.types = []
        self.index = {}
        self.next_id = 10

    def add(self, t):
        s = spec(t)
        if s not in self.index:
            self.index[s] = len(self.types)
            self.types.append(t)
        return t

    def fresh(self):
        self.next_id += 1
        return self.next_id


def build_population(depth):
    pop = Pop()
    base = [("P", c) for c in PRIMS] + [("V",), ("S", 1), ("S", 2)]
    for t in base:
        pop.add(t)
    levels = [list(base)]
    known = list(base)
    made = {}

    def mk(kind, t, twin=0):
        key = (kind, spec(t), twin)
        if key not in made:
            made[key] = ("L", t) if kind == "L" else (kind, pop.fresh(), t)
        return made[key]
    for d in range(1, depth + 1):
        new = []
        for t in known:
            for kind in "LAD":
                x = mk(kind, t)
                if spec(x) not in pop.index:
                    pop.add(x)
                    new.append(x)
        levels.append(new)
        known = known + new
    # twins: a second alias and a second definition of the same base (depth <= 1 bases), also under a list
    for t in levels[0] + levels[1]:
        for kind in "AD":
            x = pop.add(mk(kind, t, 1))
            if t in levels[0]:
                pop.add(("L", x))
    # extras outside the quantifier: nothing, an unresolved and a resolved type parameter
    g = ("G", 9001)
    for x in [("N",), g, ("I", 9002, ("P", "Z")), ("L", g), ("A", 9003, g), ("I", 9004, ("A", 9005, ("L", ("P", "K"))))]:
        pop.add(x)
    return pop, levels


# ---- DDP source rendering (frontend leg) ------------------------------------------------------------
PRIM_NAME = dict(Z="Zahl", K="Kommazahl", B="Byte", W="Wahrheitswert", C="Buchstabe", T="Text")
PRIM_LIST = dict(Z="Zahlen Liste", K="Kommazahlen Liste", B="Byte Liste", W="Wahrheitswert Liste", C="Buchstaben Liste", T="Text Liste")
PRIM_MASC = set("BWCT")


def ddp_name(t):
    """DDP type expression, or None if the type cannot be written in source (list of an unnamed list;
    definition over Variable, which the parser refuses)"""
    k = t[0]
    if k == "P":
        return PRIM_NAME[t[1]]
    if k == "V":
        return "Variable"
    if k == "S":
        return "S%d" % t[1]
    if k in "AD":
        if ddp_name(t[2]) is None or (k == "D" and o_any(t[2])):
            return None
        return "%s%d" % (k, t[1])
    if k == "L":
        e = t[1]
        if e[0] == "P":
            return PRIM_LIST[e[1]]
        if e[0] == "V":
            return "Variablen Liste"
        if e[0] in "SAD":
            n = ddp_name(e)
            return None if n is None else n + " Liste"
        return None
    return None


def masc(t):
    return t[0] == "P" and t[1] in PRIM_MASC


def decls(ts):
    """declarations of every named type occurring in ts, inner first"""
    out, seen = [], set()

    def visit(t):
        k = t[0]
        if k == "L":
            visit(t[1])
        elif k == "S":
            if ("S", t[1]) not in seen:
                seen.add(("S", t[1]))
                out.append("Wir nennen die Kombination aus\n\tder Zahl feld mit Standardwert 0,\neine S%d." % t[1])
        elif k in "AD":
            visit(t[2])
            if (k, t[1]) not in seen:
                seen.add((k, t[1]))
                art = "einen" if masc(t[2]) else "eine"
                if k == "A":
                    out.append("Wir nennen %s %s auch eine A%d." % (art, ddp_name(t[2]), t[1]))
                else:
                    out.append("Wir definieren eine D%d als %s %s." % (t[1], art, ddp_name(t[2])))
    for t in ts:
        visit(t)
    return out


POSITIONS = ("init", "assign", "cast", "refcast", "arg", "refarg", "return")
PROPERTY_POSITIONS = ("init", "assign")     # the property's "initialisation and assignment" sentence; cast/refcast: its conversion sentence
EXTRA_POSITIONS = ("arg", "refarg", "return")   # additional coverage: not named by the property text


def ddp_ref_name(t):
    """the Referenz parameter type for t"""
    n = ddp_name(t)
    if t[0] == "P":
        return dict(Z="Zahlen Referenz", K="Kommazahlen Referenz", B="Byte Referenz", W="Wahrheitswert Referenz", C="Buchstaben Referenz", T="Text Referenz")[t[1]]
    if t[0] == "V":
        return "Variablen Referenz"
    if t[0] == "L":
        return n[:-len("Liste")] + "Listen Referenz"
    return n + " Referenz"


def ddp_ret_name(t):
    if masc(t):
        return "einen Buchstaben" if t[1] == "C" else "einen " + ddp_name(t)
    return "eine " + ddp_name(t)


def program(T, V, only=None):
    """source + {position: line number of the statement under test}"""
    lines = []
    for d in decls([T, V] if V[0] != "N" else [T]):
        lines += d.split("\n")
    tn = ddp_name(T)
    void = V[0] == "N"
    vn = None if void else ddp_name(V)
    val = "(tue nix)" if void else "v"
    if void:
        lines += ["Die Funktion nix gibt nichts zurück, macht:", "\tDie Zahl q ist 1.", "Und kann so benutzt werden:", "\t\"tue nix\""]
    where = {}

    def fn(name, params, stmt, pos):
        if only is not None and pos != only:
            return
        if len(params) == 0:
            head = "Die Funktion %s gibt nichts zurück, macht:" % name
        elif len(params) == 1:
            head = "Die Funktion %s mit dem Parameter %s vom Typ %s, gibt nichts zurück, macht:" % (name, params[0][0], params[0][1])
        else:
            head = "Die Funktion %s mit den Parametern %s und %s vom Typ %s und %s, gibt nichts zurück, macht:" % (name, params[0][0], params[1][0], params[0][1], params[1][1])
        lines.append(head)
        lines.append("\t" + stmt)
        where[pos] = len(lines)
        lines.append("Und kann so benutzt werden:")
        lines.append("\t\"%s%s\"" % (name, "".join(" <%s>" % p[0] for p in params)))
    pv = [] if void else [("v", vn)]
    fn("fa", pv, "%s %s x ist %s." % ("Der" if masc(T) else "Die", tn, val), "init")
    fn("fb", [("x", tn)] + pv, "Speichere %s in x." % val, "assign")
    fn("fc", pv, "Die Variable y ist %s als %s." % (val, tn), "cast")
    if not void:
        fn("fd", [("v", vn), ("w", tn)], "Speichere w in v als %s." % tn, "refcast")
    # additional positions: argument of a value parameter / of a Referenz parameter, returned value
    if only is None or only in ("arg", "refarg"):
        lines += ["Die Funktion fe mit dem Parameter x vom Typ %s, gibt nichts zurück, macht:" % tn, "\tDie Zahl q ist 1.", "Und kann so benutzt werden:", "\t\"fe <x>\"",
                  "Die Funktion fr mit dem Parameter x vom Typ %s, gibt nichts zurück, macht:" % ddp_ref_name(T), "\tDie Zahl q ist 1.", "Und kann so benutzt werden:", "\t\"fr <x>\""]
    fn("ff", pv, "fe %s." % val, "arg")
    if not void:
        fn("fh", pv, "fr v.", "refarg")
    if only is None or only == "return":
        head = "Die Funktion fg %sgibt %s zurück, macht:" % ("" if void else "mit dem Parameter v vom Typ %s, " % vn, ddp_ret_name(T))
        lines.append(head)
        lines.append("\tGib %s zurück." % val)
        where["return"] = len(lines)
        lines.append("Und kann so benutzt werden:")
        lines.append("\t\"fg%s\"" % ("" if void else " <v>"))
    return "\n".join(lines) + "\n", where


# ---- tools -------------------------------------------------------------------------------------------
def run_tool(exe, text, timeout=900):
    p = subprocess.run([exe], input=text, capture_output=True, text=True, timeout=timeout)
    if p.returncode != 0:
        raise RuntimeError("%s failed: %s" % (exe, p.stderr[-2000:]))
    return p.stdout.splitlines()


def ensure_model():
    """(re)build extract/_build/c14 from the freshly extracted coq/c14_model.ml"""
    with open(os.path.join(vlib.COQ, ".make.lock"), "w") as lf:
        fcntl.flock(lf, fcntl.LOCK_EX)
        try:
            p = subprocess.run(["make", "-C", os.path.join(vlib.VERIF, "extract"), "_build/c14"], capture_output=True, text=True, timeout=600)
        finally:
            fcntl.flock(lf, fcntl.LOCK_UN)
    exe = vlib.model_bin("c14")
    return (exe if p.returncode == 0 and os.path.exists(exe) else None), p.stdout + p.stderr


def rows_to_int(r):
    return int(r[::-1], 2) if r else 0


def bits(x):
    while x:
        low = x & -x
        yield low.bit_length() - 1
        x ^= low


class Findings:
    """keeps, per class of finding (key without the type shapes), the smallest witness; reports them at the end"""
    def __init__(self):
        self.best = {}
        self.count = {}

    def add(self, key, what, replay, weight):
        group = " ".join(w for w in key.split() if w.split("=")[0] not in ("a", "b", "c", "type", "alias", "def", "required", "supplied"))
        self.count[group] = self.count.get(group, 0) + 1
        cur = self.best.get(group)
        if cur is None or weight < cur[0]:
            self.best[group] = (weight, key, what, replay)

    def flush(self, ck):
        for group, (w, key, what, replay) in sorted(self.best.items(), key=lambda kv: kv[1][0]):
            replay = dict(replay, findings_of_this_class=self.count[group])
            if ck.violation(key, what + " [%d findings of class '%s'; smallest shown]" % (self.count[group], group), replay):
                persist(replay)


def persist(replay):
    specs = replay.get("types") if isinstance(replay, dict) else None
    if not specs:
        return
    os.makedirs(CORPUS, exist_ok=True)
    name = hashlib.sha1(" ".join(specs).encode()).hexdigest()[:12] + ".json"
    path = os.path.join(CORPUS, name)
    if not os.path.exists(path) and len(os.listdir(CORPUS)) < 60:
        with open(path, "w") as fh:
            json.dump(dict(types=specs), fh)


def load_corpus():
    """past failing inputs; their named types are renumbered (consistently within an entry) into a range the
    generated population never uses, so that ids keep identifying objects"""
    out = []
    nxt = [500000]
    if os.path.isdir(CORPUS):
        for f in sorted(os.listdir(CORPUS)):
            try:
                ts = [parse_spec(s) for s in json.load(open(os.path.join(CORPUS, f)))["types"]]
            except Exception:
                continue
            ren = {}

            def go(t):
                k = t[0]
                if k == "L":
                    return ("L", go(t[1]))
                if k in "ADI":
                    if (k, t[1]) not in ren:
                        nxt[0] += 1
                        ren[(k, t[1])] = nxt[0]
                    return (k, ren[(k, t[1])], go(t[2]))
                return t
            out += [go(t) for t in ts]
    return out


# ---- leg 1: ddptypes ------------------------------------------------------------------------------------
UNARY = ("IsPrimitive", "IsNumeric", "IsList", "IsVoid", "IsStruct", "IsTypeAlias", "IsTypeDef", "IsAny", "IsGeneric")
DERIVED = ("GetUnderlying", "TrueUnderlying", "ListTrueUnderlying", "GetListElementType", "GetNestedListElementType", "CastTypeDef.Underlying")


def leg_types(ck, fnd, typex, model, pop):
    ts = pop.types
    n = len(ts)
    head = "".join("T %d %s\n" % (i, spec(t)) for i, t in enumerate(ts))
    impl = run_tool(typex, head + "U\nE\n")
    mod = run_tool(model, head + "U\nE\nP\nW\n")
    iU = [l.split() for l in impl if l.startswith("U ")]
    iE = [l.split() for l in impl if l.startswith("E ")]
    mU = [l.split() for l in mod if l.startswith("U ")]
    mE = [l.split() for l in mod if l.startswith("E ")]
    mP = [l.split() for l in mod if l.startswith("P ")]
    wf = [l for l in mod if l.startswith("W ")]
    if len(iU) != n or len(iE) != n or len(mU) != n or len(mE) != n or len(mP) != n:
        ck.broken_obligation("typex / model driver returned %d/%d/%d/%d/%d lines for %d types" % (len(iU), len(iE), len(mU), len(mE), len(mP), n), "")
        return None
    if wf != ["W 1"]:
        ck.broken_obligation("the generated population does not satisfy wf_types (ids identify objects) in the model", str(wf))
    ck.count(n * (len(UNARY) + len(DERIVED)) + 2 * n * n)
    mismatch = []
    # unary predicates and derived types: implementation vs model; IsNumeric / IsAny / IsVoid vs the oracle
    for i, t in enumerate(ts):
        for k, name in enumerate(UNARY):
            if iU[i][2][k] != mU[i][2][k]:
                mismatch.append("%s(%s): implementation %s, model %s" % (name, spec(t), iU[i][2][k], mU[i][2][k]))
        for k, name in enumerate(DERIVED):
            if iU[i][3 + k] != mU[i][3 + k]:
                mismatch.append("%s(%s): implementation %s, model %s" % (name, spec(t), iU[i][3 + k], mU[i][3 + k]))
        for name, k, want in (("IsNumeric", 1, o_numeric(t)), ("IsAny", 7, o_any(t)), ("IsVoid", 3, o_void(t))):
            if (iU[i][2][k] == "1") != want:
                fnd.add("pred=%s type=%s impl=%s spec=%d" % (name, shape(t), iU[i][2][k], want),
                        "%s(%s) = %s but the canonical form %s says %s" % (name, spec(t), iU[i][2][k], canon(t), want),
                        dict(types=[spec(t)], predicate=name, implementation=iU[i][2][k], specification=want, how="echo 'T 0 <spec>\\nU' | typex"), size(t))
    eq = [rows_to_int(r[2]) for r in iE]
    deep = [rows_to_int(r[3]) for r in iE]
    # every Equal answer against the oracle
    canons = [canon(t) for t in ts]
    classes = {}
    for i, c in enumerate(canons):
        classes[c] = classes.get(c, 0) | (1 << i)
    for i, t in enumerate(ts):
        want = classes[canons[i]]
        diff = eq[i] ^ want
        for j in bits(diff):
            got = (eq[i] >> j) & 1
            why = "alias transparency" if not got else ("definition opacity" if (top_def(t) or top_def(ts[j]) or "D" in spec(t) + spec(ts[j])) else "distinct types identified")
            fnd.add("pred=Equal a=%s b=%s impl=%d spec=%d" % (shape(t), shape(ts[j]), got, 1 - got),
                    "Equal(%s, %s) = %d contradicts %s (canonical forms %s / %s)" % (spec(t), spec(ts[j]), got, why, canons[i], canons[j]),
                    dict(types=[spec(t), spec(ts[j])], predicate="Equal", implementation=got, specification=1 - got, how="echo 'T 0 <a>\\nT 1 <b>\\nE' | typex"), size(t) + size(ts[j]))
        if (eq[i] & ~want) or (want & ~eq[i]):
            pass
    # the laws, on the implementation's own answers (no oracle involved)
    for name, m in (("Equal", eq), ("DeepEqual", deep)):
        for i in range(n):
            if not (m[i] >> i) & 1:
                fnd.add("law=reflexive pred=%s a=%s" % (name, shape(ts[i])), "%s(%s, itself) is false" % (name, spec(ts[i])), dict(types=[spec(ts[i])], law="reflexive", predicate=name), size(ts[i]))
            for j in bits(m[i]):
                if not (m[j] >> i) & 1:
                    fnd.add("law=symmetric pred=%s a=%s b=%s" % (name, shape(ts[i]), shape(ts[j])), "%s(%s, %s) holds but not the converse" % (name, spec(ts[i]), spec(ts[j])),
                            dict(types=[spec(ts[i]), spec(ts[j])], law="symmetric", predicate=name), size(ts[i]) + size(ts[j]))
                bad = m[j] & ~m[i]
                if bad:
                    k = next(bits(bad))
                    fnd.add("law=transitive pred=%s a=%s b=%s c=%s" % (name, shape(ts[i]), shape(ts[j]), shape(ts[k])),
                            "%s(%s, %s) and %s(%s, %s) hold but %s(%s, %s) does not" % (name, spec(ts[i]), spec(ts[j]), name, spec(ts[j]), spec(ts[k]), name, spec(ts[i]), spec(ts[k])),
                            dict(types=[spec(ts[i]), spec(ts[j]), spec(ts[k])], law="transitive", predicate=name), size(ts[i]) + size(ts[j]) + size(ts[k]))
    triples = sum(bin(eq[i]).count("1") for i in range(n)) * n
    col = lambda m, j: sum((((m[i] >> j) & 1) << i) for i in range(n))
    for i, t in enumerate(ts):
        if t[0] == "A" and spec(t[2]) in pop.index:       # an alias answers exactly as its target, as row and as column
            j = pop.index[spec(t[2])]
            if eq[i] != eq[j] or col(eq, i) != col(eq, j):
                fnd.add("law=alias-substitutable alias=%s" % shape(t), "Equal distinguishes the alias %s from its target %s" % (spec(t), spec(t[2])),
                        dict(types=[spec(t), spec(t[2])], law="alias-substitutable"), size(t))
        if t[0] == "D" and spec(t[2]) in pop.index:       # a definition is not its base
            j = pop.index[spec(t[2])]
            if (eq[i] >> j) & 1 or (eq[j] >> i) & 1:
                fnd.add("law=definition-opaque def=%s" % shape(t), "Equal identifies the definition %s with its base" % spec(t), dict(types=[spec(t), spec(t[2])], law="definition-opaque"), size(t))
        if t[0] == "L":                                     # list-of is a congruence
            a = pop.index.get(spec(t[1]))
            for j in range(n):
                if ts[j][0] == "L" and a is not None:
                    b = pop.index.get(spec(ts[j][1]))
                    if b is not None and ((eq[i] >> j) & 1) != ((eq[a] >> b) & 1):
                        fnd.add("law=list-congruence a=%s b=%s" % (shape(t), shape(ts[j])), "Equal(%s, %s) differs from Equal of the element types" % (spec(t), spec(ts[j])),
                                dict(types=[spec(t), spec(ts[j])], law="list-congruence"), size(t) + size(ts[j]))
    # matrices: implementation vs model
    for i in range(n):
        if iE[i][2] != mE[i][2] or iE[i][3] != mE[i][3]:
            for j in range(n):
                if iE[i][2][j] != mE[i][2][j]:
                    mismatch.append("Equal(%s, %s): implementation %s, model %s" % (spec(ts[i]), spec(ts[j]), iE[i][2][j], mE[i][2][j]))
                    break
                if iE[i][3][j] != mE[i][3][j]:
                    mismatch.append("DeepEqual(%s, %s): implementation %s, model %s" % (spec(ts[i]), spec(ts[j]), iE[i][3][j], mE[i][3][j]))
                    break
    # non-trivial = ordered pair of different types that the implementation relates by Equal or DeepEqual
    nt = 0
    for i in range(n):
        rel = (eq[i] | deep[i]) & ~(1 << i)
        for j in bits(rel):
            ck.nontrivial((spec(ts[i]), spec(ts[j])))
            nt += 1
    stats = dict(types=n, ordered_pairs=n * n, related_pairs_nontrivial=nt, transitivity_triples_checked=triples,
                 equal_classes=len(classes), depth_histogram={str(d): sum(1 for t in ts if size(t) - 1 == d) for d in range(0, 6)})
    return dict(mismatch=mismatch, stats=stats, modelP=mP, eq=eq)


# ---- leg 2: positions through the real frontend --------------------------------------------------------------
def leg_frontend(ck, fnd, typex, pop, res, pairs, codes):
    ts = pop.types
    mP = res["modelP"]
    want_code = dict(init=codes[0], assign=codes[0], cast=codes[1], refcast=codes[1], arg=codes[2], refarg=codes[2])
    want_code["return"] = codes[3]
    jobs = []
    for (ti, vi) in pairs:
        src, where = program(ts[ti], ts[vi])
        jobs.append((ti, vi, src, where))
    shards = [jobs[k::vlib.NCPU] for k in range(vlib.NCPU)]

    def run_shard(sh):
        if not sh:
            return []
        text = "".join("S %d %s\n" % (k, src.encode().hex()) for k, (_, _, src, _) in enumerate(sh))
        return run_tool(typex, text)
    outs = vlib.pmap(run_shard, shards)
    mismatch, harness_err = [], []
    dist = {p: [0, 0] for p in POSITIONS}
    n_prog = 0
    for sh, out in zip(shards, outs):
        for (ti, vi, src, where), line in zip(sh, out):
            n_prog += 1
            f = line.split()
            errs = [tuple(map(int, e.split(":"))) for e in f[4:]]
            T, V = ts[ti], ts[vi]
            verdict = {}
            stray = f[2] != "0"
            for code, ln in errs:
                pos = [p for p, l in where.items() if l == ln]
                if not pos or code != want_code[pos[0]]:
                    stray = True
                else:
                    verdict[pos[0]] = False
            if stray:
                harness_err.append((spec(T), spec(V), line, src))
                continue
            for p in where:
                verdict.setdefault(p, True)
            if verdict.get("refcast") and not verdict["cast"] and not o_equal(T, V):   # the positions must agree: a re-labelled reference is a converted value
                fnd.add("law=refcast-implies-cast required=%s supplied=%s" % (shape(T), shape(V)),
                        "`x als %s` is accepted for a reference of type %s but refused for a value of the same type" % (spec(T), spec(V)),
                        dict(types=[spec(T), spec(V)], law="refcast-implies-cast", program=src), size(T) + size(V))
            if verdict["init"] != verdict["assign"]:     # the two positions always agree (law on the implementation itself)
                fnd.add("law=init-assign-agree init=%s assign=%s required=%s supplied=%s" % (verdict["init"], verdict["assign"], shape(T), shape(V)),
                        "initialising a %s with a %s is %s but assigning it is %s" % (spec(T), spec(V), "accepted" if verdict["init"] else "rejected", "accepted" if verdict["assign"] else "rejected"),
                        dict(types=[spec(T), spec(V)], law="init-assign-agree", program=src), size(T) + size(V))
            for p, acc in verdict.items():
                ck.count()
                dist[p][0 if acc else 1] += 1
                col = 2 + POSITIONS.index(p)
                # model rows: init/assign are indexed (t=T, v=V); casts (lhs=V, target=T)
                m = mP[vi][col][ti] if p in ("cast", "refcast") else mP[ti][col][vi]
                if p in PROPERTY_POSITIONS:
                    allowed = {o_assign(T, V)}
                elif p in EXTRA_POSITIONS:
                    # the property text does not name these positions; judged only by what it says everywhere:
                    # equivalent types are interchangeable, a definition never converts implicitly
                    if o_equal(T, V) and not o_void(V):
                        allowed = {True}
                    elif (top_def(T) or top_def(V)) and not o_any(T):
                        allowed = {False}
                    else:
                        allowed = None
                else:
                    allowed = o_cast(T, V, p == "refcast")
                if allowed is not None and acc not in allowed:
                    cause = ""
                    if p == "refcast" and acc and tu_canon(T) == tu_canon(V):
                        cause = " cause=same-true-underlying"
                    fnd.add("position=%s verdict=%s spec=%s%s required=%s supplied=%s" % (p, "accept" if acc else "reject", "reject" if acc else "accept", cause, shape(T), shape(V)),
                            "a value of type %s where %s is required (%s) is %s by parser.Parse; the property demands the opposite" % (spec(V), spec(T), p, "accepted" if acc else "rejected"),
                            dict(types=[spec(T), spec(V)], position=p, program=program(T, V, only=p)[0], implementation="accept" if acc else "reject", how="typex: S 0 <hex(program)>; or kddp on the program"),
                            size(T) + size(V))
                if (m == "1") != acc:
                    mismatch.append("%s required=%s supplied=%s: frontend %s, model %s" % (p, spec(T), spec(V), "accept" if acc else "reject", m))
                if acc and not o_equal(T, V):
                    ck.nontrivial((p, spec(T), spec(V)))
    return dict(mismatch=mismatch, harness_err=harness_err, dist=dist, programs=n_prog)


# ---- leg 3: compiled programs — a definition stays itself inside a Variable, by whichever route it gets there -------------
RT_KINDS = {
    # base type, article for the `ist` test, definition, second definition of the same base, setup, value expression, how to print it back
    "Zahl": dict(base="Zahl", bart="eine", d="Hausnummer", e="Zeiger", setup=[], val="22 als Hausnummer", bval="22",
                 back="Schreibe ((v als Hausnummer) als Zahl) auf eine Zeile.", bback="Schreibe (v als Zahl) auf eine Zeile.", shown="22", default="(22 als Hausnummer)"),
    "Text": dict(base="Text", bart="ein", d="Marke", e="Sorte", setup=[], val='"ab" als Marke', bval='"ab"',
                 back="Schreibe ((v als Marke) als Text) auf eine Zeile.", bback="Schreibe (v als Text) auf eine Zeile.", shown="ab", default='("ab" als Marke)'),
    "Liste": dict(base="Zahlen Liste", bart="eine", d="Reihe", e="Folge", setup=["Die Zahlen Liste zl ist eine Liste, die aus 1, 2, 3 besteht."], val="zl als Reihe", bval="zl",
                  back="Schreibe (die Länge von ((v als Reihe) als Zahlen Liste)) auf eine Zeile.", bback="Schreibe (die Länge von (v als Zahlen Liste)) auf eine Zeile.", shown="3", default=None),
    "Kombination": dict(base="Punkt", bart="ein", d="Platz", e="Lage", setup=["Der Punkt pk ist Punkt(7, 2)."], val="pk als Platz", bval="pk",
                        back="Schreibe (x von ((v als Platz) als Punkt)) auf eine Zeile.", bback="Schreibe (x von (v als Punkt)) auf eine Zeile.", shown="7", default=None),
}
RT_ROUTES = ("cast", "init", "assign", "argument", "field", "field-default", "return", "list-element")


def rt_program(kind, route, converse=False):
    """a definition value (converse: a value of the base type) is put into a Variable by `route`; then the `ist` tests, the cast back,
    and finally the cast to the other type, which must stop the program"""
    k = RT_KINDS[kind]
    acc = "einen" if k["bart"] == "ein" else "eine"
    L = ['Binde "Duden/Ausgabe" ein.',
         "Wir nennen die Kombination aus\n\tder Zahl x mit Standardwert 0,\n\tder Zahl y mit Standardwert 0,\neinen Punkt, und erstellen sie so:\n\t\"Punkt(<x>, <y>)\"",
         "Wir definieren eine %s als %s %s." % (k["d"], acc, k["base"]), "Wir definieren eine %s als %s %s." % (k["e"], acc, k["base"]),
         "Wir nennen die Kombination aus\n\tder Variable inhalt mit Standardwert 0,\neine Kiste, und erstellen sie so:\n\t\"Kiste mit <inhalt>\""]
    if route == "field-default":
        L.append("Wir nennen die Kombination aus\n\tder Variable inhalt mit Standardwert %s,\neine Truhe, und erstellen sie so:\n\t\"eine Truhe\"" % k["default"])
    src_t = k["base"] if converse else k["d"]
    L += ["Die Funktion reiche mit dem Parameter w vom Typ Variable, gibt eine Variable zurück, macht:\n\tGib w zurück.\nUnd kann so benutzt werden:\n\t\"reiche <w> durch\"",
          "Die Funktion verpacke mit dem Parameter w vom Typ %s, gibt eine Variable zurück, macht:\n\tGib w zurück.\nUnd kann so benutzt werden:\n\t\"verpacke <w>\"" % src_t]
    L += k["setup"]
    art = "Die" if (converse and k["bart"] == "eine") or not converse else "Der"
    L.append("%s %s h ist %s." % (art, src_t, k["bval"] if converse else k["val"]))
    L += {"cast": ["Die Variable v ist h als Variable."],
          "init": ["Die Variable v ist h."],
          "assign": ["Die Variable v ist 0.", "Speichere h in v."],
          "argument": ["Die Variable v ist reiche (h als Variable) durch."],
          "field": ["Die Kiste ki ist Kiste mit (h als Variable).", "Die Variable v ist inhalt von ki."],
          "field-default": ["Die Truhe tr ist eine Truhe.", "Die Variable v ist inhalt von tr."],
          "return": ["Die Variable v ist verpacke h."],
          "list-element": ["Die Variablen Liste vl ist eine Liste, die aus (h als Variable) besteht.", "Die Variable v ist vl an der Stelle 1."]}[route]
    for tag, art2, name in (("D", "eine", k["d"]), ("B", k["bart"], k["base"]), ("E", "eine", k["e"])):
        L.append("Wenn v %s %s ist, dann:\n\tSchreibe \"%s ja\" auf eine Zeile.\nSonst:\n\tSchreibe \"%s nein\" auf eine Zeile." % (art2, name, tag, tag))
    if converse:
        L += [k["bback"], k["back"]]
    else:
        L += [k["back"], k["bback"]]
    L.append('Schreibe "NICHT GESTOPPT" auf eine Zeile.')
    expect = (["D nein", "B ja", "E nein"] if converse else ["D ja", "B nein", "E nein"]) + [k["shown"]]
    return "\n".join(L) + "\n", expect


def leg_runtime(ck, b):
    ok, lg = b.ensure_native()
    if not ok:
        ck.violation("harness-build", "kddp / runtime do not build against /repo: " + lg[-500:], dict(log=lg[-3000:]), no_input=True)
        return dict(programs=0)
    root = vlib.scratch()
    jobs = []
    for kind, k in RT_KINDS.items():
        for route in RT_ROUTES:
            if route == "field-default" and k["default"] is None:
                continue
            jobs.append((kind, route, False))
        for route in ("cast", "init", "return"):
            jobs.append((kind, route, True))

    def run(job):
        kind, route, conv = job
        src, expect = rt_program(kind, route, conv)
        d = os.path.join(root, "rt_%s_%s_%d" % (kind, route, conv))
        os.makedirs(d)
        open(os.path.join(d, "main.ddp"), "w").write(src)
        r = b.compile(os.path.join(d, "main.ddp"), os.path.join(d, "main.exe"), cwd=d)
        if r["stage"] != "ok":
            return job, src, expect, dict(stage=r["stage"], out=r["out"][-800:])
        rc, so, se = b.run(os.path.join(d, "main.exe"), cwd=d)
        return job, src, expect, dict(stage="ok", rc=rc, stdout=so.decode("utf-8", "replace").splitlines(), stderr=se.decode("utf-8", "replace")[-200:])
    bad_build = []
    for (kind, route, conv), src, expect, r in vlib.pmap(run, jobs):
        ck.count()
        what = "%s value of a definition of %s" % ("base" if conv else "definition", kind) if False else ("a %s put into a Variable by route '%s'" % ("value of the base type %s" % kind if conv else "value of a definition of %s" % kind, route))
        if r["stage"] != "ok" and ("Unerwarteter Fehler" in r["out"] or "goroutine" in r["out"] or "ein Bug im DDP-Kompilierer" in r["out"]):
            # the frontend accepted the conversions between the definition and its base, the compiler cannot translate them
            ck.violation("definition-conversion-crash kind=%s route=%s held=%s" % (kind, route, "base" if conv else "definition"),
                         "the program converting between a definition of %s and its base is accepted by the frontend but crashes the compiler: %s" % (kind, r["out"][:300]),
                         dict(program=src, compiler_output=r["out"], how="kddp kompiliere main.ddp"))
            continue
        if r["stage"] != "ok":
            bad_build.append((kind, route, conv, r["out"], src))
            continue
        got = r["stdout"]
        stopped = r["rc"] != 0 and "NICHT GESTOPPT" not in got and "Laufzeitfehler" in r["stderr"]
        if got[:3] != expect[:3]:
            ck.violation("variable-identity route=%s kind=%s held=%s tests=%s" % (route, kind, "base" if conv else "definition", ",".join(got[:3])),
                         "%s answers the `ist` tests for (its definition, the base type, another definition of the base) with %s; a definition is opaque, expected %s" % (what, got[:3], expect[:3]),
                         dict(program=src, stdout=got, exit=r["rc"], expected=expect, how="kddp kompiliere main.ddp; link; run"))
        elif got[3:4] != expect[3:4] or not stopped:
            ck.violation("variable-conversion route=%s kind=%s held=%s stopped=%d" % (route, kind, "base" if conv else "definition", stopped),
                         "%s: converting back to the held type must yield %s and converting to the %s must stop with a Laufzeitfehler; observed output %s, exit %s" % (what, expect[3], "definition" if conv else "base type", got[3:], r["rc"]),
                         dict(program=src, stdout=got, exit=r["rc"], stderr=r["stderr"], expected=expect, how="kddp kompiliere main.ddp; link; run"))
        else:
            ck.nontrivial(("rt", kind, route, conv))
    if bad_build:
        ck.broken_obligation("runtime leg: %d generated programs do not compile, e.g. %s/%s: %s" % (len(bad_build), bad_build[0][0], bad_build[0][1], bad_build[0][3][-300:]), bad_build[0][4])
    return dict(programs=len(jobs), kinds=list(RT_KINDS), routes=list(RT_ROUTES))


def main():
    ck = Check(PID, "proof")
    b = Build()
    ck.cov["trusted_base"] = vlib.TRUSTED_COMMON + [
        "pointer identity of *TypeAlias/*TypeDef/*StructType objects is modelled by ids; wf_types (same id => same content) is evaluated by the model on the generated population on every run",
        "names and grammatical genders of types are outside the model; harness/go/internal/tyspec builds the ddptypes values from the specs and renders results back",
        "frontend leg: the DDP renderer (articles, list plurals, one function per position) — guarded: any diagnostic other than TYP_BAD_ASSIGNEMENT/TYP_BAD_CAST on the tested line is a harness error, never a verdict",
        "Python canonical-form oracle (aliases resolved everywhere, definitions/Kombinationen by object) = the property's specification of Equal, numeric, Variable and of the positions",
        "user-declared cast operator overloads are outside the model (none are declared in the generated programs)",
    ]
    ck.coq()
    model, mlog = ensure_model()
    typex, lg = b.ensure_go("typex")
    if not typex:
        ck.violation("harness-build", "typex does not build against /repo: " + lg[-500:], dict(log=lg[-3000:]), no_input=True)
        ck.finish()
    if not model:
        ck.broken_obligation("extracted model driver extract/_build/c14 does not build", mlog[-2000:])
        ck.finish()
    fnd = Findings()
    t0 = time.time()
    pop, levels = build_population(3 if ck.quick else 4)
    for t in load_corpus():
        pop.add(t)
    res = leg_types(ck, fnd, typex, model, pop)
    if res is None:
        ck.finish()
    log("[c14] ddptypes leg: %d types, %d pairs in %.1fs" % (len(pop.types), len(pop.types) ** 2, time.time() - t0))
    # frontend leg
    codes = run_tool(typex, "C\n")[0].split()[1:]
    codes = tuple(int(c) for c in codes)
    d1 = [t for t in levels[0] + levels[1]]
    d2 = d1 + levels[2]
    d3 = d2 + levels[3]
    deeper = set(spec(t) for lv in levels[4:] for t in lv)
    d3s = set(spec(t) for t in d3)
    twins = [t for t in pop.types if spec(t) not in d3s and spec(t) not in deeper]
    expressible = lambda t: ddp_name(t) is not None
    void_i = pop.index["N"]

    def idx(t):
        return pop.index[spec(t)]
    full = [t for t in (d2 if ck.quick else d3 + twins) if expressible(t) and t[0] not in "NGI" and "G#" not in spec(t)]
    pairs = [(idx(a), idx(b)) for a in full for b in full]
    pairs += [(idx(a), void_i) for a in full]
    extra_pool = [t for t in d3 + twins if expressible(t) and t[0] not in "NGI" and "G#" not in spec(t)]
    seen = set(pairs)
    want_extra = 6000 if ck.quick else 0
    tries = 0
    while want_extra > 0 and tries < 20 * 40000:
        tries += 1
        a, b2 = ck.rng.choice(extra_pool), ck.rng.choice(extra_pool)
        # bias towards related pairs: with probability 1/2 pick the partner among types sharing the canonical true underlying
        if ck.rng.random() < 0.5 and tu_canon(a) != tu_canon(b2):
            continue
        pr = (idx(a), idx(b2))
        if pr not in seen:
            seen.add(pr)
            pairs.append(pr)
            want_extra -= 1
    t1 = time.time()
    fr = leg_frontend(ck, fnd, typex, pop, res, pairs, codes)
    log("[c14] frontend leg: %d programs in %.1fs" % (fr["programs"], time.time() - t1))
    fnd.flush(ck)
    t2 = time.time()
    rt = leg_runtime(ck, b)
    log("[c14] runtime leg (definition inside a Variable): %d programs in %.1fs" % (rt["programs"], time.time() - t2))
    if fr["harness_err"]:
        a, v, line, src = fr["harness_err"][0]
        ck.broken_obligation("frontend leg: %d generated well-formed programs drew a diagnostic other than the tested one, e.g. required=%s supplied=%s -> %s" % (len(fr["harness_err"]), a, v, line), src)
    mism = res["mismatch"] + fr["mismatch"]
    if mism and not ck.violations:
        ck.broken_obligation("correspondence model vs implementation fails on %d answers although every answer satisfies the property oracle, e.g. %s" % (len(mism), "; ".join(mism[:3])), "\n".join(mism[:50]))
    elif mism:
        log("[c14] %d model/implementation disagreements (explained by the violations above), e.g. %s" % (len(mism), mism[0]))
    ck.cov.update(res["stats"])
    ck.cov.update(dict(
        exhaustive=True,
        exhaustive_legs=["ddptypes predicates: all types of the depth-%d closure (+twins, +extras), all ordered pairs for Equal/DeepEqual, all transitivity triples" % (3 if ck.quick else 4),
                         "frontend positions: all ordered pairs of source-expressible types of depth <= %s (+ void as supplied type)" % ("2" if ck.quick else "3 incl. twin aliases/definitions")],
        runtime_leg=dict(rt, note="compiled and run: a value of a definition (and, conversely, of its base type) reaches a Variable by explicit cast, initialiser, assignment, argument, field, field default, return and list element; "
                                   "the `ist` tests, the cast back and the Laufzeitfehler of the cast to the other type are judged by opacity (C14_def_opaque): the dynamic type is the static type at the conversion"),
        frontend_programs=fr["programs"], frontend_pairs_exhaustive=len(full) * (len(full) + 1), frontend_pairs_sampled=len(pairs) - len(full) * (len(full) + 1),
        frontend_verdicts={p: dict(accept=v[0], reject=v[1]) for p, v in fr["dist"].items()},
        positions_note="the property's sentence 'initialisation and assignment accept exactly ...' is about the positions init and assign (judged by the full oracle); cast/refcast are judged by its conversion sentence; "
                       "arg (value parameter), refarg (Referenz parameter) and return are ADDITIONAL coverage: compared with the model (theorems C14_arg_char, C14_ref_arg_needs_equal, C14_return_char) and judged only by transparency/opacity",
        rule="non-trivial = ordered pair of DIFFERENT types related by Equal or DeepEqual in the implementation, or a position that accepts a supplied type not equivalent to the required one; distinct by (position, type specs)"))
    i0 = pop.index[spec(levels[2][5])] if len(levels[2]) > 5 else 0
    ck.sample(dict(type=spec(pop.types[i0]), canonical=canon(pop.types[i0])))
    if pairs:
        T, V = pop.types[pairs[len(pairs) // 2][0]], pop.types[pairs[len(pairs) // 2][1]]
        ck.sample(dict(required=spec(T), supplied=spec(V), program=program(T, V)[0]))
    ck.finish()


if __name__ == "__main__":
    main()
