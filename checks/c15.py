#!/usr/bin/env python3
"""C15 — a generic call behaves like its monomorphic specialisation.

Proof (type level): coq/Props/C15.v over coq/Types/Generic.v — what a successful unification returns
  (first binding wins), a conflicting second binding rejects the call, unification never panics, the
  instantiation cache of generic Kombinationen is canonical over all request histories.
Leg 1 (type level, c15_typelevel.run): UnifyGenericType / GetInstantiatedType / GetInstantiatedStructType of
  the real code vs the extracted model vs a specification oracle on seeded scenarios.
Leg 2 (program level — what the property is about): for every template of a generic function and every
  applicable tuple of concrete types the program that calls the generic function is compared with the
  program in which the function has been replaced by its specialisation written out (type parameters
  textually replaced by the bindings the MODEL computes for the call), in the declaring module and from an
  importing module, with repeated instantiations (all tuples of a template in one program; quick) and in
  isolation (one instantiation per program; thorough).  Both are compiled with the real kddp, linked, run;
  stdout and exit status must be identical and equal to the output predicted by a Python semantics of the
  template.
Leg 3 (negative): binding one type parameter to two different argument types must be rejected by the
  frontend (parser.Parse through typex), while the same call with matching types is accepted."""
import os
import subprocess
import sys
import time

sys.path.insert(0, os.path.dirname(os.path.abspath(__file__)))
import vlib
from vlib import Check, Build, log
import c14
import c15_typelevel

PID = "C15"

# ---- the concrete types ---------------------------------------------------------------------------------
# name: DDP type; art: nominative article; acc: accusative article + type as written after "gibt"; spec: model spec
U = {
    "Z": dict(name="Zahl", art="Die", ret="eine Zahl", lst="Zahlen Liste", ref="Zahlen Referenz", each="jede Zahl", spec="Z", vals=[7, -3, 40]),
    "K": dict(name="Kommazahl", art="Die", ret="eine Kommazahl", lst="Kommazahlen Liste", ref="Kommazahlen Referenz", each="jede Kommazahl", spec="K", vals=[2.5, 0.25, -4.75]),
    "T": dict(name="Text", art="Der", ret="einen Text", lst="Text Liste", ref="Text Referenz", each="jeden Text", spec="T", vals=["ab", "xyz", ""]),
    "C": dict(name="Buchstabe", art="Der", ret="einen Buchstaben", lst="Buchstaben Liste", ref="Buchstaben Referenz", each="jeden Buchstaben", spec="C", vals=["q", "w", "X"]),
    "LZ": dict(name="Zahlen Liste", art="Die", ret="eine Zahlen Liste", lst=None, ref="Zahlen Listen Referenz", spec="L(Z)", vals=[[1, 2, 3], [], [9]], elem="Z"),
    "LT": dict(name="Text Liste", art="Die", ret="eine Text Liste", lst=None, ref="Text Listen Referenz", spec="L(T)", vals=[["a", "b"], ["z"], []], elem="T"),
    "P": dict(name="Punkt", art="Der", ret="einen Punkt", lst="Punkt Liste", ref="Punkt Referenz", each="jeden Punkt", spec="S#1", vals=[(1, 2), (5, 6), (0, 9)], fields=("x", "y"), fk="Z"),
    "ZP": dict(name="Zahl-Paar", art="Das", ret="ein Zahl-Paar", lst="Zahl-Paar Liste", ref="Zahl-Paar Referenz", each="jedes Zahl-Paar", spec=None, vals=[(3, 4), (8, 9), (1, 1)], fields=("erstes", "zweites"), fk="Z"),
    # auxiliary (arguments / results of the Paar templates only)
    "TP": dict(name="Text-Paar", art="Das", ret="ein Text-Paar", lst="Text-Paar Liste", ref="Text-Paar Referenz", each="jedes Text-Paar", spec=None, vals=[("l", "r"), ("m", "n"), ("", "o")], fields=("erstes", "zweites"), fk="T"),
    "W": dict(name="Wahrheitswert", art="Der", ret="einen Wahrheitswert", lst="Wahrheitswert Liste", ref="Wahrheitswert Referenz", spec="W", vals=[True, False, True]),
}
MAIN8 = ["Z", "K", "T", "C", "LZ", "LT", "P", "ZP"]
SCALAR = ["Z", "K", "T", "C"]
NONLIST = ["Z", "K", "T", "C", "P", "ZP"]
LISTOF = {"Z": "LZ", "T": "LT"}       # list types that are themselves in the universe; others exist as list arguments only

TYPE_DECLS = {
    False: '''Wir nennen die Kombination aus
	der Zahl x mit Standardwert 0,
	der Zahl y mit Standardwert 0,
einen Punkt, und erstellen sie so:
	"Punkt(<x>, <y>)"

Wir nennen die generische Kombination aus
	dem T erstes,
	dem T zweites,
ein Paar, und erstellen sie so:
	"Paar(<erstes>, <zweites>)"
''',
    True: '''Wir nennen die öffentliche Kombination aus
	der öffentlichen Zahl x mit Standardwert 0,
	der öffentlichen Zahl y mit Standardwert 0,
einen Punkt, und erstellen sie so:
	"Punkt(<x>, <y>)"

Wir nennen die generische öffentliche Kombination aus
	dem öffentlichen T erstes,
	dem öffentlichen T zweites,
ein Paar, und erstellen sie so:
	"Paar(<erstes>, <zweites>)"
''',
}


def fmt(k, v):
    """what `Schreibe v auf eine Zeile` prints"""
    if k == "K":
        return "%.16g" % v
    if k == "W":
        return "wahr" if v else "falsch"
    return str(v)


def lit(k, v):
    if k == "Z":
        return str(v)
    if k == "K":
        return ("%.16g" % v).replace(".", ",")
    if k == "T":
        return '"%s"' % v
    if k == "C":
        return "'%s'" % v
    if k == "W":
        return "wahr" if v else "falsch"
    raise ValueError(k)


class Prog:
    """statement builder for the module that performs the calls"""
    def __init__(self):
        self.lines = []
        self.expect = []
        self.n = 0

    def fresh(self, p="v"):
        self.n += 1
        return "%s%d" % (p, self.n)

    def declare(self, k, v, ref_ok=True):
        """declare a variable of type k holding v; returns its name"""
        u = U[k]
        name = self.fresh()
        if k in ("LZ", "LT"):
            ek = u["elem"]
            if v:
                self.lines.append("%s %s %s ist eine Liste, die aus %s besteht." % (u["art"], u["name"], name, ", ".join(lit(ek, e) for e in v)))
            else:
                self.lines.append("%s %s %s ist eine leere %s." % (u["art"], u["name"], name, u["name"]))
        elif k == "P":
            self.lines.append("Der Punkt %s ist Punkt(%d, %d)." % (name, v[0], v[1]))
        elif k in ("ZP", "TP"):
            self.lines.append("%s %s %s ist Paar(%s, %s)." % (u["art"], u["name"], name, lit(u["fk"], v[0]), lit(u["fk"], v[1])))
        else:
            self.lines.append("%s %s %s ist %s." % (u["art"], u["name"], name, lit(k, v)))
        return name

    def declare_list(self, ek, vs):
        """a variable holding a list of values of type ek (elements through variables, so that no literal is ambiguous)"""
        if ek in LISTOF:
            return self.declare(LISTOF[ek], vs)
        els = [self.declare(ek, v) for v in vs]
        name = self.fresh("l")
        self.lines.append("Die %s %s ist eine Liste, die aus %s besteht." % (U[ek]["lst"], name, ", ".join(els)))
        return name

    def show(self, k, var, v):
        u = U[k]
        if k in ("LZ", "LT"):
            self.show_list(u["elem"], var, v)
        elif "fields" in u:
            for f, x in zip(u["fields"], v):
                self.lines.append("Schreibe (%s von %s) auf eine Zeile." % (f, var))
                self.expect.append(fmt(u["fk"], x))
        else:
            self.lines.append("Schreibe %s auf eine Zeile." % var)
            self.expect.append(fmt(k, v))

    def show_list(self, ek, var, vs):
        self.lines.append("Schreibe (die Länge von %s) auf eine Zeile." % var)
        self.expect.append(str(len(vs)))
        e = self.fresh("e")
        self.lines.append("Für %s %s in %s, mache:" % (U[ek]["each"], e, var))
        u = U[ek]
        if "fields" in u:
            for f in u["fields"]:
                self.lines.append("\tSchreibe (%s von %s) auf eine Zeile." % (f, e))
            for x in vs:
                self.expect += [fmt(u["fk"], y) for y in x]
        else:
            self.lines.append("\tSchreibe %s auf eine Zeile." % e)
            self.expect += [fmt(ek, x) for x in vs]

    def label(self, s):
        self.lines.append('Schreibe "%s" auf eine Zeile.' % s)
        self.expect.append(s)


# ---- templates ---------------------------------------------------------------------------------------------
# type expressions of parameters / results: "T" "R" (type parameters), ("L", "T"), ("Paar", "T"), or a concrete key
def tx_generic(tx):
    if isinstance(tx, tuple):
        return ("%s Liste" % tx[1]) if tx[0] == "L" else ("%s-Paar" % tx[1])
    return tx if tx in ("T", "R") else U[tx]["name"]


def tx_key(tx, sg):
    """the concrete universe key of a type expression under bindings sg (None if not a universe type)"""
    if isinstance(tx, tuple):
        k = sg[tx[1]]
        if tx[0] == "L":
            return LISTOF.get(k, ("L", k))
        return {"Z": "ZP", "T": "TP"}[k]
    return sg.get(tx, tx)


def tx_name(tx, sg, what="name"):
    k = tx_key(tx, sg)
    if isinstance(k, tuple):                      # a list type outside the universe: only ever a parameter type
        if what == "name":
            return U[k[1]]["lst"]
        if what == "ref":
            return U[k[1]]["lst"].replace("Liste", "Listen Referenz")
        if what == "ret":
            return "eine " + U[k[1]]["lst"]
        if what == "art":
            return "Die"
    return U[k][what]


class Template:
    def __init__(self, name, tparams, params, ret, body, alias, tuples, sem, args, stmt=False, needs=(), globals_=(), callsite=(), operator=None, opt2=False):
        self.name, self.tparams, self.params, self.ret, self.body = name, tparams, params, ret, body
        self.alias, self.tuples, self.sem, self.args, self.stmt, self.needs, self.globals, self.callsite = alias, tuples, sem, args, stmt, needs, globals_, callsite
        self.operator, self.opt2 = operator, opt2        # operator: the function overloads this operator (the alias is the expression form)

    def fname(self, sg):
        return self.name if sg is None else self.name + "_" + "_".join(sg[t] for t in self.tparams)

    def key_word(self):
        """the alias word that is made unique per binding in the specialisation (always the first word)"""
        return "\0" if self.operator else self.alias.split(" ")[0]

    def suffix(self, sg):
        return "_" + "_".join(sg[t] for t in self.tparams)

    def alias_text(self, sg):
        if sg is None or self.operator:
            return self.alias                 # an operator is used the same way whichever overload serves it
        w = self.alias.split(" ")
        return " ".join([w[0] + self.suffix(sg)] + w[1:])

    def decl(self, sg, public):
        """the declaration: generic (sg None) or specialised by textual replacement under sg"""
        def ptype(tx, ref):
            if sg is None:
                return tx_generic(tx) + (" Referenz" if ref else "")
            return tx_name(tx, sg, "ref" if ref else "name")
        ps = self.params
        head = "Die %s%sFunktion %s " % ("öffentliche " if public else "", "generische " if sg is None else "", self.fname(sg))
        if len(ps) == 1:
            head += "mit dem Parameter %s vom Typ %s" % (ps[0][0], ptype(ps[0][1], ps[0][2]))
        else:
            names = ", ".join(p[0] for p in ps[:-1]) + " und " + ps[-1][0]
            types = ", ".join(ptype(p[1], p[2]) for p in ps[:-1]) + " und " + ptype(ps[-1][1], ps[-1][2])
            head += "mit den Parametern %s vom Typ %s" % (names, types)
        if self.ret is None:
            head += ", gibt nichts zurück, macht:"
        elif sg is None and not isinstance(self.ret, tuple) and self.ret not in ("T", "R"):
            head += ", gibt %s zurück, macht:" % U[self.ret]["ret"]
        elif sg is None:
            r = tx_generic(self.ret)
            head += ", gibt %s %s zurück, macht:" % ("eine" if isinstance(self.ret, tuple) and self.ret[0] == "L" else "ein", r)
        else:
            head += ", gibt %s zurück, macht:" % tx_name(self.ret, sg, "ret")
        body = []
        for b in self.body:
            if sg is not None:
                # textual replacement of the type parameters in the body: local declarations `Das T x` and calls of
                # other templates (which are specialised under the same bindings)
                for t in self.tparams:
                    b = b.replace("Das %s " % t, "%s %s " % (U[sg[t]]["art"], U[sg[t]]["name"]))
                for n in self.needs:
                    o = TEMPLATES[n]
                    b = b.replace(o.key_word() + " ", o.key_word() + o.suffix(sg) + " ")
            body.append("\t" + b)
        if self.operator:
            return "\n".join([head] + body + ['Und überlädt den "%s" Operator.' % self.operator]) + "\n"
        return "\n".join([head] + body + ["Und kann so benutzt werden:", '\t"%s"' % self.alias_text(sg)]) + "\n"

    def call(self, sg, argnames, want=None):
        s = self.alias_text(sg)
        for p, a in zip(self.params, argnames):
            s = s.replace("<%s>" % p[0], a)
        if want:
            for k, v in want.items():
                s = s.replace("{%s}" % k, U[v]["name"])
        return s


def t_all(ks):
    return [dict(T=k) for k in ks]


TEMPLATES = {}


def T_(*a, **k):
    t = Template(*a, **k)
    TEMPLATES[t.name] = t


V = lambda k, i=0: U[k]["vals"][i]

T_("identi", ["T"], [("a", "T", False)], "T", ["Gib a zurück."], "identi <a>", t_all(MAIN8),
   lambda sg, a: (a, None), lambda sg: [V(sg["T"])])
T_("waehle", ["T"], [("a", "T", False), ("b", "T", False), ("c", "W", False)], "T", ["Wenn c, gib a zurück.", "Gib b zurück."],
   "waehle <a> oder <b> nach <c>", t_all(MAIN8), lambda sg, a, b, c: (a if c else b, None), lambda sg: [V(sg["T"]), V(sg["T"], 1), False])
T_("tausche", ["T"], [("a", "T", True), ("b", "T", True)], None, ["Das T temp ist a.", "Speichere b in a.", "Speichere temp in b."],
   "Tausche <a> und <b>", t_all(MAIN8), lambda sg, a, b: (None, [b, a]), lambda sg: [V(sg["T"]), V(sg["T"], 1)], stmt=True)
T_("zweites", ["T", "R"], [("a", "T", False), ("b", "R", False)], "R", ["Gib b zurück."], "zweites <a> und <b>",
   [dict(T=a, R=b) for a in MAIN8 for b in MAIN8], lambda sg, a, b: (b, None), lambda sg: [V(sg["T"]), V(sg["R"], 1)])
T_("kopf", ["T"], [("l", ("L", "T"), False)], "T", ["Gib l an der Stelle 1 zurück."], "kopf <l>", t_all(NONLIST),
   lambda sg, l: (l[0], None), lambda sg: [[V(sg["T"], 1), V(sg["T"], 0)]])
T_("laenge", ["T"], [("l", ("L", "T"), False)], "Z", ["Gib die Länge von l zurück."], "laenge <l>", t_all(NONLIST),
   lambda sg, l: (len(l), None), lambda sg: [[V(sg["T"], 1), V(sg["T"], 0), V(sg["T"], 2)]])
T_("anfuegen", ["T"], [("l", ("L", "T"), False), ("e", "T", False)], ("L", "T"), ["Gib l verkettet mit e zurück."], "anfuegen <l> das <e>",
   t_all(["Z", "T"]), lambda sg, l, e: (l + [e], None), lambda sg: [[V(sg["T"], 1), V(sg["T"], 0)], V(sg["T"], 2)])
T_("vorne", ["T"], [("p", ("Paar", "T"), False)], "T", ["Gib erstes von p zurück."], "vorne <p>", t_all(["Z", "T"]),
   lambda sg, p: (p[0], None), lambda sg: [V({"Z": "ZP", "T": "TP"}[sg["T"]])])
T_("wieder", ["T"], [("a", "T", False), ("n", "Z", False)], "T", ["Wenn n gleich 0 ist, gib a zurück.", "Gib wieder a mal (n minus 1) zurück."],
   "wieder <a> mal <n>", t_all(MAIN8), lambda sg, a, n: (a, None), lambda sg: [V(sg["T"]), 3], needs=("wieder",))
T_("doppelt", ["T"], [("a", "T", False)], "T", ["Gib identi (identi a) zurück."], "doppelt <a>", t_all(MAIN8),
   lambda sg, a: (a, None), lambda sg: [V(sg["T"], 1)], needs=("identi",))
T_("plus1", ["T"], [("a", "T", False)], "T", ["Gib a plus 1 zurück."], "pluseins <a>", t_all(["Z", "K"]),
   lambda sg, a: (a + 1, None), lambda sg: [V(sg["T"], 1)])
T_("mitglobal", ["T"], [("a", "T", False)], "Z", ["Gib basis plus 1 zurück."], "mitglobal <a>", t_all(MAIN8),
   lambda sg, a: (101, None), lambda sg: [V(sg["T"])], globals_=("Die Zahl basis ist 100.",), callsite=("Die Zahl basis ist 5.",))
T_("listeaus", ["T"], [("a", "T", False), ("b", "T", False)], ("L", "T"), ["Gib eine Liste, die aus a, b besteht zurück."], "listeaus <a> und <b>",
   t_all(["Z", "T"]), lambda sg, a, b: ([a, b], None), lambda sg: [V(sg["T"]), V(sg["T"], 2)])
# the body names a type of the declaring module; importing modules declare a DIFFERENT type of the same name
SOME = ["Z", "T", "LZ", "ZP"]
T_("typkombi", ["T"], [("a", "T", False)], "Z", ["Der Stempel s ist der Standardwert von einem Stempel.", "Gib wert von s zurück."], "typkombi <a>", t_all(SOME),
   lambda sg, a: (1, None), lambda sg: [V(sg["T"])],
   globals_=("Wir nennen die Kombination aus\n\tder Zahl wert mit Standardwert 1,\neinen Stempel.",),
   callsite=("Wir nennen die Kombination aus\n\tder Zahl wert mit Standardwert 100,\n\tdem Text mehr mit Standardwert \"x\",\neinen Stempel.",))
T_("typalias", ["T"], [("a", "T", False)], "Z", ["Das Wort w ist \"decl\".", "Gib die Länge von w zurück."], "typalias <a>", t_all(SOME),
   lambda sg, a: (4, None), lambda sg: [V(sg["T"])],
   globals_=("Wir nennen einen Text auch ein Wort.",), callsite=("Wir nennen eine Kommazahl auch ein Wort.",))
T_("typdef", ["T"], [("a", "T", False)], "Z", ["Die Nummer n ist 41 als Nummer.", "Gib (n als Zahl) plus 1 zurück."], "typdef <a>", t_all(SOME),
   lambda sg, a: (42, None), lambda sg: [V(sg["T"])],
   globals_=("Wir definieren eine Nummer als eine Zahl.",), callsite=("Wir definieren eine Nummer als einen Text.",))
# generic OPERATOR overloads (instantiated through typechecker.findOverload / findOverloadCast), each used with two type
# tuples in one module, and once from inside an instantiated generic body (summe)
PAIRV = lambda sg, i=0: V({"Z": "ZP", "T": "TP"}[sg["T"]], i)
T_("opplus", ["T"], [("a", ("Paar", "T"), False), ("b", ("Paar", "T"), False)], "T", ["Gib erstes von b zurück."], "<a> plus <b>", t_all(["Z", "T"]),
   lambda sg, a, b: (b[0], None), lambda sg: [PAIRV(sg), PAIRV(sg, 1)], operator="plus")
T_("opbetrag", ["T"], [("a", ("Paar", "T"), False)], "T", ["Gib zweites von a zurück."], "der Betrag von <a>", t_all(["Z", "T"]),
   lambda sg, a: (a[1], None), lambda sg: [PAIRV(sg, 1)], operator="Betrag")
T_("opals", ["T"], [("a", ("Paar", "T"), False)], "T", ["Gib erstes von a zurück."], "<a> als {T}", t_all(["Z", "T"]),
   lambda sg, a: (a[0], None), lambda sg: [PAIRV(sg, 2)], operator="als")
T_("opminus", ["T"], [("a", "T", False), ("b", "T", False)], "T", ["Gib b zurück."], "<a> minus <b>", t_all(["P", "ZP", "TP"]),
   lambda sg, a, b: (b, None), lambda sg: [V(sg["T"]), V(sg["T"], 1)], operator="minus")
T_("summe", ["T"], [("p", ("Paar", "T"), False), ("q", ("Paar", "T"), False)], "T", ["Gib p plus q zurück."], "summe <p> und <q>", t_all(["Z", "T"]),
   lambda sg, p, q: (q[0], None), lambda sg: [PAIRV(sg, 2), PAIRV(sg)], needs=("opplus",),
   # the importing modules overload the same operator for the same parameter types differently: must not be captured
   callsite=("Die generische Funktion fremdplus mit den Parametern a und b vom Typ T-Paar und T-Paar, gibt ein T zurück, macht:\n\tGib zweites von a zurück.\nUnd überlädt den \"plus\" Operator.\n",))
# the body MUTATES its by-value parameters; the caller prints its own variables afterwards; compiled at -O 0 and -O 2
T_("mutidx", ["T"], [("l", ("L", "T"), False), ("e", "T", False)], ("L", "T"), ["Speichere e in l an der Stelle 1.", "Gib l zurück."], "mutidx <l> mit <e>", t_all(["Z", "T"]),
   lambda sg, l, e: ([e] + l[1:], None), lambda sg: [[V(sg["T"], 1), V(sg["T"], 0)], V(sg["T"], 2)], opt2=True)
T_("mutcat", ["T"], [("l", ("L", "T"), False), ("e", "T", False)], "Z", ["Speichere l verkettet mit e in l.", "Gib die Länge von l zurück."], "mutcat <l> mit <e>", t_all(["Z", "T"]),
   lambda sg, l, e: (len(l) + 1, None), lambda sg: [[V(sg["T"], 1), V(sg["T"], 0)], V(sg["T"], 2)], opt2=True)
T_("mutfeld", ["T"], [("p", ("Paar", "T"), False), ("e", "T", False)], "T", ["Speichere e in erstes von p.", "Gib erstes von p zurück."], "mutfeld <p> mit <e>", t_all(["Z", "T"]),
   lambda sg, p, e: (e, None), lambda sg: [PAIRV(sg), V(sg["T"], 2)], opt2=True)
T_("mutzu", ["T"], [("a", "T", False), ("b", "T", False)], "T", ["Speichere b in a.", "Gib a zurück."], "mutzu <a> mit <b>", t_all(MAIN8),
   lambda sg, a, b: (b, None), lambda sg: [V(sg["T"]), V(sg["T"], 1)], opt2=True)
T_("muterh", ["T"], [("a", "T", False)], "T", ["Erhöhe a um 1.", "Gib a zurück."], "muterh <a>", t_all(["Z", "K"]),
   lambda sg, a: (a + 1, None), lambda sg: [V(sg["T"])], opt2=True)
T_("ersetze", ["T"], [("x", "T", True), ("y", "T", False)], None, ["Speichere y in x."], "Ersetze <x> durch <y>", t_all(["Z"]),
   lambda sg, x, y: (None, [y, y]), lambda sg: [V(sg["T"]), V(sg["T"], 1)], stmt=True)
T_("mutref", ["T"], [("a", "T", False), ("b", "T", False)], "T", ["Ersetze a durch b.", "Gib a zurück."], "mutref <a> mit <b>", t_all(MAIN8),
   lambda sg, a, b: (b, None), lambda sg: [V(sg["T"]), V(sg["T"], 1)], needs=("ersetze",), opt2=True)
T_("lokal", ["T", "R"], [("a", "T", False), ("b", "R", False)], "T", ["Das T x ist a.", "Das R y ist b.", "Das T z ist x.", "Gib z zurück."], "lokal <a> und <b>",
   [dict(T=a, R=b) for a in MAIN8 for b in ("Z", "T", "LT", "ZP")], lambda sg, a, b: (a, None), lambda sg: [V(sg["T"], 1), V(sg["R"])])


DIAMOND = ("identi", "doppelt", "mitglobal", "typkombi", "typalias", "typdef")     # single-parameter templates also instantiated from two importing modules


# ---- model-computed bindings ----------------------------------------------------------------------------------
TPN = {"T": 7, "R": 8}
GSETUP = ["GR", "GS 1 G#1", "GI 1 G#7", "GI 1 Z", "GI 1 T"]       # T-Paar = S#1000, Zahl-Paar = S#1001, Text-Paar = S#1002
U["ZP"]["spec"], U["TP"]["spec"] = "S#1001", "S#1002"


def tx_spec(tx):
    if isinstance(tx, tuple):
        return "L(G#%d)" % TPN[tx[1]] if tx[0] == "L" else "S#1000"
    return "G#%d" % TPN[tx] if tx in TPN else U[tx]["spec"]


def key_spec(k):
    return "L(%s)" % U[k[1]]["spec"] if isinstance(k, tuple) else U[k]["spec"]


SPEC2KEY = None


def bindings_for(tool, calls):
    """calls: list of (template, [argument keys]) -> list of (accepted, {tparam: universe key}) computed by `tool`
    (the extracted model, or typex = the real UnifyGenericType for comparison)"""
    global SPEC2KEY
    if SPEC2KEY is None:
        SPEC2KEY = {U[k]["spec"]: k for k in U}
    lines = list(GSETUP)
    for t, aks in calls:
        lines.append("GC")
        for p, ak in zip(t.params, aks):
            lines.append("GU %s %s" % (key_spec(ak), tx_spec(p[1])))
    out = [l for l in c14.run_tool(tool, "\n".join(lines) + "\n") if l.startswith("GU ")]
    res, i = [], 0
    for t, aks in calls:
        ok, last = True, None
        for p, ak in zip(t.params, aks):
            f = out[i].split()
            i += 1
            if f[1] in ("nil", "panic", "fuel") or c14.canon(c14.parse_spec(f[1])) != c14.canon(c14.parse_spec(key_spec(ak))):
                ok = False
            last = f
        sg = {}
        for b in last[2:]:
            n, s = b.split("=")
            name = {("G#%d" % v): k for k, v in TPN.items()}.get(n)
            if name:
                sg[name] = SPEC2KEY.get(s, s)
        res.append((ok, sg))
    return res


# ---- program construction -----------------------------------------------------------------------------------------
def arg_keys(t, sg):
    return [tx_key(p[1], sg) for p in t.params]


def build(t, tuples, sigmas, generic, imported):
    """returns ({filename: text}, expected stdout lines).  sigmas[i] = model bindings for tuples[i]."""
    prog = Prog()
    decl_lines = []
    mid_lines = []
    need = []
    for n in t.needs:
        if n != t.name:
            need.append(TEMPLATES[n])
    need.append(t)
    seen = set()
    for o in need:
        for g in o.globals:
            decl_lines.append(g)
        if generic:
            decl_lines.append(o.decl(None, imported and o is t))
        else:
            for sg in sigmas:
                osg = {k: sg[k] for k in o.tparams}
                key = (o.name, tuple(sorted(osg.items())))
                if key not in seen:
                    seen.add(key)
                    decl_lines.append(o.decl(osg, imported and o is t))
    if imported:
        prog.lines += list(t.callsite)                  # different variables / types of the same names at the call site
        mid_lines += list(t.callsite)
    for want, sg in zip(tuples, sigmas):
        prog.label("#%s %s" % (t.name, " ".join("%s=%s" % (k, want[k]) for k in t.tparams)))
        vals = t.args(want)
        keys = arg_keys(t, want)
        names = []
        for k, v in zip(keys, vals):
            names.append(prog.declare_list(k[1], v) if isinstance(k, tuple) else prog.declare(k, v))
        res, refs = t.sem(want, *vals)
        if t.opt2:
            refs = None
        call = t.call(None if generic else {k: sg[k] for k in t.tparams}, names, want)
        if t.stmt:
            prog.lines.append(call + ".")
            for k, n, v in zip(keys, names, refs):
                prog.show(k, n, v)
        else:
            rk = tx_key(t.ret, want)
            r = prog.fresh("r")
            prog.lines.append("%s %s %s ist %s." % (tx_name(t.ret, want, "art"), tx_name(t.ret, want, "name"), r, call))
            if isinstance(rk, tuple):
                prog.show_list(rk[1], r, res)
            else:
                prog.show(rk, r, res)
            if t.opt2:
                # the body assigns to its by-value parameters: the caller's own variables must be unchanged
                prog.label("#caller")
                for k, nme, v in zip(keys, names, vals):
                    if isinstance(k, tuple):
                        prog.show_list(k[1], nme, v)
                    else:
                        prog.show(k, nme, v)
            if imported == "diamond":
                # the same instantiation is also requested by a second importing module (mid.ddp)
                i = len(mid_lines)
                k = keys[0]
                mid_lines.append("Die öffentliche Funktion mitte%d mit dem Parameter a vom Typ %s, gibt %s zurück, macht:\n\tGib %s zurück.\nUnd kann so benutzt werden:\n\t\"mitte%d <a>\"\n"
                                 % (i, U[k]["name"], tx_name(t.ret, want, "ret"), t.call(None if generic else {x: sg[x] for x in t.tparams}, ["a"]), i))
                r2 = prog.fresh("r")
                prog.lines.append("%s %s %s ist mitte%d %s." % (tx_name(t.ret, want, "art"), tx_name(t.ret, want, "name"), r2, i, names[0]))
                prog.show(rk, r2, res)
    head = 'Binde "Duden/Ausgabe" ein.\n'
    if imported == "diamond":
        files = {"decl.ddp": TYPE_DECLS[True] + "\n" + "\n".join(decl_lines), "mid.ddp": 'Binde "decl" ein.\n\n' + "\n".join(mid_lines),
                 "main.ddp": head + 'Binde "decl" ein.\nBinde "mid" ein.\n\n' + "\n".join(prog.lines) + "\n"}
    elif imported:
        files = {"decl.ddp": TYPE_DECLS[True] + "\n" + "\n".join(decl_lines), "main.ddp": head + 'Binde "decl" ein.\n\n' + "\n".join(prog.lines) + "\n"}
    else:
        files = {"main.ddp": head + "\n" + TYPE_DECLS[False] + "\n" + "\n".join(decl_lines) + "\n" + "\n".join(prog.lines) + "\n"}
    return files, prog.expect


def compile_run(b, root, tag, files, opt=0):
    d = os.path.join(root, tag)
    os.makedirs(d, exist_ok=True)
    for f, txt in files.items():
        open(os.path.join(d, f), "w").write(txt)
    r = b.compile(os.path.join(d, "main.ddp"), os.path.join(d, "main.exe"), cwd=d, opt=opt)
    if r["stage"] != "ok":
        return dict(stage=r["stage"], out=r["out"][-1500:])
    rc, so, se = b.run(os.path.join(d, "main.exe"), cwd=d)
    return dict(stage="ok", rc=rc, stdout=so.decode("utf-8", "replace").splitlines(), stderr=se.decode("utf-8", "replace")[-300:])


def judge(t, tuples, placement, rg, rs, expect):
    """None if fine, else (key, what)"""
    where = "%s %s" % (t.name, placement)
    if rg["stage"] != "ok" and rs["stage"] != "ok":
        return ("harness", "neither the generic nor the specialised program compiles (%s): %s" % (where, rs["out"][-300:]))
    if rg["stage"] != "ok":
        cls = ("symbol-multiply-defined" if "symbol multiply defined" in rg["out"] else "link" if rg["stage"] == "link"
               else "compiler-crash" if ("Unerwarteter Fehler" in rg["out"] or "ein Bug im DDP-Kompilierer" in rg["out"] or "goroutine" in rg["out"]) else "diagnostic")
        return ("generic-rejected class=%s template=%s placement=%s" % (cls, t.name, placement), "the generic call is rejected (%s) although its specialisation compiles and runs: %s" % (rg["stage"], rg["out"][-400:]))
    if rs["stage"] != "ok":
        return ("specialisation-rejected template=%s placement=%s" % (t.name, placement), "the generic program is accepted although the program with the function specialised by textual replacement is rejected: %s" % rs["out"][-400:])
    if (rg["rc"], rg["stdout"]) != (rs["rc"], rs["stdout"]):
        i = next((i for i, (x, y) in enumerate(zip(rg["stdout"] + [None], rs["stdout"] + [None])) if x != y), -1)
        return ("output-differs template=%s placement=%s" % (t.name, placement), "generic and specialised program differ at output line %d: %r vs %r (exit %s / %s)" % (i, (rg["stdout"] + [None])[i], (rs["stdout"] + [None])[i], rg["rc"], rs["rc"]))
    if rg["rc"] != 0 or rg["stdout"] != expect:
        i = next((i for i, (x, y) in enumerate(zip(rg["stdout"] + [None], expect + [None])) if x != y), -1)
        return ("both-differ-from-expected template=%s placement=%s" % (t.name, placement), "generic and specialised program agree but not with the predicted output: line %d %r, predicted %r, exit %s" % (i, (rg["stdout"] + [None])[i], (expect + [None])[i], rg["rc"]))
    return None


# ---- negative leg ----------------------------------------------------------------------------------------------------
def conflict_program(t, ak):
    prog = Prog()
    names = [prog.declare_list(k[1], [U[k[1]]["vals"][0]]) if isinstance(k, tuple) else prog.declare(k, U[k]["vals"][0]) for k in ak]
    src = TYPE_DECLS[False] + "\n" + t.decl(None, False) + "\n" + "\n".join(prog.lines) + "\nDie Variable erg ist %s.\n" % t.call(None, names)
    return src


# ---- leg 4: the per-module cache of generic function instantiations ---------------------------------------------
FI_DECL = '''Wir nennen eine Zahl öffentlich auch eine Nummer.

Die öffentliche generische Funktion ident mit dem Parameter a vom Typ T, gibt ein T zurück, macht:
	Gib a zurück.
Und kann so benutzt werden:
	"ident <a>"

Die öffentliche generische Funktion pluseins mit dem Parameter a vom Typ T, gibt ein T zurück, macht:
	Gib a plus 1 zurück.
Und kann so benutzt werden:
	"pluseins <a>"

Die öffentliche generische Funktion zwei mit den Parametern a und b vom Typ T und R, gibt ein T zurück, macht:
	Gib a zurück.
Und kann so benutzt werden:
	"zwei <a> und <b>"

Die öffentliche generische Funktion setze mit dem Parameter a vom Typ T Referenz, gibt nichts zurück, macht:
	Speichere a in a.
Und kann so benutzt werden:
	"Setze <a>"

Wir nennen die generische öffentliche Kombination aus
	dem öffentlichen T erstes,
ein Paar, und erstellen sie so:
	"Paar(<erstes>)"

Die öffentliche generische Funktion opplus mit den Parametern a und b vom Typ T-Paar und T-Paar, gibt ein T zurück, macht:
	Gib erstes von b zurück.
Und überlädt den "plus" Operator.

Die öffentliche generische Funktion opals mit dem Parameter a vom Typ T-Paar, gibt ein T zurück, macht:
	Gib erstes von a zurück.
Und überlädt den "als" Operator.

Die öffentliche generische Funktion messe mit dem Parameter l vom Typ T Liste, gibt eine Zahl zurück,
ist in "ext.c" definiert
und kann so benutzt werden:
	"messe <l>"
'''
# variable name -> (declaration, model spec, printed parameter type)
FI_VARS = dict(z=("Die Zahl z ist 1.", "Z", "Zahl"), k=("Die Kommazahl k ist 1,5.", "K", "Kommazahl"), t=("Der Text t ist \"x\".", "T", "Text"),
               n=("Die Nummer n ist 2.", "A#9(Z)", "Nummer"), lz=("Die Zahlen Liste lz ist eine leere Zahlen Liste.", "L(Z)", "Zahlen_Liste"),
               lt=("Die Text Liste lt ist eine leere Text Liste.", "L(T)", "Text_Liste"), lk=("Die Kommazahlen Liste lk ist eine leere Kommazahlen Liste.", "L(K)", "Kommazahlen_Liste"),
               zp=("Das Zahl-Paar zp ist Paar(1).", "S#2001", "Zahl-Paar"), tp=("Das Text-Paar tp ist Paar(\"a\").", "S#2002", "Text-Paar"))
FI_FUNS = dict(ident=(1, False), pluseins=(2, False), zwei=(4, False), setze=(5, False), messe=(3, True), opplus=(6, False), opals=(7, False))
FI_MODS = dict(decl=1, mid=2, main=3)


def fi_program(rng):
    """(files, model script lines, per call: (module, function, fails))"""
    def calls(mod, n):
        out = []
        for _ in range(n):
            f = rng.choice(["ident", "ident", "pluseins", "zwei", "setze", "messe", "messe", "opplus", "opplus", "opals"])
            if f in ("opplus", "opals"):        # generic operator overloads: requested through typechecker.findOverload(Cast)
                v = rng.choice(["zp", "tp"])
                a = [v, v] if f == "opplus" else [v]
                params = [(FI_VARS[v][1], 0) for _ in a]
                txt = "%s plus %s" % (v, v) if f == "opplus" else "%s als %s" % (v, "Zahl" if v == "zp" else "Text")
            elif f == "messe":
                a = [rng.choice(["lz", "lt", "lk"])]
                params = [(FI_VARS[a[0]][1], 0)]
                txt = "messe %s" % a[0]
            elif f == "zwei":
                a = [rng.choice(["z", "k", "t", "n"]), rng.choice(["z", "t", "lz"])]
                params = [(FI_VARS[x][1], 0) for x in a]
                txt = "zwei %s und %s" % tuple(a)
            else:
                a = [rng.choice(["z", "k", "t", "n", "lz", "zp"])]
                params = [(FI_VARS[a[0]][1], 1 if f == "setze" else 0)]
                txt = {"ident": "ident %s", "pluseins": "pluseins %s", "setze": "Setze %s"}[f] % a[0]
            fails = f == "pluseins" and a[0] in ("t", "lz", "zp")
            out.append((mod, f, txt, params, fails))
        return out
    cm, ca = calls("mid", rng.randint(0, 5)), calls("main", rng.randint(3, 10))
    files = {"decl.ddp": FI_DECL}
    for mod, cs, imp in (("mid", cm, 'Binde "decl" ein.\n'), ("main", ca, 'Binde "decl" ein.\nBinde "mid" ein.\n')):
        lines = [imp] + [v[0] for v in FI_VARS.values()]
        for i, (_, f, txt, _, _) in enumerate(cs):
            lines.append(txt + "." if f == "setze" else "Die Variable r%d ist %s." % (i, txt))
        files[mod + ".ddp"] = "\n".join(lines) + "\n"
    script = ["FR"] + ["FX %d %d 1" % (fid, 1 if ext else 0) for fid, ext in FI_FUNS.values()]
    for mod, f, txt, params, fails in cm + ca:          # parse order: the imported module first
        script.append("FQ %d - %d %s" % (FI_FUNS[f][0], FI_MODS[mod], " ".join("%s:%d" % p for p in params)))
    return files, script, cm + ca


def leg_funinst(ck, b, typex, model, n):
    """seeded programs (declaring module, a second importing module, main) calling generic functions (one extern, one whose
    body fails for non-numeric types, one with a Referenz parameter, one with two type parameters; arguments also through
    a type alias): the instance returned for every call (by pointer identity) and the final contents of
    GenericFuncInfo.Instantiations must be what the extracted model GenericFun.fstep computes for the same requests"""
    root = vlib.scratch()
    progs = [fi_program(ck.rng) for _ in range(n)]
    nh = 1 + len(FI_FUNS)
    text = ""
    for files, script, cs in progs:
        lines = list(script[:nh])
        for c, q in zip(cs, script[nh:]):
            lines.append(q)
            if c[4]:
                lines.append("FF @")          # the body of the instantiation just requested fails
        text += "\n".join(lines) + "\nFD\nFZ\n"
    mout = c14.run_tool(model, text)
    m_results, cur = [], []
    for l in mout:
        if l == "FZ":
            m_results.append(cur)
            cur = []
        else:
            cur.append(l)
    for i, (files, script, cs) in enumerate(progs):
        d = os.path.join(root, "fi%d" % i)
        os.makedirs(d)
        for f, t in files.items():
            open(os.path.join(d, f), "w").write(t)
    out = c14.run_tool(typex, "".join("FI %s\n" % os.path.join(root, "fi%d" % i, "main.ddp").encode().hex() for i in range(n)))
    impl, cur = [], []
    for l in out:
        cur.append(l)
        if l.startswith("FI "):
            impl.append(cur)
            cur = []
    mism = []
    names = {v[1]: v[2] for v in FI_VARS.values()}
    fname = {v[0]: k for k, v in FI_FUNS.items()}
    mname = {v: k for k, v in FI_MODS.items()}
    n_calls = 0
    for (files, script, cs), mo, io in zip(progs, m_results, impl):
        ck.count(len(cs))
        n_calls += len(cs)
        fq = [l.split() for l in mo if l.startswith("FQ ")]
        inst = [None if c[4] else int(q[2]) for c, q in zip(cs, fq)]     # failing calls yield no call node
        # as the harness prints: modules sorted by name (main, mid), source order, renumbered by first appearance
        order = [i for i, c in enumerate(cs) if c[0] == "main"] + [i for i, c in enumerate(cs) if c[0] == "mid"]
        seen, want_fc = {}, []
        for i in order:
            if inst[i] is not None:
                seen.setdefault(inst[i], len(seen))
                want_fc.append("FC %s %s %d" % (cs[i][0], cs[i][1], seen[inst[i]]))
        want_fe = sorted("FE %s %s %s" % (fname[int(l.split()[1])], mname[int(l.split()[2])], ";".join(names[x.rstrip("&")] for x in l.split()[3].split(";")))
                         for l in mo if l.startswith("FE "))
        got_fc = [l for l in io if l.startswith("FC ")]
        got_fe = sorted(l for l in io if l.startswith("FE "))
        n_fail = sum(1 for c in cs if c[4])
        got_err = int(io[-1].split()[1])
        if want_fc != got_fc or want_fe != got_fe or (n_fail == 0) != (got_err == 0):
            mism.append(dict(files=files, model_calls=want_fc, implementation_calls=got_fc, model_cache=want_fe, implementation_cache=got_fe, failing_calls=n_fail, errors=got_err))
        else:
            live = [x for x in inst if x is not None]
            if len(set(live)) < len(live):
                ck.nontrivial(("fi", tuple(want_fc)))
    if mism:
        ck.broken_obligation("function instantiation cache: model GenericFun.v vs parser.InstantiateGenericFunction disagree on %d of %d programs, e.g. %s" % (len(mism), n, str(mism[0])[:1500]), str(mism[0]))
    return dict(programs=n, calls=n_calls, mismatches=len(mism))


def main():
    ck = Check(PID, "proof")
    b = Build()
    ck.cov["trusted_base"] = vlib.TRUSTED_COMMON + [
        "proved: the type-level model Types/Generic.v only; the claim about program behaviour rests on the differential leg (real kddp + LLVM + gcc + runtime on both sides)",
        "the specialised program is produced by this check's renderer from the bindings the extracted model computes (German articles / plural forms of the concrete types); guarded: a specialised program that does not compile while the generic one does is reported, and the unchanged tree has none",
        "Python semantics of the 29 function templates = expected output",
        "Fields of instantiated generic Kombinationen and Go nil types are outside the model; mutually recursive generic functions cannot be written in DDP (a generic function must be defined immediately) and are not covered",
    ]
    ck.coq()
    model, mlog = c14.ensure_model()
    typex, lg = b.ensure_go("typex")
    ok, blog = b.ensure_native()
    if not typex or not ok:
        ck.violation("harness-build", "typex / kddp do not build against /repo: " + (lg + blog)[-500:], dict(log=(lg + blog)[-3000:]), no_input=True)
        ck.finish()
    if not model:
        ck.broken_obligation("extracted model driver extract/_build/c14 does not build", mlog[-2000:])
        ck.finish()
    t0 = time.time()
    # ---- leg 1: type level
    tl = c15_typelevel.run(ck, b, 1500 if ck.quick else 20000, seed=ck.seed)
    log("[c15] type-level leg: %d scenarios, %d answers, %s in %.1fs" % (tl["scenarios"], tl["lines"], tl["stats"], time.time() - t0))
    # ---- leg 4: function instantiation cache (model GenericFun.v)
    fi = leg_funinst(ck, b, typex, model, 60 if ck.quick else 1500)
    log("[c15] function-instantiation-cache leg: %s" % fi)
    # ---- bindings of every call, by the model and by the real unifier
    calls = []
    for t in TEMPLATES.values():
        for want in t.tuples:
            calls.append((t, arg_keys(t, want), want))
    mb = bindings_for(model, [(t, ak) for t, ak, _ in calls])
    ib = bindings_for(typex, [(t, ak) for t, ak, _ in calls])
    sig = {}
    for (t, ak, want), (okm, sgm), (oki, sgi) in zip(calls, mb, ib):
        ck.count()
        if (okm, sgm) != (oki, sgi):
            ck.broken_obligation("bindings for %s%s: model %s %s, UnifyGenericType %s %s" % (t.name, ak, okm, sgm, oki, sgi), "")
        if not okm or any(sgm.get(k) != want[k] for k in t.tparams):
            # the model's bindings are not the intended ones: the call would be judged against the wrong specialisation
            ck.broken_obligation("model bindings for %s %s are %s (accepted=%s), intended %s" % (t.name, ak, sgm, okm, want), "")
        sig[(t.name, tuple(sorted(want.items())))] = sgm
    # ---- leg 2: programs
    root = vlib.scratch()
    jobs = []
    for t in TEMPLATES.values():
        sigmas = [sig[(t.name, tuple(sorted(w.items())))] for w in t.tuples]
        groups = [("all", t.tuples, sigmas)]
        if not ck.quick:
            step = 2 if len(t.tuples) > 16 else 1          # the two-parameter templates: every second tuple in isolation
            groups += [("one%d" % i, [w], [s]) for i, (w, s) in enumerate(zip(t.tuples, sigmas)) if i % step == 0]
        for gi, (gname, tup, sgs) in enumerate(groups):
            # shared programs in both placements; isolated instantiations alternate between the placements
            for imported in ((False, True) if gname == "all" else ((gi % 2 == 0),)):
                jobs.append((t, gname, tup, sgs, imported, 0))
                if t.opt2 and (gname == "all" or not imported):
                    jobs.append((t, gname, tup, sgs, imported, 2))      # -O 2: parameter copies may be elided
            if gname == "all" and t.name in DIAMOND:
                jobs.append((t, gname, tup, sgs, "diamond", 0))

    def run_job(job):
        t, gname, tup, sgs, imported, opt = job
        tag = "%s_%s_%s_O%d" % (t.name, gname, "dia" if imported == "diamond" else "imp" if imported else "same", opt)
        fg, expect = build(t, tup, sgs, True, imported)
        fs, _ = build(t, tup, sgs, False, imported)
        rg = compile_run(b, root, tag + "_g", fg, opt)
        rs = compile_run(b, root, tag + "_s", fs, opt)
        return (job, fg, fs, rg, rs, expect)
    t1 = time.time()
    results = vlib.pmap(run_job, jobs)
    n_inst = 0
    harness = []
    for (t, gname, tup, sgs, imported, opt), fg, fs, rg, rs, expect in results:
        placement = ("two-importing-modules" if imported == "diamond" else "importing-module" if imported else "declaring-module") + ("@O2" if opt else "")
        ck.count(len(tup))
        n_inst += len(tup)
        v = judge(t, tup, placement, rg, rs, expect)
        if v is None:
            for w in tup:
                ck.nontrivial((t.name, tuple(sorted(w.items())), placement, gname == "all"))
            continue
        if v[0] == "harness":
            harness.append((v[1], fs))
            continue
        # shrink: the smallest sub-program (single instantiation) that still shows it
        small = None
        if len(tup) > 1:
            for w, s in zip(tup, sgs):
                r1 = run_job((t, "shrink", [w], [s], imported, opt))
                v1 = judge(t, [w], placement, r1[3], r1[4], r1[5])
                if v1 is not None and v1[0] == v[0]:
                    small = (w, r1)
                    break
        if small:
            w, (_, fg, fs, rg, rs, expect) = small
            tupdesc = " ".join("%s=%s" % kv for kv in sorted(w.items()))
        else:
            tupdesc = "(%d instantiations in one program)" % len(tup)
        ck.violation(v[0] + " types=" + tupdesc, v[1], dict(template=t.name, placement=placement, types=tupdesc, generic_program=fg, specialised_program=fs,
                                                         generic_result=rg, specialised_result=rs, expected_stdout=expect,
                                                         how="write the files of generic_program / specialised_program into a directory each; kddp kompiliere main.ddp -O %d; link; run; compare stdout" % opt))
    if harness:
        ck.broken_obligation("%d program pairs compile in neither form (renderer or toolchain problem), e.g. %s" % (len(harness), harness[0][0]), str(harness[0][1])[:3000])
    log("[c15] program leg: %d program pairs, %d instantiations in %.1fs" % (len(jobs), n_inst, time.time() - t1))
    # ---- leg 3: one type parameter, two different argument types
    neg = []
    for t, shapes in ((TEMPLATES["waehle"], [((a, b, "W"), a == b) for a in MAIN8 for b in MAIN8]),
                      (TEMPLATES["anfuegen"], [((("L", a), b2), a == b2) for a in SCALAR for b2 in SCALAR]),
                      (TEMPLATES["listeaus"], [((a, b2), a == b2) for a in SCALAR for b2 in SCALAR])):
        for ak, same in shapes:
            neg.append((t, ak, same))
    nb = bindings_for(model, [(t, [LISTOF.get(k[1], k) if isinstance(k, tuple) else k for k in ak]) for t, ak, _ in neg])
    text = "".join("S %d %s\n" % (i, conflict_program(t, [LISTOF.get(k[1], k) if isinstance(k, tuple) else k for k in ak]).encode().hex()) for i, (t, ak, _) in enumerate(neg))
    outs = c14.run_tool(typex, text)
    n_rej = 0
    for (t, ak, same), (okm, _), line in zip(neg, nb, outs):
        ck.count()
        f = line.split()
        accepted = f[2] == "0" and f[3] == "0" and len(f) == 4
        desc = "%s(%s)" % (t.name, ", ".join(k if isinstance(k, str) else "L " + k[1] for k in ak))
        n_rej += (not accepted)
        if okm != same:
            ck.broken_obligation("model check_args on %s: accepted=%s although the argument types are %s" % (desc, okm, "the same" if same else "different"), "")
        if accepted != same:
            src = conflict_program(t, [LISTOF.get(k[1], k) if isinstance(k, tuple) else k for k in ak])
            if same:
                ck.broken_obligation("negative leg control: the well-typed call %s is rejected by the frontend: %s" % (desc, line), src)
            else:
                ck.violation("conflict-accepted template=%s args=%s" % (t.name, desc), "the call %s binds one type parameter to two different types but parser.Parse accepts it" % desc,
                             dict(program=src, frontend=line, how="typex: S 0 <hex(program)>"))
        elif not same:
            ck.nontrivial(("neg", desc))
    ck.cov.update(dict(
        templates=len(TEMPLATES), instantiations_per_placement=sum(len(t.tuples) for t in TEMPLATES.values()), program_pairs=len(jobs), instantiations_run=n_inst,
        placements=["declaring-module", "importing-module", "two-importing-modules (identi, doppelt, mitglobal, typkombi, typalias, typdef)"], conflict_calls=len(neg), conflict_calls_rejected=n_rej,
        typelevel=dict(scenarios=tl["scenarios"], answers=tl["lines"], stats=tl["stats"]),
        function_instantiation_cache=fi,
        exhaustive=False,
        exhaustive_legs=["every template x every applicable tuple over {Zahl, Kommazahl, Text, Buchstabe, Zahlen Liste, Text Liste, Punkt, Zahl-Paar} (two-parameter templates: all 64 / 32 pairs) x both placements",
                         "conflict calls: all ordered pairs of the 8 types for waehle, of the 4 scalar types for anfuegen/listeaus"],
        rule="non-trivial = an instantiation (template, type tuple, placement, shared-program or isolated) whose generic and specialised programs both compile and print the predicted output, or a rejected conflicting call; distinct by that key"))
    t = TEMPLATES["tausche"]
    ck.sample(dict(generic=build(t, [dict(T="K")], [dict(T="K")], True, False)[0]["main.ddp"][-700:], specialised=build(t, [dict(T="K")], [dict(T="K")], False, False)[0]["main.ddp"][-700:]))
    ck.finish()


if __name__ == "__main__":
    main()
