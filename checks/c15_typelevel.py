#!/usr/bin/env python3
"""Type-level leg of C15 (imported by checks/c15.py; NOT a check of its own): UnifyGenericType / GetInstantiatedType / the instantiation cache of generic Kombinationen
(src/ddptypes/generic_types.go) against the extracted model coq/Types/Generic.v (theorems in
coq/Types/GenericProofs.v), and against a small specification oracle:

  * cache canonicity: two GetInstantiatedStructType requests return the same object iff same generic
    Kombination and pointwise equivalent type arguments; wrong arity -> nil;
  * call-site acceptance `Equal(UnifyGenericType(arg, param, σ), arg)` for a sequence of parameters
    sharing σ  ==  existence of one consistent assignment of the type parameters (first binding wins,
    a second different binding makes the call ill-typed).

Usage from a check:   import c15_typelevel; c15_typelevel.run(ck, build, n_scenarios)
Standalone:           python3 checks/c15_typelevel.py [n]     (prints statistics, exit 1 on a finding)"""
import os
import random
import subprocess
import sys

sys.path.insert(0, os.path.dirname(os.path.abspath(__file__)))
import vlib
import c14
from c14 import spec, canon

GSTRUCTS = {1: [("G", 1), ("G", 2)], 2: [("G", 3)]}      # generic Kombination id -> its own type parameters


class Scenario:
    def __init__(self, rng):
        self.rng = rng
        self.lines = ["GR"] + ["GS %d %s" % (g, " ".join(spec(p) for p in ps)) for g, ps in GSTRUCTS.items()]
        self.expect = []          # per output line: None or a predicate description
        self.objs = {}            # (gid, canon args) -> number
        self.info = {}            # number -> (gid, [arg types])
        self.ground = [("P", c) for c in "ZKBT"] + [("L", ("P", "Z")), ("L", ("L", ("P", "T"))), ("A", 21, ("P", "Z")), ("A", 22, ("L", ("P", "Z"))),
                       ("A", 23, ("A", 21, ("P", "Z"))), ("D", 24, ("P", "Z")), ("D", 25, ("P", "Z")), ("L", ("A", 21, ("P", "Z"))), ("L", ("D", 24, ("P", "Z"))), ("S", 1), ("V",)]

    def gi(self, gid, args):
        """append a GI request, return the oracle's expectation ('nil' or object number)"""
        self.lines.append("GI %d %s" % (gid, " ".join(spec(a) for a in args)))
        if len(args) != len(GSTRUCTS[gid]):
            self.expect.append(("GI", "nil"))
            return None
        key = (gid, tuple(canon(a) for a in args))
        if key not in self.objs:
            self.objs[key] = 1000 + len(self.objs)
            self.info[self.objs[key]] = (gid, list(args))
        self.expect.append(("GI", "S#%d" % self.objs[key]))
        return ("S", self.objs[key])


def list_depth_canon(c):
    d = 0
    while c.startswith("L(") and c.endswith(")"):
        c = c[2:-1]
        d += 1
    return d, c


def oracle_match(sc, param, arg, sigma):
    """does one consistent assignment of the type parameters make `param` equivalent to `arg`?
    sigma: name -> canonical form; extended in place (first binding wins)."""
    k = param[0]
    if k == "G":
        c = canon(arg)
        if param[1] in sigma:
            return sigma[param[1]] == c
        sigma[param[1]] = c
        return True
    if k == "L":
        a = arg
        while a[0] in "AI":
            a = a[2]
        if a[0] != "L":
            return False
        return oracle_match(sc, param[1], a[1], sigma)
    if k == "S" and param[1] in sc.info and any(p[0] == "G" for p in sc.info[param[1]][1]):
        a = arg
        while a[0] in "AI":
            a = a[2]
        if a[0] != "S" or a[1] not in sc.info or sc.info[a[1]][0] != sc.info[param[1]][0]:
            return False
        return all(oracle_match(sc, pp, aa, sigma) for pp, aa in zip(sc.info[param[1]][1], sc.info[a[1]][1]))
    return canon(param) == canon(arg)


def gen_scenario(rng):
    sc = Scenario(rng)
    # setup: concrete instantiations (also through aliases of the same arguments) and parameter-side
    # instantiations over the function's type parameters G#7, G#8
    conc = []
    for _ in range(rng.randint(2, 6)):
        gid = rng.choice([1, 2])
        n = len(GSTRUCTS[gid]) if rng.random() < 0.9 else rng.randint(0, 3)
        r = sc.gi(gid, [rng.choice(sc.ground + conc) for _ in range(n)])
        if r:
            conc.append(r)
    pstructs = []
    for _ in range(rng.randint(0, 2)):
        gid = rng.choice([1, 2])
        args = [rng.choice([("G", 7), ("G", 8), ("P", "Z")]) for _ in GSTRUCTS[gid]]
        if any(a[0] == "G" for a in args):
            r = sc.gi(gid, args)
            if r:
                pstructs.append(r)
    fparams = [("G", 7), ("G", 8)]
    params_pool = fparams + [("L", p) for p in fparams] + [("L", ("L", ("G", 7)))] + pstructs + [("L", p) for p in pstructs] + sc.ground[:6]
    args_pool = sc.ground + conc + [("L", c) for c in conc] + [("L", ("L", ("P", "K"))), ("A", 26, ("L", ("L", ("P", "Z"))))]
    calls = []
    for _ in range(rng.randint(1, 4)):          # a call = a few parameters sharing the bindings
        sc.lines.append("GC")
        sigma = {}
        ok_so_far = True
        for _ in range(rng.randint(1, 3)):
            p, a = rng.choice(params_pool), rng.choice(args_pool)
            if rng.random() < 0.5:              # make matches likely: derive the argument from the parameter
                a = instantiate_guess(sc, rng, p, conc)
            sc.lines.append("GU %s %s" % (spec(a), spec(p)))
            want = oracle_match(sc, p, a, sigma) if ok_so_far else None
            sc.expect.append(("GU", a, p, want))
            if want is False:
                ok_so_far = False               # after a rejected parameter the call site stops; later answers are not judged
        for _ in range(rng.randint(0, 2)):
            # GetInstantiatedType is only called after every type parameter has been bound
            cands = [p for p in params_pool if ok_so_far and all(g in sigma for g in tparams(sc, p))]
            if cands:
                sc.lines.append("GT %s" % spec(rng.choice(cands)))
                sc.expect.append(("GT",))
    return sc


def tparams(sc, t):
    if t[0] == "G":
        return [t[1]]
    if t[0] in "LADI":
        return tparams(sc, t[-1])
    if t[0] == "S" and t[1] in sc.info:
        return [g for a in sc.info[t[1]][1] for g in tparams(sc, a)]
    return []


def instantiate_guess(sc, rng, p, conc):
    if p[0] == "G":
        return rng.choice(sc.ground)
    if p[0] == "L":
        return ("L", instantiate_guess(sc, rng, p[1], conc))
    if p[0] == "S" and p[1] in sc.info:
        same = [c for c in conc if sc.info[c[1]][0] == sc.info[p[1]][0]]
        return rng.choice(same) if same else rng.choice(sc.ground)
    return p


def normalise(line):
    f = line.split()
    if len(f) > 1 and "nil" in f[1]:
        f[1] = "nil"             # L(nil) etc.: the model abstracts every result containing nil to nil
    return " ".join(f)


def run(ck, b, n=2000, seed=None):
    """returns dict(scenarios, lines, mismatches=[...], spec_violations=[...]); also reports through ck if given"""
    rng = random.Random(seed if seed is not None else (ck.seed if ck else 1))
    typex, lg = b.ensure_go("typex")
    model = vlib.model_bin("c14")
    if not typex or not os.path.exists(model):
        raise RuntimeError("typex / extracted model missing: " + lg[-300:])
    scs = [gen_scenario(rng) for _ in range(n)]
    text = "\n".join("\n".join(sc.lines) for sc in scs) + "\n"
    impl = c14.run_tool(typex, text)
    mod = c14.run_tool(model, text)
    mism, viol = [], []
    k = 0
    stats = dict(GI=0, GU=0, GT=0, accepted=0, rejected=0, panics=0)
    for sc in scs:
        for e in sc.expect:
            il, ml = impl[k], mod[k]
            k += 1
            stats[e[0]] += 1
            if normalise(il) != normalise(ml):
                mism.append(dict(scenario=sc.lines, implementation=il, model=ml))
            f = il.split()
            if e[0] == "GI" and f[1] != e[1]:
                viol.append(dict(key="inst-cache-canonical", scenario=sc.lines, implementation=il, specification=e[1]))
            if e[0] == "GU":
                if f[1] == "panic":
                    stats["panics"] += 1
                    viol.append(dict(key="unify-total", scenario=sc.lines, arg=spec(e[1]), param=spec(e[2]), implementation=il, specification="UnifyGenericType never panics"))
                if e[3] is not None:
                    # the call-site test: Equal(result, arg)
                    acc = f[1] not in ("nil", "panic") and result_equal(sc, f[1], e[1])
                    stats["accepted" if acc else "rejected"] += 1
                    if acc != e[3]:
                        viol.append(dict(key="unify-accept", scenario=sc.lines, arg=spec(e[1]), param=spec(e[2]), implementation=il, specification=e[3]))
    if ck:
        ck.count(k)
        for v in viol[:3]:
            ck.violation("generic type-level %s" % v["key"], str(v)[:300], v)
        if mism and not viol:
            ck.broken_obligation("Generic.v model vs generic_types.go disagree on %d lines, e.g. %s" % (len(mism), mism[0]), "")
    return dict(scenarios=n, lines=k, mismatches=mism, spec_violations=viol, stats=stats)


def result_equal(sc, shown, arg):
    return canon(c14.parse_spec(shown)) == canon(arg)


if __name__ == "__main__":
    n = int(sys.argv[1]) if len(sys.argv) > 1 else 2000
    r = run(None, vlib.Build(), n, seed=int(os.environ.get("VERIF_SEED", "20260923")))
    print("scenarios=%d answers=%d stats=%s mismatches=%d spec_violations=%d" % (r["scenarios"], r["lines"], r["stats"], len(r["mismatches"]), len(r["spec_violations"])))
    for m in r["mismatches"][:3]:
        print("MISMATCH", m)
    for v in r["spec_violations"][:3]:
        print("SPEC", v)
    sys.exit(1 if r["mismatches"] or r["spec_violations"] else 0)
